import datetime, traceback
from dataclasses import dataclass, field
from typing import *
from mashumaro import DataClassDictMixin, field_options, pass_through
from mashumaro.config import BaseConfig, ADD_DIALECT_SUPPORT, TO_DICT_ADD_OMIT_NONE_FLAG
from mashumaro.dialect import Dialect
from mashumaro.codecs.basic import BasicDecoder, BasicEncoder
from mashumaro.core.helpers import parse_timezone

def t(name, f):
    try:
        print(name, '->', repr(f()))
    except BaseException as e:
        print(name, 'RAISED', type(e).__name__, str(e)[:200])

# 1 timezone
tz = datetime.timezone(datetime.timedelta(minutes=-30))
t('tz name', lambda: tz.tzname(None))
t('tz parse', lambda: parse_timezone(tz.tzname(None)))
t('tz rt eq', lambda: parse_timezone(tz.tzname(None)) == tz)
tz2 = datetime.timezone(datetime.timedelta(hours=-3, minutes=-30))
t('tz2', lambda: (tz2.tzname(None), parse_timezone(tz2.tzname(None)) == tz2))
tz3 = datetime.timezone(datetime.timedelta(hours=23, minutes=59))
t('tz3', lambda: (tz3.tzname(None), parse_timezone(tz3.tzname(None)) == tz3))
tz4 = datetime.timezone(datetime.timedelta(seconds=30))
t('tz4 sub-minute', lambda: (tz4.tzname(None),))
t('tz 29:00', lambda: parse_timezone('UTC+29:00'))
t('tz 24:00', lambda: parse_timezone('UTC+24:00'))

# 2 union
t('union garbage', lambda: BasicDecoder(Union[int, None, datetime.date]).decode('garbage'))
@dataclass
class U(DataClassDictMixin):
    x: Union[int, None, datetime.date]
t('union dc garbage', lambda: U.from_dict({'x': 'garbage'}))
t('union [str,int] 1', lambda: BasicDecoder(Union[str,int]).decode(1))
t('union [int,str] "1"', lambda: BasicDecoder(Union[int,str]).decode("1"))
t('union [int,float] True', lambda: BasicDecoder(Union[int,float]).decode(True))
t('union [float,int] 1', lambda: BasicDecoder(Union[float,int]).decode(1))
t('union [List[int],int] "12"', lambda: BasicDecoder(Union[List[int],int]).decode("12"))

# 3 allow not by alias
@dataclass
class A(DataClassDictMixin):
    a: int
    b: int = field(metadata={'alias':'B'})
    class Config(BaseConfig):
        allow_deserialization_not_by_alias = True
t('not by alias None key', lambda: A.from_dict({'None': 5, 'a': 1, 'B': 2}))
t('not by alias normal', lambda: A.from_dict({'a': 1, 'b': 2}))
t('not by alias both', lambda: A.from_dict({'a': 1, 'b': 2, 'B': 3}))

# 4 Dialect.merge
class D(Dialect):
    serialize_by_alias = True
    namedtuple_as_dict = True
    omit_none = True
from mashumaro.mixins.orjson import OrjsonDialect
m = OrjsonDialect.merge(D)
t('merge', lambda: (m.serialize_by_alias, m.namedtuple_as_dict, m.omit_none, m.no_copy_collections))
