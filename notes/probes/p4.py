import datetime, traceback, sys, enum, json
from dataclasses import dataclass, field
from typing import *
from typing_extensions import Unpack
from mashumaro import DataClassDictMixin, field_options, pass_through
from mashumaro.config import BaseConfig
from mashumaro.jsonschema import build_json_schema, JSONSchemaBuilder, OPEN_API_3_1, DRAFT_2020_12
from mashumaro.jsonschema.models import JSONSchema
sys.setrecursionlimit(300)
def t(name, f):
    try:
        print(name, '->', f())
    except BaseException as e:
        print(name, 'RAISED', type(e).__name__, str(e)[:300])

@dataclass
class ON(DataClassDictMixin):
    a: Optional[int] = None
    b: int = 5
    class Config(BaseConfig):
        omit_none = True
t('omit_none default None', lambda: build_json_schema(ON).to_dict())
@dataclass
class OD(DataClassDictMixin):
    b: int = 5
    class Config(BaseConfig):
        omit_default = True
t('omit_default', lambda: build_json_schema(OD).to_dict())
@dataclass
class SA(DataClassDictMixin):
    b: int = 5
    class Config(BaseConfig):
        serialize_by_alias = True
        aliases = {'b': 'B'}
t('by alias default', lambda: build_json_schema(SA).to_dict())
@dataclass
class Node:
    v: int
    nxt: Optional['Node'] = None
t('self ref', lambda: build_json_schema(Node).to_dict())
t('self ref all_refs', lambda: build_json_schema(Node, all_refs=True).to_dict())
class Fl(enum.Flag):
    A = 1
    B = 2
@dataclass
class WF(DataClassDictMixin):
    f: Fl
t('flag schema', lambda: build_json_schema(WF).to_dict())
t('flag value', lambda: WF(Fl.A | Fl.B).to_dict())
T = TypeVar('T')
@dataclass
class G(Generic[T]):
    x: T
@dataclass
class UG:
    a: G[int]
    b: G[str]
t('generic all_refs', lambda: json.dumps(build_json_schema(UG, all_refs=True).to_dict()))
t('int keys', lambda: build_json_schema(Dict[int, str]).to_dict())
t('unpacked tuple', lambda: build_json_schema(Tuple[int, Unpack[Tuple[str, ...]], float]).to_dict())
t('unpacked tuple2', lambda: build_json_schema(Tuple[int, Unpack[Tuple[str, str]], float]).to_dict())
t('unpacked tuple3', lambda: build_json_schema(Tuple[int, Unpack[Tuple[str, ...]]]).to_dict())
def two():
    @dataclass
    class Same:
        a: int
    S1 = Same
    @dataclass
    class Same:
        b: str
    @dataclass
    class Holder:
        x: S1
        y: Same
    return Holder
t('two same-named', lambda: json.dumps(build_json_schema(two(), all_refs=True).to_dict()))
b = JSONSchemaBuilder(OPEN_API_3_1)
t('builder1', lambda: b.build(UG).to_dict())
t('builder defs', lambda: b.get_definitions().to_dict())
s = build_json_schema(UG, all_refs=True)
t('roundtrip', lambda: JSONSchema.from_dict(s.to_dict()).to_dict() == s.to_dict())
s2 = build_json_schema(Optional[int])
t('opt', lambda: s2.to_dict())
@dataclass
class DN:
    a: Optional[int] = None
    c: Literal[None] = None
t('default None', lambda: build_json_schema(DN).to_dict())
t('default None rt', lambda: JSONSchema.from_dict(build_json_schema(DN).to_dict()).to_dict())
