import datetime, traceback, sys, enum, json, collections, threading
from dataclasses import dataclass, field
from typing import *
from typing_extensions import Annotated
from mashumaro import DataClassDictMixin, field_options, pass_through
from mashumaro.config import BaseConfig, ADD_DIALECT_SUPPORT, TO_DICT_ADD_OMIT_NONE_FLAG, TO_DICT_ADD_BY_ALIAS_FLAG, ADD_SERIALIZATION_CONTEXT
from mashumaro.dialect import Dialect
from mashumaro.types import Discriminator, SerializationStrategy
from mashumaro.codecs.basic import BasicDecoder, BasicEncoder, encode, decode
from mashumaro.jsonschema import build_json_schema
def t(name, f):
    try:
        print(name, '->', repr(f()))
    except BaseException as e:
        print(name, 'RAISED', type(e).__name__, str(e)[:300])
class DOmit(Dialect):
    omit_none = True
@dataclass
class A1(DataClassDictMixin):
    x: Optional[int] = None
    class Config(BaseConfig):
        dialect = DOmit
t('c20 dialect omit_none', lambda: build_json_schema(A1).to_dict())
@dataclass
class A2(DataClassDictMixin):
    y: int = 3
    class Config(BaseConfig):
        aliases = {'x': 'XX'}
        serialize_by_alias = True
t('c20 alias x', lambda: build_json_schema(A2).to_dict())
@dataclass
class A3(DataClassDictMixin):
    y: int = 3
    class Config(BaseConfig):
        code_generation_options = [TO_DICT_ADD_OMIT_NONE_FLAG, ADD_DIALECT_SUPPORT]
        sort_keys = True
        lazy_compilation = True
        forbid_extra_keys = True
t('c20 misc', lambda: build_json_schema(A3).to_dict())
@dataclass
class A4(DataClassDictMixin):
    y: datetime.date = datetime.date(2020,1,1)
    z: List[int] = field(default_factory=list)
    w: Dict[str, int] = field(default_factory=lambda: {'a': 1})
t('c20 defaults', lambda: build_json_schema(A4).to_dict())

# C19 deser hooks
log = []
def mk(name, bases=(DataClassDictMixin,), **fields):
    ns = {'__annotations__': fields}
    def pre(cls, d): log.append(('pre', cls.__name__)); return d
    def post(cls, o): log.append(('post', cls.__name__)); return o
    ns['__pre_deserialize__'] = classmethod(pre); ns['__post_deserialize__'] = classmethod(post)
    return dataclass(type(name, bases, ns))
A = mk('A', a=int); B = mk('B', b=int)
@dataclass
class U(DataClassDictMixin):
    u: Union[A, B]
    l: List[B]
t('c19 deser', lambda: (U.from_dict({'u': {'b': 1}, 'l': [{'b': 2}]}), list(log)))

# C14 threads
def run():
    @dataclass
    class Inner(DataClassDictMixin):
        a: int
        class Config(BaseConfig):
            lazy_compilation = True
    @dataclass
    class T(DataClassDictMixin):
        i: Inner
        l: List[Inner]
        class Config(BaseConfig):
            lazy_compilation = True
    bar = threading.Barrier(8); out = []; errs = []
    def w():
        bar.wait()
        try:
            out.append(T.from_dict({'i': {'a': 1}, 'l': [{'a': 2}]}).to_dict())
        except BaseException as e:
            errs.append(repr(e))
    ts = [threading.Thread(target=w) for _ in range(8)]
    [x.start() for x in ts]; [x.join() for x in ts]
    return len(out), set(map(json.dumps, out)), errs
for i in range(5): t('c14 threads', run)
