import datetime, traceback, sys
from dataclasses import dataclass, field
from typing import *
from mashumaro import DataClassDictMixin, field_options, pass_through
from mashumaro.config import BaseConfig, ADD_DIALECT_SUPPORT, TO_DICT_ADD_OMIT_NONE_FLAG, ADD_SERIALIZATION_CONTEXT
from mashumaro.dialect import Dialect
from mashumaro.codecs.basic import BasicDecoder, BasicEncoder
from mashumaro.types import Alias, Discriminator

def t(name, f):
    try:
        print(name, '->', repr(f()))
    except BaseException as e:
        print(name, 'RAISED', type(e).__name__, str(e)[:300])

# 6 alias quoting
def mk(alias):
    @dataclass
    class Q(DataClassDictMixin):
        a: int = field(metadata={'alias': alias})
        class Config(BaseConfig):
            serialize_by_alias = True
    return Q
for s in ["it's", 'back\\slash', 'new\nline', 'dq"x', "x'] = 1; print('PWNED'); kwargs['y", "ünï", "{brace}", "%s"]:
    def f(s=s):
        Q = mk(s)
        d = Q(3).to_dict()
        return d, Q.from_dict({s: 7})
    t('alias %r' % s, f)

# 7 same-named local classes
def mk1():
    @dataclass
    class Inner(DataClassDictMixin):
        a: int
    return Inner
def mk2():
    @dataclass
    class Inner(DataClassDictMixin):
        b: str
    return Inner
I1 = mk1(); I2 = mk2()
I2.__qualname__ = I1.__qualname__  # same qualified name
@dataclass
class Outer(DataClassDictMixin):
    x: I1
    y: I2
t('same-named', lambda: Outer.from_dict({'x': {'a': 1}, 'y': {'b': 'q'}}))
import enum
def mke(n, vals):
    return enum.Enum('E', vals)
E1 = mke('E', {'A': 1}); E2 = mke('E', {'B': 2})
@dataclass
class OE(DataClassDictMixin):
    x: E1
    y: E2
t('same-named enums', lambda: OE.from_dict({'x': 1, 'y': 2}))
t('same-named enums types', lambda: [type(v) is t_ for v, t_ in zip(OE.from_dict({'x': 1, 'y': 2}).__dict__.values(), (E1, E2))])

# 8 hooks in union via codec
log = []
@dataclass
class H1:
    a: int
    def __pre_serialize__(self):
        log.append(('pre', 'H1')); return self
    def __post_serialize__(self, d):
        log.append(('post', 'H1')); return d
@dataclass
class H2:
    b: int
    def __pre_serialize__(self):
        log.append(('pre', 'H2')); return self
    def __post_serialize__(self, d):
        log.append(('post', 'H2')); return d
enc = BasicEncoder(Union[H1, H2])
t('codec union H2', lambda: (enc.encode(H2(1)), list(log)))
log.clear()
@dataclass
class HM1(DataClassDictMixin):
    a: int
    def __pre_serialize__(self):
        log.append(('pre', 'HM1')); return self
@dataclass
class HM2(DataClassDictMixin):
    b: int
    def __pre_serialize__(self):
        log.append(('pre', 'HM2')); return self
@dataclass
class HO(DataClassDictMixin):
    x: Union[HM1, HM2]
t('mixin union HM2', lambda: (HO(HM2(1)).to_dict(), list(log)))
log.clear()
enc2 = BasicEncoder(Union[HM1, HM2])
t('codec union mixin HM2', lambda: (enc2.encode(HM2(1)), list(log)))
