from dataclasses import dataclass
from typing import *
from mashumaro import DataClassDictMixin
def t(name, f):
    try:
        print(name, '->', repr(f()))
    except BaseException as e:
        print(name, 'RAISED', type(e).__name__, str(e)[:300])
@dataclass
class A_B(DataClassDictMixin):
    x: int
class A:
    @dataclass
    class B(DataClassDictMixin):
        y: str
@dataclass
class Outer(DataClassDictMixin):
    p: A_B
    q: A.B
t('clean_id collision', lambda: Outer.from_dict({'p': {'x': 1}, 'q': {'y': 's'}}))
t('clean_id collision to', lambda: Outer(A_B(1), A.B('s')).to_dict())
