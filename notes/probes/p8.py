import datetime, traceback, sys, enum, json, collections
from dataclasses import dataclass, field
from typing import *
from typing_extensions import Annotated
from mashumaro import DataClassDictMixin, field_options, pass_through
from mashumaro.config import BaseConfig, ADD_DIALECT_SUPPORT, TO_DICT_ADD_OMIT_NONE_FLAG, TO_DICT_ADD_BY_ALIAS_FLAG, ADD_SERIALIZATION_CONTEXT
from mashumaro.dialect import Dialect
from mashumaro.types import Discriminator, SerializationStrategy
from mashumaro.codecs.basic import BasicDecoder, BasicEncoder, encode, decode
def t(name, f):
    try:
        print(name, '->', repr(f()))
    except BaseException as e:
        print(name, 'RAISED', type(e).__name__, str(e)[:300])

# C18 sharing
class NC(Dialect):
    no_copy_collections = (list, dict)
@dataclass
class S(DataClassDictMixin):
    a: List[int]
    b: Dict[str, int]
    c: List[List[int]]
    d: Optional[List[int]]
    e: Union[List[int], str]
    f: Dict[str, List[int]]
    g: List[datetime.date]
    h: Sequence[int]
    i: Set[int]
    j: Any
    k: List[Any]
    class Config(BaseConfig):
        code_generation_options = [ADD_DIALECT_SUPPORT]
x = S([1],{'a':1},[[1]],[2],[3],{'k':[1]},[datetime.date(2020,1,1)],[1,2],{1},[9],[[8]])
def shared(x, d):
    out = {}
    for k, v in d.items():
        orig = getattr(x, k)
        out[k] = (v is orig)
        if isinstance(v, list) and v and isinstance(v[0], list):
            out[k+'[0]'] = v[0] is orig[0]
        if isinstance(v, dict):
            for kk, vv in v.items():
                if isinstance(vv, list): out[k+'.'+kk] = vv is orig[kk]
    return out
t('c18 default', lambda: shared(x, x.to_dict()))
t('c18 nocopy', lambda: shared(x, x.to_dict(dialect=NC)))
d_in = {'a':[1],'b':{'a':1},'c':[[1]],'d':[2],'e':[3],'f':{'k':[1]},'g':['2020-01-01'],'h':[1,2],'i':[1],'j':[9],'k':[[8]]}
y = S.from_dict(d_in)
t('c18 decode shared', lambda: {k: (getattr(y,k) is d_in[k]) for k in d_in})
t('c18 decode k[0] shared (Any)', lambda: y.k[0] is d_in['k'][0])

# C10 precedence quick look
class Strat(SerializationStrategy):
    def __init__(self, tag): self.tag = tag
    def serialize(self, v): return f'{self.tag}:{v}'
    def deserialize(self, v): return v
class CallD(Dialect):
    serialization_strategy = {int: Strat('call')}
class CfgD(Dialect):
    serialization_strategy = {int: Strat('cfgdialect')}
MyInt = NewType('MyInt', int)
@dataclass
class Prec(DataClassDictMixin):
    a: int
    b: int = field(metadata=field_options(serialization_strategy=Strat('fieldstrat')))
    c: int = field(metadata=field_options(serialize=lambda v: f'fieldopt:{v}', serialization_strategy=Strat('fieldstrat')))
    d: Annotated[int, 'meta'] = 0
    class Config(BaseConfig):
        code_generation_options = [ADD_DIALECT_SUPPORT]
        dialect = CfgD
        serialization_strategy = {int: Strat('cfg'), Annotated[int, 'meta']: Strat('cfg-annotated')}
t('c10', lambda: (Prec(1,2,3,4).to_dict(), Prec(1,2,3,4).to_dict(dialect=CallD)))
# generic origin key
@dataclass
class Prec2(DataClassDictMixin):
    a: List[int]
    b: List[str]
    class Config(BaseConfig):
        serialization_strategy = {list: Strat('origin'), List[int]: Strat('exact')}
t('c10 origin/exact', lambda: Prec2([1],['x']).to_dict())

# C15 entry points
@dataclass
class E(DataClassDictMixin):
    a: Optional[int] = None
    b: int = field(default=1, metadata={'alias': 'B'})
    class Config(BaseConfig):
        omit_none = True
        serialize_by_alias = True
@dataclass
class EO(DataClassDictMixin):
    f: E
e = E()
t('c15', lambda: (e.to_dict(), BasicEncoder(E).encode(e), encode(e, E), BasicEncoder(List[E]).encode([e])[0], EO(e).to_dict()['f']))
t('c15 dec', lambda: (E.from_dict({'B': 2}), BasicDecoder(E).decode({'B': 2}), decode({'B': 2}, E), BasicDecoder(List[E]).decode([{'B': 2}])[0], EO.from_dict({'f': {'B': 2}}).f))
