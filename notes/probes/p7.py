import datetime, traceback, sys, enum, json
from dataclasses import dataclass, field
from typing import *
from typing_extensions import Annotated
from mashumaro import DataClassDictMixin, field_options, pass_through
from mashumaro.config import BaseConfig, ADD_DIALECT_SUPPORT, TO_DICT_ADD_OMIT_NONE_FLAG, TO_DICT_ADD_BY_ALIAS_FLAG, ADD_SERIALIZATION_CONTEXT
from mashumaro.dialect import Dialect
from mashumaro.types import Discriminator
from mashumaro.codecs.basic import BasicDecoder, BasicEncoder, encode, decode
def t(name, f):
    try:
        print(name, '->', repr(f()))
    except BaseException as e:
        print(name, 'RAISED', type(e).__name__, str(e)[:300])

# C12 histories
@dataclass
class Base(DataClassDictMixin):
    class Config(BaseConfig):
        discriminator = Discriminator(field='type', include_subtypes=True)
@dataclass
class S1(Base):
    type = 'one'
t('c12 first', lambda: Base.from_dict({'type': 'one'}))
@dataclass
class S2(Base):
    type = 'two'
t('c12 late subclass', lambda: Base.from_dict({'type': 'two'}))
@dataclass
class S11(S1):
    type = 'one-one'
t('c12 late grandchild via Base', lambda: Base.from_dict({'type': 'one-one'}))
t('c12 late grandchild via S1', lambda: S1.from_dict({'type': 'one-one'}))
t('c12 S1 asked for two', lambda: S1.from_dict({'type': 'two'}))
t('c12 S1 asked for one (itself, supertypes excluded)', lambda: S1.from_dict({'type': 'one'}))
# annotated
@dataclass
class V(DataClassDictMixin):
    pass
@dataclass
class V1(V):
    kind = 1
@dataclass
class Holder(DataClassDictMixin):
    v: Annotated[V, Discriminator(field='kind', include_subtypes=True)]
t('c12 ann first', lambda: Holder.from_dict({'v': {'kind': 1}}))
@dataclass
class V2(V):
    kind = 2
t('c12 ann late', lambda: Holder.from_dict({'v': {'kind': 2}}))
dec = BasicDecoder(Annotated[V, Discriminator(field='kind', include_subtypes=True)])
t('c12 codec', lambda: dec.decode({'kind': 2}))
@dataclass
class V3(V):
    kind = 3
t('c12 codec late', lambda: dec.decode({'kind': 3}))
# dup tag
@dataclass
class V3b(V):
    kind = 3
t('c12 dup tag (cached V3)', lambda: type(dec.decode({'kind': 3})).__name__)
t('c12 dup tag holder (fresh)', lambda: type(Holder.from_dict({'v': {'kind': 3}}).v).__name__)

# C13 dialect caches + inheritance
class D1(Dialect):
    serialization_strategy = {int: {'serialize': lambda x: x + 1, 'deserialize': lambda x: x - 1}}
class D2(Dialect):
    serialization_strategy = {int: {'serialize': lambda x: x + 2, 'deserialize': lambda x: x - 2}}
@dataclass
class P(DataClassDictMixin):
    a: int
    class Config(BaseConfig):
        code_generation_options = [ADD_DIALECT_SUPPORT]
@dataclass
class C(P):
    b: int = 0
t('c13 parent D1', lambda: P(1).to_dict(dialect=D1))
t('c13 child D1', lambda: C(1, 2).to_dict(dialect=D1))
t('c13 child D2', lambda: C(1, 2).to_dict(dialect=D2))
t('c13 child none', lambda: C(1, 2).to_dict())
t('c13 child from D1', lambda: C.from_dict({'a': 1, 'b': 2}, dialect=D1))
t('c13 parent from D2', lambda: P.from_dict({'a': 1}, dialect=D2))
t('c13 caches', lambda: ('__dialect_dict_packer_cache__' in C.__dict__, C.__dialect_dict_packer_cache__ is P.__dialect_dict_packer_cache__))
