import datetime, traceback, sys, enum, json
from dataclasses import dataclass, field, InitVar
from typing import *
from mashumaro import DataClassDictMixin, field_options, pass_through
from mashumaro.config import BaseConfig, ADD_DIALECT_SUPPORT, TO_DICT_ADD_OMIT_NONE_FLAG, ADD_SERIALIZATION_CONTEXT
from mashumaro.dialect import Dialect
from mashumaro.types import Discriminator
from mashumaro.codecs.basic import BasicDecoder, BasicEncoder
def t(name, f):
    try:
        print(name, '->', repr(f()))
    except BaseException as e:
        print(name, 'RAISED', type(e).__name__, str(e)[:300])

class NT(NamedTuple):
    a: Tuple[int, int] = (0, 0)
    b: int = 5
@dataclass
class WNT(DataClassDictMixin):
    n: NT
t('a namedtuple swallow', lambda: WNT.from_dict({'n': [[1], 7]}))
t('a namedtuple ok', lambda: WNT.from_dict({'n': [[1, 2], 7]}))
t('a namedtuple short', lambda: WNT.from_dict({'n': [[1, 2]]}))
t('a namedtuple long', lambda: WNT.from_dict({'n': [[1, 2], 7, 8, 9]}))

@dataclass
class FE(DataClassDictMixin):
    a: int = 1
    class Config(BaseConfig):
        forbid_extra_keys = True
t('b forbid non-dict list', lambda: FE.from_dict([1]))
t('b forbid non-dict str', lambda: FE.from_dict('abc'))
t('b forbid non-dict None', lambda: FE.from_dict(None))
t('b forbid extra', lambda: FE.from_dict({'a':1,'z':2,'y':3}))
@dataclass
class NE(DataClassDictMixin):
    a: int = 1
t('b plain non-dict list', lambda: NE.from_dict([1]))
t('b plain non-dict None', lambda: NE.from_dict(None))
t('b plain non-dict int', lambda: NE.from_dict(5))

@dataclass
class Base(DataClassDictMixin):
    class Config(BaseConfig):
        discriminator = Discriminator(field='type', include_subtypes=True)
@dataclass
class Sub1(Base):
    type = 'one'
    a: int = 0
t('b discr list', lambda: Base.from_dict([1]))
t('b discr str', lambda: Base.from_dict('abc'))
t('b discr None', lambda: Base.from_dict(None))
t('b discr ok', lambda: Base.from_dict({'type': 'one', 'a': 5}))
t('b discr missing', lambda: Base.from_dict({'a': 5}))
t('b discr unknown', lambda: Base.from_dict({'type': 'zzz'}))
t('b discr unhashable', lambda: Base.from_dict({'type': []}))

@dataclass
class Empty(DataClassDictMixin):
    class Config(BaseConfig):
        forbid_extra_keys = True
t('c empty forbid', lambda: Empty.from_dict({'x': 1}))
t('c empty nondict', lambda: Empty.from_dict(5))

class DD(Dialect):
    serialization_strategy = {int: {'serialize': lambda x: x + 100}}
@dataclass
class Plain:
    q: int
@dataclass
class OuterD(DataClassDictMixin):
    p: Plain
    class Config(BaseConfig):
        code_generation_options = [ADD_DIALECT_SUPPORT]
t('d outer dialect nested plain', lambda: OuterD(Plain(1)).to_dict(dialect=DD))
t('d outer nodialect nested plain', lambda: OuterD(Plain(1)).to_dict())
t('d outer dialect nested plain from', lambda: OuterD.from_dict({'p': {'q': 1}}, dialect=DD))
@dataclass
class MixNo(DataClassDictMixin):
    q: int
@dataclass
class OuterE(DataClassDictMixin):
    p: MixNo
    r: int
    class Config(BaseConfig):
        code_generation_options = [ADD_DIALECT_SUPPORT]
t('d outer dialect nested mixin-not-opted', lambda: OuterE(MixNo(1), 2).to_dict(dialect=DD))

ctxlog = []
@dataclass
class Inner(DataClassDictMixin):
    a: int
    def __pre_serialize__(self, context=None):
        ctxlog.append(('Inner', context)); return self
    class Config(BaseConfig):
        code_generation_options = [ADD_SERIALIZATION_CONTEXT]
@dataclass
class Mid(DataClassDictMixin):
    i: Inner
@dataclass
class Top(DataClassDictMixin):
    m: Mid
    j: List[Inner]
    def __pre_serialize__(self, context=None):
        ctxlog.append(('Top', context)); return self
    class Config(BaseConfig):
        code_generation_options = [ADD_SERIALIZATION_CONTEXT]
t('e ctx', lambda: (Top(Mid(Inner(1)), [Inner(2)]).to_dict(context='CTX'), ctxlog))

@dataclass
class IV(DataClassDictMixin):
    a: int
    iv: InitVar[int] = 3
    def __post_init__(self, iv): self.a += iv
t('f initvar', lambda: IV.from_dict({'a': 1, 'iv': 10}))
@dataclass
class IV2(DataClassDictMixin):
    a: int
    iv: InitVar[int]
    def __post_init__(self, iv): self.a += iv
t('f initvar nodefault', lambda: IV2.from_dict({'a': 1, 'iv': 10}))

t('g lit True for 1', lambda: BasicDecoder(Literal[1]).decode(True))
t('g lit 1.0 for 1', lambda: BasicDecoder(Literal[1]).decode(1.0))
t('g lit 1 for True', lambda: BasicDecoder(Literal[True]).decode(1))
t('g lit [1,True] True', lambda: BasicDecoder(Literal[1, True]).decode(True))
t('g lit enc', lambda: BasicEncoder(Literal[1]).encode(True))
class Col(enum.Enum):
    R = 'r'
def mkh():
    @dataclass
    class TD(DataClassDictMixin):
        t: Tuple[Col, ...] = (Col.R,)
        class Config(BaseConfig):
            omit_default = True
    return TD
t('h omit_default tuple enum', lambda: mkh()().to_dict())
