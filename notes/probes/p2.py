import datetime, traceback, sys
from dataclasses import dataclass, field
from typing import *
from mashumaro import DataClassDictMixin, field_options, pass_through
from mashumaro.config import BaseConfig, ADD_DIALECT_SUPPORT, TO_DICT_ADD_OMIT_NONE_FLAG, ADD_SERIALIZATION_CONTEXT
from mashumaro.dialect import Dialect
from mashumaro.codecs.basic import BasicDecoder, BasicEncoder

def t(name, f):
    try:
        print(name, '->', repr(f()))
    except BaseException as e:
        print(name, 'RAISED', type(e).__name__, str(e)[:300])

t('union [List[int],str] "12"', lambda: BasicDecoder(Union[List[int],str]).decode("12"))
t('union [date,str] "2020-01-01"', lambda: BasicDecoder(Union[datetime.date,str]).decode("2020-01-01"))
t('union [str,date] "2020-01-01"', lambda: BasicDecoder(Union[str,datetime.date]).decode("2020-01-01"))
@dataclass
class DC(DataClassDictMixin):
    x: Union[List[int], str]
t('dc union [List[int],str] "12"', lambda: DC.from_dict({'x':"12"}))
# debug print
@dataclass
class DC2(DataClassDictMixin):
    x: Union[datetime.date, int, None, str]
    class Config(BaseConfig):
        debug=True

# 5 lazy + dialect
sys.setrecursionlimit(200)
class MyD(Dialect):
    serialization_strategy = {int: {'serialize': lambda x: x+1, 'deserialize': lambda x: x-1}}
@dataclass
class L(DataClassDictMixin):
    a: int
    class Config(BaseConfig):
        lazy_compilation = True
        code_generation_options = [ADD_DIALECT_SUPPORT]
t('lazy dialect to_dict', lambda: L(1).to_dict(dialect=MyD))
t('lazy dialect from_dict', lambda: L.from_dict({'a':1}, dialect=MyD))
t('lazy nodialect', lambda: (L(1).to_dict(), L.from_dict({'a':1})))
t('lazy dialect after', lambda: L(1).to_dict(dialect=MyD))
