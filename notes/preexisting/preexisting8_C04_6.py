"""A generic dataclass parameterised by another specialisation of itself
(G[G[bytes]]) can't be encoded or decoded in any format: the specialised
method of the inner G[bytes] is never compiled because pack_dataclass /
unpack_dataclass take `origin_type is builder.cls` for a self reference
without comparing the type arguments."""
from dataclasses import dataclass
from typing import Generic, TypeVar

import mashumaro
from mashumaro.codecs.json import JSONDecoder, JSONEncoder
from mashumaro.codecs.msgpack import MessagePackDecoder, MessagePackEncoder
from mashumaro.mixins.msgpack import DataClassMessagePackMixin

T = TypeVar("T")


@dataclass
class Box(Generic[T]):
    x: T


@dataclass
class Holder(DataClassMessagePackMixin):
    box: Box[Box[bytes]]


value = Holder(Box(Box(b"a")))
violations = 0
for name, fn in (
    ("mixin to_msgpack", lambda: Holder.from_msgpack(value.to_msgpack())),
    (
        "MessagePackEncoder",
        lambda: MessagePackDecoder(Box[Box[bytes]]).decode(
            MessagePackEncoder(Box[Box[bytes]]).encode(value.box)
        ),
    ),
    (
        "JSONEncoder",
        lambda: JSONDecoder(Box[Box[bytes]]).decode(
            JSONEncoder(Box[Box[bytes]]).encode(value.box)
        ),
    ),
):
    try:
        got = fn()
        print(name, "observed", got)
        if got not in (value, value.box):
            violations += 1
    except Exception as e:
        print(name, "expected a round trip, observed", type(e).__name__, e)
        violations += 1
print("VIOLATION" if violations else "no violation", violations)
