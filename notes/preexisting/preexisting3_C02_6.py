"""TypedDict keys are emitted 'all required keys, then all optional keys'
instead of in declaration order (or the order of the value), so key order is
not preserved as soon as a NotRequired key precedes a required one."""
import mashumaro
from typing import TypedDict
from typing_extensions import NotRequired
from mashumaro.codecs.basic import encode


class TD(TypedDict):
    a: NotRequired[int]
    b: int
    c: NotRequired[int]
    d: int


value = {"a": 1, "b": 2, "c": 3, "d": 4}
observed = list(encode(value, TD))
print("observed key order:", observed)
print("expected key order:", list(value), "(declaration order == value order)")
if observed != list(value):
    print("VIOLATION")
