"""Generic TypedDict / NamedTuple: a type variable that occurs INSIDE another
generic (List[T], Optional[T]) is not substituted, so the member is passed
through as Any and non-basic objects leak into the output."""
import json
import mashumaro
from datetime import date
from typing import Generic, List, NamedTuple, Optional, TypedDict, TypeVar
from mashumaro.codecs.basic import encode

T = TypeVar("T")


class GTD(TypedDict, Generic[T]):
    x: T
    y: List[T]
    z: Optional[T]


class GNT(NamedTuple, Generic[T]):
    x: T
    y: List[T]
    z: Optional[T] = None


d = date(2020, 1, 1)
bad = False
for name, observed, expected in (
    (
        "TypedDict ",
        encode({"x": d, "y": [d], "z": d}, GTD[date]),
        {"x": "2020-01-01", "y": ["2020-01-01"], "z": "2020-01-01"},
    ),
    (
        "NamedTuple",
        encode(GNT(d, [d], d), GNT[date]),
        ["2020-01-01", ["2020-01-01"], "2020-01-01"],
    ),
):
    print(name, "observed:", observed)
    print(name, "expected:", expected)
    try:
        json.dumps(observed)
    except TypeError as e:
        print(name, "json.dumps fails:", e)
    bad |= observed != expected
if bad:
    print("VIOLATION")
