"""Classes created with the functional APIs inside a function (namedtuple,
NamedTuple, Enum, TypedDict, make_dataclass, NewType, PEP 695 `type` alias)
have no '<locals>' in their qualified name, so they are not aliased by object
but rendered as `<module>.<Name>` -- an attribute the module does not have."""
import collections
import enum
from dataclasses import dataclass, make_dataclass
from typing import NamedTuple, NewType, TypedDict

import mashumaro
from mashumaro import DataClassDictMixin


def make(kind):
    if kind == "namedtuple":
        return collections.namedtuple("NT", "a b"), [1, 2], 5
    if kind == "NamedTuple":
        return NamedTuple("NT2", [("a", int), ("b", int)]), [1, 2], 5
    if kind == "Enum":
        return enum.Enum("E", "X Y"), 1, 7
    if kind == "TypedDict":
        return TypedDict("TD", {"a": int}), {"a": 1}, {}
    if kind == "make_dataclass":
        return make_dataclass("DC", [("a", int)]), {"a": 1}, {}
    if kind == "NewType":
        return NewType("UserId", int), 1, "x"
    if kind == "type alias":
        ns = {}
        exec("def f():\n    type Alias = int\n    return Alias\n", globals(), ns)
        return ns["f"](), 1, "x"


violated = False
for kind in (
    "namedtuple",
    "NamedTuple",
    "Enum",
    "TypedDict",
    "make_dataclass",
    "NewType",
    "type alias",
):
    typ, good, bad = make(kind)

    @dataclass
    class A(DataClassDictMixin):
        x: typ

    for label, doc, expected in (
        ("valid input", {"x": good}, "an instance of A"),
        ("invalid input", {"x": bad}, "InvalidFieldValue"),
    ):
        try:
            observed = repr(A.from_dict(doc))
        except Exception as e:
            cause = e
            while cause.__context__ is not None:
                cause = cause.__context__
            observed = f"{type(e).__name__}: {e} (root cause {type(cause).__name__})"
            if isinstance(e, (NameError, AttributeError)):
                violated = True
        print(f"{kind}, {label}: expected {expected}; observed {observed}")
if violated:
    print("VIOLATION")
