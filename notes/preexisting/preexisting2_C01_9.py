# Aliases.
#  (a) serialize_by_alias with an alias equal to another member's name is accepted; both
#      members are written under one key, one value is lost and the other is duplicated.
#  (b) with the default Config an alias is used by from_dict only, so a class with any
#      alias does not read its own to_dict output (MissingField).
import mashumaro
from dataclasses import dataclass, field
from mashumaro import DataClassDictMixin, field_options
from mashumaro.config import BaseConfig


@dataclass
class A(DataClassDictMixin):
    a: int = field(metadata=field_options(alias="b"))
    b: int = 0

    class Config(BaseConfig):
        serialize_by_alias = True


@dataclass
class B(DataClassDictMixin):
    a: int = field(metadata=field_options(alias="A"))


hit = False
for obj in (A(1, 2), B(1)):
    try:
        wire = obj.to_dict()
        got = type(obj).from_dict(wire)
    except Exception as e:
        got = f"{type(e).__name__}: {e}"
    bad = got != obj
    hit |= bad
    print(f"wire {wire!r}: observed {got!r}, expected {obj!r}{'  <-- VIOLATION' if bad else ''}")
print("VIOLATION" if hit else "not reproduced")
