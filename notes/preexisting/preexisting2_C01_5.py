# Mapping keys of a hashable composite type (tuple, frozenset, NamedTuple, frozen
# dataclass) are accepted when the class is built, but the packed key is a list / dict,
# so to_dict / encode raises TypeError: unhashable type for every non-empty value.
import mashumaro
from dataclasses import dataclass
from typing import Dict, FrozenSet, NamedTuple, Tuple
from mashumaro import DataClassDictMixin
from mashumaro.codecs.basic import decode, encode


class NT(NamedTuple):
    a: int
    b: int


@dataclass(frozen=True)
class K(DataClassDictMixin):
    a: int


hit = False
for S, v in (
    (Dict[Tuple[int, int], str], {(1, 2): "a"}),
    (Dict[FrozenSet[int], str], {frozenset({1}): "a"}),
    (Dict[NT, str], {NT(1, 2): "a"}),
    (Dict[K, str], {K(1): "a"}),
):
    try:
        got = decode(encode(v, S), S)
    except Exception as e:
        got = f"{type(e).__name__}: {e}"
    bad = got != v
    hit |= bad
    print(f"{S}: observed {got!r}, expected {v!r}{'  <-- VIOLATION' if bad else ''}")
print("VIOLATION" if hit else "not reproduced")
