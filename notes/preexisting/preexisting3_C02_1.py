"""A recursive union (PEP 695 alias) that follows ANOTHER union inside the same
field is packed with the wrong union's packer: FieldContext.packer remembers
only the first union of the field and the recursion reuses it."""
import mashumaro
from dataclasses import dataclass
from datetime import timedelta
from typing import Tuple, Union
from uuid import UUID
from mashumaro import DataClassDictMixin

type Rec = timedelta | list[Rec]


@dataclass
class Alone(DataClassDictMixin):
    f: Rec


@dataclass
class WithSibling(DataClassDictMixin):
    f: Tuple[Union[int, UUID], Rec]


value = [timedelta(days=1), [timedelta(days=2)]]
expected = [86400.0, [172800.0]]
print("alone    :", Alone(value).to_dict()["f"], "expected", expected)
try:
    observed = WithSibling((1, value)).to_dict()["f"][1]
except Exception as e:
    observed = f"{type(e).__name__}: {e}"
print("observed :", observed)
print("expected :", expected)
if observed != expected:
    print("VIOLATION")
