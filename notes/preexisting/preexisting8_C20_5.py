"""A field of a third-party type that is serializable only through its
field-level option (metadata serialization_strategy / serialize) and that has
a default value makes build_json_schema crash with UnserializableField:
_default() re-declares the field in a throw-away class WITHOUT the field's
metadata.  (With default_factory, or with the strategy in Config, it works.)
"""
from dataclasses import dataclass, field

import mashumaro  # noqa: F401
from mashumaro import DataClassDictMixin
from mashumaro.jsonschema import build_json_schema
from mashumaro.types import SerializationStrategy


class Money:
    def __init__(self, cents=0):
        self.cents = cents


class MoneyStrategy(SerializationStrategy):
    def serialize(self, value: Money) -> int:
        return value.cents

    def deserialize(self, value: int) -> Money:
        return Money(value)


ZERO = Money(0)


@dataclass
class WithStrategy(DataClassDictMixin):
    price: Money = field(
        default=ZERO, metadata={"serialization_strategy": MoneyStrategy()}
    )


@dataclass
class WithFunctions(DataClassDictMixin):
    price: Money = field(
        default=ZERO,
        metadata={"serialize": lambda m: m.cents, "deserialize": Money},
    )


violated = False
for cls in (WithStrategy, WithFunctions):
    print(cls.__name__, "to_dict works:", cls().to_dict())
    try:
        print(cls.__name__, "->", build_json_schema(cls).to_dict())
    except Exception as e:
        violated = True
        print(
            f"{cls.__name__}: observed {type(e).__name__}: {e}; "
            "expected a schema with property 'price'"
        )
print("VIOLATION" if violated else "ok")
