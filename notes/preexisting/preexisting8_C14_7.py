"""Two plain dataclasses that refer to each other, used as a field of a mixin
class.  When every annotation is resolvable at definition time (eager) the
on-demand compilation of the nested classes recurses for ever
(Item -> Owner -> Item -> ...) and the class definition dies with
RecursionError; with lazy_compilation the first call dies the same way.  The
very same family works when compilation happens to be postponed by a forward
reference (the stub that is installed first breaks the cycle)."""
import sys
import types
import mashumaro

COMMON = """
from dataclasses import dataclass, field
from typing import Optional, List
from mashumaro import DataClassDictMixin
from mashumaro.config import BaseConfig
"""
OWNER = """
@dataclass
class Owner:
    items: List["Item"] = field(default_factory=list)
"""
ITEM = """
@dataclass
class Item:
    owner: Optional["Owner"] = None
"""
MIX = """
@dataclass
class Mix(DataClassDictMixin):
    item: Item
    class Config(BaseConfig):
        lazy_compilation = {lazy}
"""
_n = [0]


def run(src):
    _n[0] += 1
    mod = types.ModuleType(f"fam{_n[0]}")
    sys.modules[mod.__name__] = mod
    try:
        exec(src, mod.__dict__)
    except RecursionError:
        return "RecursionError while the classes are being defined"
    try:
        obj = mod.Mix.from_dict({"item": {"owner": {"items": [{}]}}})
        return repr((obj, obj.to_dict()))
    except RecursionError:
        return "RecursionError in the first call"


postponed = run(COMMON + ITEM + MIX.format(lazy=False) + OWNER)
eager = run(COMMON + OWNER + ITEM + MIX.format(lazy=False))
lazy = run(COMMON + OWNER + ITEM + MIX.format(lazy=True))
print("postponed (Mix defined before Owner exists):", postponed)
print("eager     (all classes defined before Mix) :", eager)
print("lazy      (same order, lazy_compilation)   :", lazy)
print("expected: the same result in all three modes, no recursion")
if not (postponed == eager == lazy):
    print("VIOLATION")
