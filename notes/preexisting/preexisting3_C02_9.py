"""re.Pattern / typing.Pattern is rendered by .pattern, which is BYTES for a
bytes pattern (re.Pattern[bytes] is accepted): a non-basic object leaks and
json.dumps fails."""
import json
import re
import mashumaro
from mashumaro.codecs.basic import encode

observed = encode(re.compile(b"a+"), re.Pattern[bytes])
print("observed:", repr(observed))
print("expected: a str (e.g. base64 like bytes, or 'a+')")
try:
    json.dumps(observed)
except TypeError as e:
    print("json.dumps fails:", e)
if not isinstance(observed, str):
    print("VIOLATION")
