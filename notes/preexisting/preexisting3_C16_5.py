"""A Literal value that contains the text "<locals>" makes the rendered type
name look like the name of a local class (is_local_type_name is a substring
test on the whole rendered name), so the type is bound in the generated
module under clean_id(name) with globals.setdefault().  clean_id maps every
non-identifier character to "_", so two different Literal types collide and
the second one is silently bound to the first: the generated code refers to
the wrong type (visible in the field_type of the exceptions it raises)."""
from dataclasses import dataclass
from typing import Literal

import mashumaro
from mashumaro import DataClassDictMixin
from mashumaro.exceptions import MissingField


@dataclass
class A(DataClassDictMixin):
    a: Literal["<locals>.x"]
    b: Literal["<locals>-x"]


try:
    A.from_dict({"a": "<locals>.x"})
    observed = "no error"
except MissingField as e:
    observed = e.field_type
expected = Literal["<locals>-x"]
print(f"field_type of missing field b: observed {observed!r}, expected {expected!r}")
print("VIOLATION" if observed != expected else "ok")
