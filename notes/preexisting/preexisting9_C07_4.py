"""An undecorated subclass of a dataclass that annotates an attribute: the
attribute is not a dataclass field and not a constructor parameter, but
from_dict reads its key and passes it to the constructor (TypeError), and
to_dict emits it."""
from dataclasses import dataclass
from datetime import date
from typing import Optional

import mashumaro
from mashumaro import DataClassDictMixin


@dataclass
class C(DataClassDictMixin):
    a: int = 1


class Sub(C):  # deliberately not a dataclass
    extra: int = 0


violation = False
try:
    got = Sub.from_dict({"a": 2, "extra": 5})
    print("observed", got)
except TypeError as e:
    print("observed TypeError:", e)
    violation = True
print("expected", Sub(a=2), "('extra' is not a constructor parameter)")
print("to_dict observed", Sub().to_dict(), "expected", {"a": 1})
if Sub().to_dict() != {"a": 1}:
    violation = True


# the same mismatch silently drops an explicit null: the undecorated subclass
# re-annotates an inherited nullable field with a None class attribute; the
# builder takes None for the default and skips the key, the (inherited)
# constructor default 5 is used instead
@dataclass
class D(DataClassDictMixin):
    a: Optional[int] = 5
    b: Optional[date] = date(2020, 1, 1)


class SubD(D):  # not a dataclass
    a: Optional[int] = None
    b: Optional[date] = None


got = SubD.from_dict({"a": None, "b": None})
print("explicit null: observed", got, "expected", SubD(a=None, b=None))
if got != SubD(a=None, b=None):
    violation = True
print("VIOLATION" if violation else "no violation")
