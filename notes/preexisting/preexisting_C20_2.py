# build_json_schema crashes on LiteralString / Final[...] fields (both accepted by the serializers)
from dataclasses import dataclass
from typing import Final
from typing_extensions import LiteralString
import mashumaro
from mashumaro import DataClassDictMixin
from mashumaro.jsonschema import build_json_schema

@dataclass
class A(DataClassDictMixin):
    s: LiteralString = "x"

@dataclass
class B(DataClassDictMixin):
    n: Final[int] = 1

print("serializers:", A("q").to_dict(), A.from_dict({"s": "q"}), B(2).to_dict(), B.from_dict({"n": 2}))
for cls in (A, B):
    try:
        print("observed:", cls.__name__, build_json_schema(cls).to_dict())
    except Exception as e:
        print("observed:", cls.__name__, type(e).__name__, e)
print("expected: {'type': 'string'} for LiteralString and {'type': 'integer'} for Final[int] (no exception)")
