# Config-based discriminator (by field): a non-mapping argument escapes as a
# raw TypeError from `value['kind']` instead of the documented ValueError.
from dataclasses import dataclass
import mashumaro
from mashumaro import DataClassDictMixin
from mashumaro.config import BaseConfig
from mashumaro.types import Discriminator

@dataclass
class Shape(DataClassDictMixin):
    class Config(BaseConfig):
        discriminator = Discriminator(field="kind", include_subtypes=True)

@dataclass
class Circle(Shape):
    radius: int = 0
    kind: str = "circle"

documented = ("ValueError", "MissingField", "InvalidFieldValue", "ExtraKeysError",
              "MissingDiscriminatorError", "SuitableVariantNotFoundError")
bad = False
for arg in ([1], None, "kind", 5):
    try:
        r = Shape.from_dict(arg)
        print(f"from_dict({arg!r}) observed: returned {r!r}")
    except Exception as e:
        ok = type(e).__name__ in documented
        print(f"from_dict({arg!r}) observed: {type(e).__name__}: {e}; expected: ValueError (non-mapping argument)")
        bad |= not ok
if bad:
    print("VIOLATION")
