# keys the serializer drops stay 'required': serialize="omit", Config.omit_none, Config.omit_default
import sys; sys.path.insert(0, "/tmp")
import mashumaro
from dataclasses import dataclass, field
from typing import Optional
from mashumaro import DataClassDictMixin
from mashumaro.config import BaseConfig
from preexisting_C06_common import report
@dataclass
class Om(DataClassDictMixin):
    x: int = field(metadata={"serialize": "omit"})
report('metadata serialize="omit"', Om, Om(1))
@dataclass
class On(DataClassDictMixin):
    x: Optional[int]
    class Config(BaseConfig):
        omit_none = True
report("Config.omit_none with a required Optional field", On, On(None))
