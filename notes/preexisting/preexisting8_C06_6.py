"""the return type of a plain (non-annotated) serialization method is looked up in the strategies again

Pre-existing defect of the unmodified library against the property
"the generated JSON Schema accepts everything the serializer produces".
Standalone: needs only mashumaro. Prints VIOLATION when it reproduces.
"""
import json
import warnings
from dataclasses import dataclass, field
from datetime import date, datetime, timedelta, timezone
from typing import *

import mashumaro
from mashumaro import DataClassDictMixin
from mashumaro.config import BaseConfig
from mashumaro.jsonschema import DRAFT_2020_12, OPEN_API_3_1, build_json_schema

# ---- a tiny Draft 2020-12 subset validator (no third-party packages) ----
import re
def _type_ok(t, v):
    if t == "null": return v is None
    if t == "boolean": return isinstance(v, bool)
    if t == "integer": return (isinstance(v, int) and not isinstance(v, bool)) or (isinstance(v, float) and v.is_integer())
    if t == "number": return isinstance(v, (int, float)) and not isinstance(v, bool)
    if t == "string": return isinstance(v, str)
    if t == "array": return isinstance(v, list)
    if t == "object": return isinstance(v, dict)
    raise ValueError(t)
def _eq(a, b):
    if isinstance(a, bool) or isinstance(b, bool):
        return isinstance(a, bool) and isinstance(b, bool) and a == b
    if isinstance(a, list) and isinstance(b, list):
        return len(a) == len(b) and all(_eq(x, y) for x, y in zip(a, b))
    if isinstance(a, dict) and isinstance(b, dict):
        return a.keys() == b.keys() and all(_eq(a[k], b[k]) for k in a)
    return type(a) in (int, float) and type(b) in (int, float) and a == b or (type(a) == type(b) and a == b)
def errors(schema, v, root=None, path="$"):
    """tiny Draft 2020-12 subset validator; returns list of error strings"""
    root = schema if root is None else root
    if schema is True or schema == {}: return []
    if schema is False: return [f"{path}: false schema"]
    errs = []
    if "$ref" in schema:
        ref = schema["$ref"]
        if not ref.startswith("#/"): return [f"{path}: unresolvable $ref {ref}"]
        node = root
        try:
            for part in ref[2:].split("/"):
                node = node[part.replace("~1", "/").replace("~0", "~")]
        except (KeyError, TypeError):
            return [f"{path}: unresolvable $ref {ref}"]
        errs += errors(node, v, root, path)
    t = schema.get("type")
    if t is not None and not _type_ok(t, v): errs.append(f"{path}: {v!r} is not of type {t}")
    if "enum" in schema and not any(_eq(v, e) for e in schema["enum"]): errs.append(f"{path}: {v!r} not in enum {schema['enum']}")
    if "const" in schema and not _eq(v, schema["const"]): errs.append(f"{path}: {v!r} != const {schema['const']!r}")
    if "anyOf" in schema and not any(not errors(s, v, root, path) for s in schema["anyOf"]): errs.append(f"{path}: {v!r} matches none of anyOf")
    if isinstance(v, str):
        if "pattern" in schema and not re.search(schema["pattern"], v): errs.append(f"{path}: {v!r} does not match {schema['pattern']}")
        if "minLength" in schema and len(v) < schema["minLength"]: errs.append(f"{path}: too short")
        if "maxLength" in schema and len(v) > schema["maxLength"]: errs.append(f"{path}: too long")
    if isinstance(v, (int, float)) and not isinstance(v, bool):
        if "minimum" in schema and v < schema["minimum"]: errs.append(f"{path}: < minimum")
        if "maximum" in schema and v > schema["maximum"]: errs.append(f"{path}: > maximum")
    if isinstance(v, list):
        if "minItems" in schema and len(v) < schema["minItems"]: errs.append(f"{path}: {len(v)} items < minItems {schema['minItems']}")
        if "maxItems" in schema and len(v) > schema["maxItems"]: errs.append(f"{path}: {len(v)} items > maxItems {schema['maxItems']}")
        pre = schema.get("prefixItems", [])
        for i, (s, x) in enumerate(zip(pre, v)): errs += errors(s, x, root, f"{path}[{i}]")
        if "items" in schema:
            for i, x in enumerate(v[len(pre):], len(pre)): errs += errors(schema["items"], x, root, f"{path}[{i}]")
        if schema.get("uniqueItems") and any(_eq(a, b) for i, a in enumerate(v) for b in v[i + 1:]): errs.append(f"{path}: not unique")
    if isinstance(v, dict):
        for r in schema.get("required", []):
            if r not in v: errs.append(f"{path}: required property {r!r} missing")
        props = schema.get("properties", {})
        for k, x in v.items():
            if k in props: errs += errors(props[k], x, root, f"{path}.{k}")
            elif "additionalProperties" in schema:
                ap = schema["additionalProperties"]
                if ap is False: errs.append(f"{path}: additional property {k!r}")
                elif ap is not True: errs += errors(ap, x, root, f"{path}.{k}")
            if "propertyNames" in schema: errs += errors(schema["propertyNames"], k, root, f"{path}<key {k!r}>")
        if "minProperties" in schema and len(v) < schema["minProperties"]: errs.append(f"{path}: minProperties")
        if "maxProperties" in schema and len(v) > schema["maxProperties"]: errs.append(f"{path}: maxProperties")
    return errs


def check(label, cls, obj):
    """serialize obj with default options, validate the JSON document against
    build_json_schema(cls) for both dialects x all_refs in (False, True)"""
    document = json.loads(json.dumps(obj.to_dict()))
    bad = []
    for dialect in (DRAFT_2020_12, OPEN_API_3_1):
        for all_refs in (False, True):
            with warnings.catch_warnings():
                warnings.simplefilter("ignore")
                schema = build_json_schema(cls, dialect=dialect, all_refs=all_refs).to_dict()
            schema = json.loads(json.dumps(schema))
            if "$defs" in schema:  # where OpenAPI references point to
                schema["components"] = {"schemas": schema["$defs"]}
            errs = errors(schema, document)
            if errs:
                bad.append((type(dialect).__name__, all_refs, errs))
    print(label)
    print(f"  serialized document : {document}")
    with warnings.catch_warnings():
        warnings.simplefilter("ignore")
        print(f"  schema (draft, inline): {build_json_schema(cls).to_dict()}")
    print("  expected            : the document validates against the schema")
    if bad:
        print(f"  observed            : rejected in {len(bad)}/4 configurations, e.g. {bad[0][2]}")
        print("  VIOLATION")
    else:
        print("  observed            : accepted (not reproduced)")
    return bool(bad)

print("mashumaro from", mashumaro.__file__)

from mashumaro.types import SerializationStrategy

def stamp(value: datetime) -> str:
    return value.isoformat()

def length(value: str) -> int:
    return len(value)

@dataclass
class A(DataClassDictMixin):
    when: datetime
    name: str

    class Config(BaseConfig):
        serialization_strategy = {
            datetime: {"serialize": stamp},
            str: {"serialize": length},
        }

# serializer: when -> stamp(when) (a str, NOT passed through length()),
# schema: datetime -> str -> int
check("strategies for datetime (-> str) and str (-> int)", A, A(datetime(2020, 1, 1), "abc"))

class Parts(SerializationStrategy):
    def serialize(self, value) -> List[int]:
        return [value.year, value.month]
    def deserialize(self, value):
        return date(value[0], value[1], 1)

@dataclass
class B(DataClassDictMixin):
    month: date
    n: int = 0

    class Config(BaseConfig):
        serialization_strategy = {date: Parts(), int: {"serialize": str}}

check("strategy date -> List[int] next to int -> str", B, B(date(2020, 5, 1), 7))
