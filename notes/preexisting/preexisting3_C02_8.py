"""A mapping whose key type is rendered as a list or dict (Tuple, NamedTuple,
FrozenSet, frozen dataclass) compiles fine but every non-empty conforming value
makes to_dict raise TypeError: unhashable type, because the packed key is used
as a dict key."""
import mashumaro
from dataclasses import dataclass
from typing import Dict, FrozenSet, NamedTuple, Tuple
from mashumaro import DataClassDictMixin
from mashumaro.codecs.basic import BasicEncoder


class NT(NamedTuple):
    a: int


@dataclass(frozen=True)
class Frozen(DataClassDictMixin):
    a: int


bad = False
for typ, value in (
    (Dict[Tuple[int, int], int], {(1, 2): 3}),
    (Dict[NT, int], {NT(1): 3}),
    (Dict[FrozenSet[int], int], {frozenset([1]): 3}),
    (Dict[Frozen, int], {Frozen(1): 3}),
):
    encoder = BasicEncoder(typ)  # compiles without complaint
    try:
        print(typ, "observed:", encoder.encode(value))
    except TypeError as e:
        print(typ, "observed: TypeError:", e, "| expected: a dict, or UnserializableField at compile time")
        bad = True
if bad:
    print("VIOLATION")
