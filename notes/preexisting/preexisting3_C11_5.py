"""A nested union / constrained TypeVar whose members are all pass-through
(int | str) yields the packer "value"; the outer union then guards it with
`value.__class__ is <the union object>` which is never true, so a valid
member value is rejected on serialization."""
import datetime
from dataclasses import dataclass
from typing import TypeVar, Union
import mashumaro
from mashumaro import DataClassDictMixin
from mashumaro.codecs import BasicEncoder

type S = int | str
T = TypeVar("T", int, str)
bad = False
for U, v in [
    (Union[S, datetime.date], 1),
    (Union[datetime.date, S], "x"),
    (Union[T, datetime.date], 1),
    (Union[datetime.date, T], "x"),
]:
    try:
        got = BasicEncoder(U).encode(v)
    except Exception as e:
        got = f"raised {type(e).__name__}({e})"
    print("encode", U, repr(v), "->", got, " expected", repr(v))
    bad = bad or got != v


@dataclass
class DC(DataClassDictMixin):
    x: Union[S, datetime.date]


try:
    got = DC(1).to_dict()
except Exception as e:
    got = f"raised {type(e).__name__}"
print("DC(1).to_dict() ->", got, " expected {'x': 1}")
bad = bad or got != {"x": 1}
print("VIOLATION" if bad else "ok")
