"""Same root cause as _1 (get_type_name_identifier registers the annotation
object itself under the alias derived from its *rendered* name), other shapes:
Annotated[LocalClass, ...] and a TypeVar bound to a local class are rendered as
the inner class, so the alias `<module>_<func>__locals__<Class>` is bound to the
Annotated / TypeVar object and the later registration of the real class is
dropped by setdefault."""
import enum
from dataclasses import dataclass
from typing import Generic, Literal, TypeVar

from typing_extensions import Annotated

import mashumaro
from mashumaro import DataClassDictMixin
from mashumaro.types import Discriminator

violated = False


def check(label, make, expected):
    global violated
    try:
        cls, doc = make()
        observed = repr(cls.from_dict(doc))
        fn = cls.__dict__["__mashumaro_from_dict__"].__func__
        bad = {
            n: fn.__globals__[n]
            for n in fn.__code__.co_names
            if "__locals__" in n and not isinstance(fn.__globals__.get(n), type)
        }
        if bad:
            observed += f"  (but alias bound to a non-class: {bad})"
            violated = True
    except Exception as e:
        cause = e
        while cause.__context__ is not None:
            cause = cause.__context__
        observed = f"{type(e).__name__} <- {type(cause).__name__}: {cause}"
        violated = True
    print(f"{label}: expected {expected}; observed {observed}")


def annotated_dataclass():
    @dataclass
    class Item(DataClassDictMixin):
        a: int

    @dataclass
    class H(DataClassDictMixin):
        x: Annotated[Item, "doc"]

    return H, {"x": {"a": 1}}


def annotated_enum():
    class E(enum.Enum):
        X = 1

    @dataclass
    class H(DataClassDictMixin):
        x: Annotated[E, "doc"]

    return H, {"x": 1}


def annotated_discriminator():
    @dataclass
    class Base(DataClassDictMixin):
        pass

    @dataclass
    class V1(Base):
        t: Literal["v1"] = "v1"

    @dataclass
    class H(DataClassDictMixin):
        x: Annotated[Base, Discriminator(field="t", include_subtypes=True)]

    return H, {"x": {"t": "v1"}}


def bound_typevar():
    class E(enum.Enum):
        X = 1

    TB = TypeVar("TB", bound=E)

    @dataclass
    class H(DataClassDictMixin, Generic[TB]):
        x: TB

    return H, {"x": 1}


check("Annotated[local dataclass]", annotated_dataclass, "H(x=Item(a=1))")
check("Annotated[local enum]", annotated_enum, "H(x=<E.X: 1>), alias is E")
check("Annotated[local base, Discriminator]", annotated_discriminator, "H(x=V1(t='v1'))")
check("TypeVar bound to a local enum", bound_typevar, "H(x=<E.X: 1>)")
if violated:
    print("VIOLATION")
