"""to_jsonb(dialect=...) drops the orjson options (Config.orjson_options and the
orjson_options= argument): the dialect branch of the generated to_jsonb calls
``encoder(packer(...))`` without ``option=``."""
from dataclasses import dataclass
from datetime import datetime

import orjson

import mashumaro  # noqa
from mashumaro.config import ADD_DIALECT_SUPPORT, BaseConfig
from mashumaro.dialect import Dialect
from mashumaro.mixins.orjson import DataClassORJSONMixin


class Plain(Dialect):
    pass


@dataclass
class A(DataClassORJSONMixin):
    at: datetime
    m: dict[int, int]

    class Config(BaseConfig):
        code_generation_options = [ADD_DIALECT_SUPPORT]
        orjson_options = orjson.OPT_NON_STR_KEYS | orjson.OPT_NAIVE_UTC


a = A(datetime(2024, 1, 1), {1: 2})
print("no dialect   :", a.to_jsonb())
try:
    print("dialect=Plain:", a.to_jsonb(dialect=Plain))
except Exception as e:
    print("dialect=Plain: raised", type(e).__name__, e, " (expected the same document)")
try:
    print("dialect=Plain, explicit options:",
          a.to_jsonb(dialect=Plain, orjson_options=orjson.OPT_NON_STR_KEYS))
except Exception as e:
    print("dialect=Plain, explicit options: raised", type(e).__name__, e)
