"""A dataclass with an InitVar pseudo-field can not be deserialized: the
generated from_dict skips InitVar members, so the constructor is called without
them and a bare TypeError escapes (not ValueError / MissingField /
InvalidFieldValue ...).  With a defaulted InitVar the value supplied in the
input is silently replaced by the default."""
from dataclasses import InitVar, dataclass, field

import mashumaro
from mashumaro import DataClassDictMixin

DOCUMENTED = (ValueError, LookupError)  # ValueError, MissingField, InvalidFieldValue, ExtraKeysError, ...


@dataclass
class A(DataClassDictMixin):
    x: int
    scale: InitVar[int]
    y: int = field(init=False, default=0)

    def __post_init__(self, scale):
        self.y = self.x * scale


@dataclass
class B(DataClassDictMixin):
    x: int
    scale: InitVar[int] = 1
    y: int = field(init=False, default=0)

    def __post_init__(self, scale):
        self.y = self.x * scale


violation = False
try:
    r = A.from_dict({"x": 2, "scale": 10})
    print("A observed:", r)
except Exception as e:
    print("A observed:", type(e).__name__, e)
    print("A expected: an instance A(x=2, y=20) or one of the documented exceptions")
    if not isinstance(e, DOCUMENTED):
        violation = True

r = B.from_dict({"x": 2, "scale": "garbage"})
print("B observed:", r, "(input 'scale': 'garbage' ignored, default 1 used)")
print("B expected: InvalidFieldValue for 'scale' (or the value being used)")
if r.y == 2:
    violation = True
print("VIOLATION" if violation else "ok")
