"""Tuple with a variable-length Unpack in the middle: too short an input is
accepted and ONE input item is used for two different positions.

Tuple[int, Unpack[Tuple[str, ...]], float] needs at least two items
(value[0] and value[-1]); for a one-item input both indexes hit the same
element, so decode([7]) returns (7, 7.0) instead of failing.
"""
from typing import Tuple, Unpack

import mashumaro
from mashumaro.codecs.basic import decode

t = Tuple[int, Unpack[Tuple[str, ...]], float]
got = decode([7], t)
print("decode([7], Tuple[int, *Tuple[str, ...], float]) ->", got)
print("expected: an error (two items required), like Tuple[int, float] gives")
try:
    decode([7], Tuple[int, float])
except Exception as e:
    print("Tuple[int, float] on [7] ->", type(e).__name__)
t2 = Tuple[int, str, Unpack[Tuple[int, ...]], float]
got2 = decode([1, "2"], t2)
print("decode([1, '2'], Tuple[int, str, *Tuple[int, ...], float]) ->", got2)
if got == (7, 7.0) or got2 == (1, "2", 2.0):
    print("VIOLATION: short input accepted, an item decoded twice")
