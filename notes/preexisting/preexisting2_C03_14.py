"""PEP 563 (from __future__ import annotations) and TypedDict / NamedTuple.

* generic TypedDict: the string annotation 'T' is evaluated to the TypeVar but
  never substituted, so GTD[int] passes every member through unconverted
  (the same class without the __future__ import converts `a`);
* NamedTuple: member annotations are evaluated in the builder's namespace
  rather than the defining module, so `List[int]` raises NameError while the
  decoder is being built, although the same NamedTuple without the __future__
  import works.
"""
from __future__ import annotations

from typing import Generic, List, NamedTuple, TypedDict, TypeVar

import mashumaro
from mashumaro.codecs.basic import decode

T = TypeVar("T")


class TD(TypedDict):  # control
    a: int


class GTD(TypedDict, Generic[T]):
    a: T


class NT(NamedTuple):
    a: int
    b: List[int] = []


print("TD       :", decode({"a": "1"}, TD))
got = decode({"a": "1"}, GTD[int])
print("GTD[int] :", got, " expected {'a': 1}")
bad = got == {"a": "1"}
try:
    print("NT       :", decode(["1", ["2"]], NT))
except Exception as e:
    bad = True
    print("NT       : raised", type(e).__name__, e, " expected NT(a=1, b=[2])")
if bad:
    print("VIOLATION: postponed annotations of TypedDict/NamedTuple members mishandled")
