"""Annotated discriminated union whose variants are plain dataclasses, on a
class with ADD_DIALECT_SUPPORT: if the very first from_dict call passes a
dialect, the variant unpackers are built with that dialect
(CodeBuilder(variant, dialect=_dialect)), which tries to store them in
`variant.__dialect_dict_unpacker_cache__` -- an attribute a plain dataclass
does not have -> AttributeError -> InvalidFieldValue.  After one call without
a dialect the identical call succeeds."""
import sys
import types
import mashumaro

SRC = """
from dataclasses import dataclass
from datetime import date
from typing import Annotated, Literal, Union
from mashumaro import DataClassDictMixin
from mashumaro.config import BaseConfig, ADD_DIALECT_SUPPORT
from mashumaro.dialect import Dialect
from mashumaro.types import Discriminator

class D(Dialect):
    serialization_strategy = {int: {"deserialize": lambda x: int(x) + 1000}}

@dataclass
class A:
    t: Literal["a"] = "a"
    s: str = ""

@dataclass
class B:
    t: Literal["b"] = "b"
    s: str = ""

@dataclass
class Outer(DataClassDictMixin):
    n: int
    v: Annotated[Union[A, B], Discriminator(field="t", include_supertypes=True)]
    class Config(BaseConfig):
        code_generation_options = [ADD_DIALECT_SUPPORT]
"""
_n = [0]


def fresh():
    _n[0] += 1
    mod = types.ModuleType(f"fam{_n[0]}")
    sys.modules[mod.__name__] = mod
    exec(SRC, mod.__dict__)
    return mod


def attempt(f):
    try:
        return repr(f())
    except Exception as e:
        return f"{type(e).__name__}: {e} (caused by {e.__context__!r})"


data = {"n": 1, "v": {"t": "a", "s": "x"}}
m = fresh()
first = attempt(lambda: m.Outer.from_dict(data, dialect=m.D))
m2 = fresh()
m2.Outer.from_dict(data)
second = attempt(lambda: m2.Outer.from_dict(data, dialect=m2.D))
print("from_dict(data, dialect=D) as the first call  :", first)
print("from_dict(data, dialect=D) after a plain call :", second)
print("expected: the same outcome in both histories")
if first != second:
    print("VIOLATION")

# Variant B: the variants are msgpack-mixin classes; the dialect-built variant
# unpacker is cached for the dialect only, the main
# `__mashumaro_from_dict_msgpack__` the generated code calls does not exist.
import msgpack

SRC_B = """
from dataclasses import dataclass
from datetime import date
from typing import Annotated, Literal, Union, Optional
from mashumaro.config import BaseConfig, ADD_DIALECT_SUPPORT
from mashumaro.dialect import Dialect
from mashumaro.types import Discriminator
from mashumaro.mixins.msgpack import DataClassMessagePackMixin

class Ord(Dialect):
    serialization_strategy = {
        date: {"serialize": date.toordinal, "deserialize": date.fromordinal}
    }

class Cfg(BaseConfig):
    code_generation_options = [ADD_DIALECT_SUPPORT]

@dataclass
class A(DataClassMessagePackMixin):
    t: Literal["a"] = "a"
    d: Optional[date] = None
    Config = Cfg

@dataclass
class B(DataClassMessagePackMixin):
    t: Literal["b"] = "b"
    Config = Cfg

@dataclass
class Outer(DataClassMessagePackMixin):
    v: Annotated[Union[A, B], Discriminator(field="t", include_supertypes=True)]
    Config = Cfg
"""
SRC = SRC_B
payload = msgpack.packb({"v": {"t": "a", "d": 737426}})
m = fresh()
first = attempt(lambda: m.Outer.from_msgpack(payload, dialect=m.Ord))
m2 = fresh()
m2.Outer.from_msgpack(msgpack.packb({"v": {"t": "a"}}))
second = attempt(lambda: m2.Outer.from_msgpack(payload, dialect=m2.Ord))
print("[mixin variants] from_msgpack(.., dialect=Ord) first call    :", first)
print("[mixin variants] from_msgpack(.., dialect=Ord) after a plain :", second)
if first != second:
    print("VIOLATION")
