"""Two members that end up with the same property name (an alias equal to
another member's name or alias -- accepted by mashumaro without complaint)
give a schema whose "required" array has a duplicate entry.  The Draft
2020-12 metaschema demands unique items there
(validation vocabulary: "required": {"$ref": "#/$defs/stringArray"},
 stringArray = {"type": "array", "items": {"type": "string"},
                "uniqueItems": true}),
so the output is not metaschema-valid; one of the two properties is also
silently lost.
"""
from dataclasses import dataclass, field

import mashumaro  # noqa: F401
from mashumaro import DataClassDictMixin
from mashumaro.config import BaseConfig
from mashumaro.jsonschema import build_json_schema


@dataclass
class ViaConfig(DataClassDictMixin):
    a: int
    b: str

    class Config(BaseConfig):
        aliases = {"a": "b"}


@dataclass
class ViaMetadata(DataClassDictMixin):
    first: int = field(metadata={"alias": "id"})
    second: str = field(metadata={"alias": "id"})


violated = False
for cls in (ViaConfig, ViaMetadata):
    d = build_json_schema(cls).to_dict()
    print(cls.__name__, "->", d)
    required = d.get("required", [])
    if len(required) != len(set(required)):
        violated = True
        print(
            f"  observed required={required} (duplicates, metaschema "
            "'uniqueItems' violated); expected unique names or an error"
        )
print("VIOLATION" if violated else "ok")
