"""The identity alias of a dataclass is clean_id(type_name(cls)): the classes
api.v1.User and api_v1.User both get `api_v1_User`, the first one wins."""
import sys
import types
import typing
from dataclasses import dataclass

import mashumaro
from mashumaro import DataClassDictMixin
from mashumaro.codecs import BasicDecoder, BasicEncoder

print("mashumaro from", mashumaro.__file__)
SRC = "from dataclasses import dataclass\n@dataclass\nclass User:\n    %s: int\n"


def make_module(name, src):
    m = types.ModuleType(name)
    sys.modules[name] = m
    if "." in name:
        parent, child = name.rsplit(".", 1)
        setattr(sys.modules[parent], child, m)
    exec(src, m.__dict__)
    return m


make_module("api", "")
v1 = make_module("api.v1", SRC % "id")
v2 = make_module("api_v1", SRC % "name")


@dataclass
class E(DataClassDictMixin):
    a: v1.User
    b: v2.User


violations = 0
for label, fn, expected in (
    ("mixin from_dict", lambda: E.from_dict({"a": {"id": 1}, "b": {"name": 2}}), repr(E(v1.User(1), v2.User(2)))),
    ("BasicDecoder", lambda: BasicDecoder(typing.Tuple[v1.User, v2.User]).decode([{"id": 1}, {"name": 2}]), repr((v1.User(1), v2.User(2)))),
    ("BasicEncoder", lambda: BasicEncoder(typing.Tuple[v1.User, v2.User]).encode((v1.User(1), v2.User(2))), repr([{"id": 1}, {"name": 2}])),
):
    try:
        observed = repr(fn())
    except Exception as e:
        observed = f"{type(e).__name__}: {e}"
    if observed != expected:
        violations += 1
    print(f"{label}: observed {observed}; expected {expected}")
if violations:
    print("VIOLATION")
