# (low severity, over-copying) Under no_copy_collections a listed collection is passed by
# reference only when the generated element expression is literally "value".  Optional
# scalars and Literal members produce another expression ("value if value is not None
# else None", a helper call) although nothing is converted, so List[Optional[int]],
# Dict[str, Optional[int]] and List[Literal[...]] are copied while List[int],
# List[Union[int, str]] and List[NewType(int)] are passed by reference.
from typing import Dict, List, Literal, NewType, Optional, Union

import mashumaro
from mashumaro.codecs.basic import BasicEncoder
from mashumaro.dialect import Dialect


class NoCopy(Dialect):
    no_copy_collections = (list, dict)


I = NewType("I", int)
hit = False
for t, v, conversion_free in [
    (List[int], [1], True),
    (List[Union[int, str]], [1, "a"], True),
    (List[I], [1], True),
    (List[Optional[int]], [1, None], True),
    (Dict[str, Optional[int]], {"a": None}, True),
    (List[Literal[1, 2]], [1], True),
]:
    r = BasicEncoder(t, default_dialect=NoCopy).encode(v)
    by_ref = r is v
    print(f"{str(t):45} passed by reference: {by_ref}   (expected {conversion_free})")
    hit |= by_ref != conversion_free
if hit:
    print("VIOLATION")
