# A field typed with a parametrized generic dataclass whose base re-parametrizes
# its own base (GB(GA[List[S]], Generic[S])): the argument of GB[...] does not reach
# the member declared in GA, so S stays a free type variable (= Any) there:
# no conversion and no copy at that position.
from dataclasses import dataclass
from datetime import date
from typing import Dict, Generic, List, TypeVar

import mashumaro
from mashumaro import DataClassDictMixin

T = TypeVar("T")
S = TypeVar("S")


@dataclass
class GA(Generic[T], DataClassDictMixin):
    x: T


@dataclass
class GB(GA[List[S]], Generic[S]):
    y: S


@dataclass
class W(DataClassDictMixin):
    g: GB[List[int]]  # g.x : List[List[int]], g.y : List[int]


@dataclass
class WD(DataClassDictMixin):
    g: GB[date]  # g.x : List[date], g.y : date


w = W(GB(x=[[1, 2]], y=[3]))
d = w.to_dict()
shared_enc = d["g"]["x"][0] is w.g.x[0]
print("encode: result['g']['x'][0] is obj.g.x[0] ->", shared_enc, "(expected False)")
d["g"]["x"][0].append(99)
print("object after mutating the result:", w, "(expected x=[[1, 2]])")

src = {"g": {"x": [[1, 2]], "y": [3]}}
back = W.from_dict(src)
shared_dec = back.g.x[0] is src["g"]["x"][0]
print("decode: obj.g.x[0] is input['g']['x'][0] ->", shared_dec, "(expected False)")

wd = WD(GB(x=[date(2020, 1, 1)], y=date(2020, 1, 2)))
print("conversion:", wd.to_dict(), "(expected x=['2020-01-01'])")

if shared_enc or shared_dec:
    print("VIOLATION")
