"""A field with a Discriminator whose variants are plain dataclasses (no
mashumaro mixin) in a class with ADD_DIALECT_SUPPORT: from_dict(dialect=D) as
the first call fails (AttributeError wrapped in InvalidFieldValue), the same
call after one dialect-less from_dict -- on this class or on ANY other class
that uses the same variants -- succeeds.  The variant's unpacker is compiled
from the dialect-specific builder with dialect=D, so the variant's main
from_dict method is never created (and, without a Config on the variant, its
dialect cache does not exist either)."""
from dataclasses import dataclass
from datetime import date
from typing import Annotated

import mashumaro
from mashumaro import DataClassDictMixin
from mashumaro.config import ADD_DIALECT_SUPPORT, BaseConfig
from mashumaro.dialect import Dialect
from mashumaro.types import Discriminator


class OrdinalDialect(Dialect):
    serialization_strategy = {
        date: {"serialize": date.toordinal, "deserialize": date.fromordinal}
    }


class Cfg(BaseConfig):
    code_generation_options = [ADD_DIALECT_SUPPORT]


class CfgD(Cfg):
    dialect = OrdinalDialect


# three identical, independent families: F (fresh, default dialect D), A, B
@dataclass
class BaseF:
    pass


@dataclass
class VF(BaseF):
    kind: str = "v1"
    d: date = date(2020, 1, 1)


@dataclass
class OuterF(DataClassDictMixin):
    x: Annotated[BaseF, Discriminator(field="kind", include_subtypes=True)]
    y: date = date(2020, 1, 3)
    Config = CfgD


@dataclass
class BaseA:
    pass


@dataclass
class VA(BaseA):
    kind: str = "v1"
    d: date = date(2020, 1, 1)


@dataclass
class OuterA(DataClassDictMixin):
    x: Annotated[BaseA, Discriminator(field="kind", include_subtypes=True)]
    y: date = date(2020, 1, 3)
    Config = Cfg


@dataclass
class BaseB:
    pass


@dataclass
class VB(BaseB):
    kind: str = "v1"
    d: date = date(2020, 1, 1)


@dataclass
class OuterB(DataClassDictMixin):
    x: Annotated[BaseB, Discriminator(field="kind", include_subtypes=True)]
    y: date = date(2020, 1, 3)
    Config = Cfg


# plain variants have no dialect support: D applies to Outer's own fields only
doc = {"x": {"kind": "v1", "d": "2020-01-01"}, "y": 737427}
plain_doc = {"x": {"kind": "v1", "d": "2020-01-01"}, "y": "2020-01-03"}

expected = OuterF.from_dict(doc)
print("expected (class whose default dialect is D) :", expected)

violation = False
try:
    got = OuterA.from_dict(doc, dialect=OrdinalDialect)
except Exception as e:
    got = f"{e!r} <- {e.__context__!r}"
    violation = True
print("observed A: from_dict(dialect=D) first      :", got)

OuterB.from_dict(plain_doc)
try:
    got = OuterB.from_dict(doc, dialect=OrdinalDialect)
except Exception as e:
    got = f"{e!r} <- {e.__context__!r}"
print("observed B: from_dict() then dialect=D      :", got)

if violation:
    print(
        "VIOLATION: from_dict(dialect=D) fails as first call but succeeds "
        "after a dialect-less call"
    )
else:
    print("ok")
