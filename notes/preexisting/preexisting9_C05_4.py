"""Fixed-length tuples and named tuples take the items they need by index and
never look at the length of the input: surplus items are dropped silently (and
a mapping keyed by 0..n-1 is accepted as a sequence).  The result does not
correspond to the input and no InvalidFieldValue is raised."""
from dataclasses import dataclass
from typing import NamedTuple, Tuple

import mashumaro
from mashumaro import DataClassDictMixin
from mashumaro.exceptions import InvalidFieldValue


class Point(NamedTuple):
    a: int
    b: int


class PointD(NamedTuple):
    a: int
    b: int = 7


@dataclass
class A(DataClassDictMixin):
    t: Tuple[int, str] = (0, "")
    e: Tuple[()] = ()
    p: Point = Point(0, 0)
    q: PointD = PointD(0)


violation = False
for d in (
    {"t": [1, "a", "surplus", "more"]},
    {"t": {0: 1, 1: "a", "junk": 5}},
    {"e": [1, 2, 3]},
    {"p": [1, 2, 3, 4]},
    {"q": [1, 2, 3, 4]},
):
    try:
        out = A.from_dict(d)
    except InvalidFieldValue as e:
        out = e
    print("input", d, "observed:", repr(out), "| expected: InvalidFieldValue")
    if not isinstance(out, InvalidFieldValue):
        violation = True
print("VIOLATION" if violation else "ok")
