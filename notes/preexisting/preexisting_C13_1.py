"""Per-call dialect on the orjson mixin drops the encoder keyword (orjson_options).

to_jsonb(dialect=D) must equal to_jsonb() of an otherwise identical class whose
default dialect is D; but the dialect branch calls `encoder(packer(...))` without
`option=orjson_options`, so Config.orjson_options / the orjson_options argument
are silently ignored as soon as a dialect is passed.
"""
from dataclasses import dataclass
from typing import Dict

import orjson

import mashumaro
from mashumaro.config import ADD_DIALECT_SUPPORT, BaseConfig
from mashumaro.dialect import Dialect
from mashumaro.mixins.orjson import DataClassORJSONMixin


class D(Dialect):
    serialization_strategy = {int: {"serialize": lambda x: x + 1}}


def make(default_dialect):
    @dataclass
    class C(DataClassORJSONMixin):
        m: Dict[str, int]

        class Config(BaseConfig):
            code_generation_options = [ADD_DIALECT_SUPPORT]
            orjson_options = orjson.OPT_SORT_KEYS
            dialect = default_dialect

    return C


per_call = make(None)({"b": 1, "a": 2}).to_jsonb(dialect=D)
as_default = make(D)({"b": 1, "a": 2}).to_jsonb()
explicit = make(None)({"b": 1, "a": 2}).to_jsonb(
    dialect=D, orjson_options=orjson.OPT_SORT_KEYS
)
print("observed per-call          :", per_call)
print("observed per-call+explicit :", explicit)
print("expected (default dialect) :", as_default)
print("VIOLATION" if per_call != as_default or explicit != as_default else "ok")
