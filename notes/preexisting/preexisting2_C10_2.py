"""A field-level *engine name* (serialize="as_dict" / deserialize="as_list",
"pendulum", ...) switches off every lower-level registration for the types
nested in that field, although the engine says nothing about them.

get_overridden_(de)serialization_method returns the field option string for
every nested ValueSpec of the field; a string is not callable, so the nested
type falls through to the built-in packer and Config / dialect registrations
for it are never consulted.
"""
from dataclasses import dataclass, field
from typing import NamedTuple

import mashumaro
from mashumaro import DataClassDictMixin
from mashumaro.config import BaseConfig
from mashumaro.dialect import Dialect


class Point(NamedTuple):
    a: str


class D(Dialect):
    serialization_strategy = {
        int: {
            "serialize": lambda v: f"dialect:{v}",
            "deserialize": lambda v: f"dialect:{v}",
        }
    }


@dataclass
class C(DataClassDictMixin):
    plain: tuple[Point, int]
    engine: tuple[Point, int] = field(
        metadata={"serialize": "as_dict", "deserialize": "as_dict"}
    )

    class Config(BaseConfig):
        dialect = D


obj = C((Point("p"), 1), (Point("p"), 1))
ser = obj.to_dict()
de = C.from_dict({"plain": [["p"], 1], "engine": [{"a": "p"}, 1]})
print("serialize   observed:", ser)
print("            expected: {'plain': [['p'], 'dialect:1'], "
      "'engine': [{'a': 'p'}, 'dialect:1']}")
print("deserialize observed:", de)
print("            expected: plain[1] == engine[1] == 'dialect:1'")
if ser["plain"][1] == "dialect:1" and ser["engine"][1] == 1:
    print("VIOLATION (serialize): Config.dialect registration for int ignored "
          "inside the field that carries an engine name")
if de.plain[1] == "dialect:1" and de.engine[1] == 1:
    print("VIOLATION (deserialize): Config.dialect registration for int "
          "ignored inside the field that carries an engine name")
