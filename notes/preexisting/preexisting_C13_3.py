"""Per-call dialect is not applied inside a parametrised generic dataclass field.

The dialect branch of the nested class's type-args specific packer builds
CodeBuilder(cls, dialect=dialect, ...) without the type args, so T degrades
and the cache entry for the dialect is shared by all parametrisations.
"""
from dataclasses import dataclass
from datetime import date
from typing import Generic, TypeVar

import mashumaro
from mashumaro import DataClassDictMixin
from mashumaro.config import ADD_DIALECT_SUPPORT, BaseConfig
from mashumaro.dialect import Dialect

T = TypeVar("T")


class D(Dialect):
    serialization_strategy = {
        date: {"serialize": date.toordinal, "deserialize": date.fromordinal}
    }


def make(default_dialect):
    @dataclass
    class G(Generic[T], DataClassDictMixin):
        x: T

        class Config(BaseConfig):
            code_generation_options = [ADD_DIALECT_SUPPORT]
            dialect = default_dialect

    @dataclass
    class Outer(DataClassDictMixin):
        g: G[date]

        class Config(BaseConfig):
            code_generation_options = [ADD_DIALECT_SUPPORT]
            dialect = default_dialect

    return G, Outer


G0, O0 = make(None)
G1, O1 = make(D)
d = date(2024, 2, 29)
per_call = O0(G0(d)).to_dict(dialect=D)
as_default = O1(G1(d)).to_dict()
print("observed to_dict(dialect=D)     :", per_call)
print("expected (class with default D) :", as_default)
bad = per_call != as_default
try:
    back = O0.from_dict(as_default, dialect=D)
    print("observed from_dict(dialect=D)   :", back)
    print("expected                        :", O0(G0(d)))
    bad = bad or back != O0(G0(d))
except Exception as e:
    print("observed from_dict(dialect=D)   :", type(e).__name__, e)
    bad = True
print("VIOLATION" if bad else "ok")
