# two fields with one alias: "required" lists the name twice, which the
# Draft 2020-12 metaschema rejects (required is a stringArray with uniqueItems)
from dataclasses import dataclass, field
import mashumaro
from mashumaro.jsonschema import build_json_schema

@dataclass
class C:
    a: int = field(metadata={"alias": "b"})
    b: int

doc = build_json_schema(C).to_dict()
print("observed:", doc)
print("expected: a metaschema-valid document, i.e. 'required' without duplicates (or a clear error)")
try:
    from jsonschema import Draft202012Validator
    Draft202012Validator.check_schema(doc)
    print("metaschema: valid")
except ImportError:
    print("metaschema (by hand): required has duplicates ->", len(doc["required"]) != len(set(doc["required"])))
except Exception as e:
    print("metaschema: INVALID:", str(e).splitlines()[0])
