# Nested dataclasses are bound in the generated code under
# clean_id(type_name(cls)), i.e. the qualified name with every non-word
# character replaced by "_".  Two DIFFERENT module level classes, `A_B` and
# the nested class `A.B`, both become "<module>_A_B"; the first one bound wins
# (dict.setdefault).  (Not local classes: the qualified names differ.)
from dataclasses import dataclass
from typing import Tuple

import mashumaro  # noqa
from mashumaro import DataClassDictMixin
from mashumaro.codecs.basic import BasicDecoder, BasicEncoder


@dataclass
class A_B:
    x: int = 1


class A:
    @dataclass
    class B:
        y: int = 2


@dataclass
class Out(DataClassDictMixin):
    p: A_B
    q: A.B


def run(f):
    try:
        return f()
    except Exception as e:
        return f"{type(e).__name__}: {e}"[:110]


elem = BasicDecoder(A.B).decode({"y": 5})
nested = run(lambda: Out.from_dict({"p": {"x": 1}, "q": {"y": 5}}).q)
print("BasicDecoder(A.B).decode({'y': 5})      :", elem)
print("Out.from_dict({... 'q': {'y': 5}}).q    :", nested)
enc_elem = [BasicEncoder(A_B).encode(A_B()), BasicEncoder(A.B).encode(A.B())]
enc = run(lambda: BasicEncoder(Tuple[A_B, A.B]).encode((A_B(), A.B())))
print("elementwise encode                      :", enc_elem)
print("BasicEncoder(Tuple[A_B, A.B]).encode(..):", enc)
if nested != elem or enc != enc_elem:
    print("VIOLATION: nested / composite use differs from the element codec")
