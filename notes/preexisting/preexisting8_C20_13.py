"""A FIELD-level serialization strategy (metadata serialization_strategy=...)
sends build_json_schema into unbounded recursion (RecursionError) when
  (a) its serialize() return annotation is a container (-> List[str]): the
      strategy is looked up again for every inner type of the same field
      (only the "serialize" metadata key is popped after use, the
      "serialization_strategy" key is not), or
  (b) its return annotation is a string (-> "str", i.e. every strategy defined
      under `from __future__ import annotations`): a fresh ForwardRef is made
      on every round, so the `new_type is instance.type` stop test never hits.
The same functions given through the "serialize" metadata key work.
"""
from dataclasses import dataclass, field
from typing import List

import mashumaro  # noqa: F401
from mashumaro import DataClassDictMixin
from mashumaro.jsonschema import build_json_schema
from mashumaro.types import SerializationStrategy


class AsList(SerializationStrategy):
    def serialize(self, value) -> List[str]:
        return [str(value)]

    def deserialize(self, value):
        return int(value[0])


class AsText(SerializationStrategy):
    def serialize(self, value) -> "str":
        return str(value)

    def deserialize(self, value):
        return int(value)


def as_list(value) -> List[str]:
    return [str(value)]


@dataclass
class ViaSerializeKey(DataClassDictMixin):
    x: int = field(default=1, metadata={"serialize": as_list})


@dataclass
class ContainerAnnotation(DataClassDictMixin):
    x: int = field(default=1, metadata={"serialization_strategy": AsList()})


@dataclass
class StringAnnotation(DataClassDictMixin):
    x: int = field(default=1, metadata={"serialization_strategy": AsText()})


violated = False
for cls in (ViaSerializeKey, ContainerAnnotation, StringAnnotation):
    print(cls.__name__, "to_dict works:", cls().to_dict())
    try:
        print(cls.__name__, "->", build_json_schema(cls).to_dict())
    except RecursionError as e:
        violated = True
        print(
            f"{cls.__name__}: observed RecursionError ({e}); expected the "
            "schema of the return annotation"
        )
print("VIOLATION" if violated else "ok")
