"""unpack_dataclass registers the nested class under clean_id(type_name(cls)),
which maps every non-word character to '_'.  `Outer.Inner` (nested class) and
`Outer_Inner` (top-level class) of one module get the same alias; setdefault
keeps the first, so the second field is decoded with the wrong class."""
from dataclasses import dataclass

import mashumaro
from mashumaro import DataClassDictMixin


@dataclass
class Outer_Inner(DataClassDictMixin):
    a: int


class Outer:
    @dataclass
    class Inner(DataClassDictMixin):
        b: str


@dataclass
class Top(DataClassDictMixin):
    x: Outer_Inner
    y: Outer.Inner


print("expected: Top(x=Outer_Inner(a=1), y=Outer.Inner(b='s'))")
try:
    obj = Top.from_dict({"x": {"a": 1}, "y": {"b": "s"}})
    print("observed:", obj)
    bad = type(obj.y) is not Outer.Inner
except Exception as e:
    print(f"observed: {type(e).__name__}: {e}")
    bad = True
fn = Top.__dict__["__mashumaro_from_dict__"].__func__
aliases = {
    n: fn.__globals__[n]
    for n in fn.__code__.co_names
    if isinstance(fn.__globals__.get(n), type) and "Outer" in n
}
print("aliases loaded by Top.from_dict:", aliases)
if bad:
    print("VIOLATION")
