"""Positional constructor arguments are emitted in get_type_hints() order,
not in dataclass field order.  An annotation of the same name in a
non-dataclass ancestor moves the name to the front of the hints, so two
required fields are swapped when the method is built after @dataclass has run
(lazy_compilation, a forward reference, or a codec on a plain dataclass)."""
from dataclasses import dataclass, fields
from typing import Optional

import mashumaro
from mashumaro import DataClassDictMixin
from mashumaro.codecs import BasicDecoder
from mashumaro.config import BaseConfig

violations = 0


def report(label, observed, expected):
    global violations
    print(f"{label}: observed {observed!r}, expected {expected!r}")
    if observed != expected:
        violations += 1


# (a) lazy compilation
class Named:  # a plain class that documents an attribute
    name: str


@dataclass
class Base(DataClassDictMixin):
    id: str

    class Config(BaseConfig):
        lazy_compilation = True


@dataclass
class Item(Base, Named):
    name: str


print("dataclass field order:", [f.name for f in fields(Item)])
report(
    "lazy",
    Item.from_dict({"id": "i1", "name": "n1"}),
    Item(id="i1", name="n1"),
)


# (b) a forward reference postpones the build in the same way
@dataclass
class Base2(DataClassDictMixin):
    id: str


@dataclass
class Node(Base2, Named):
    name: str
    parent: Optional["Later"] = None


@dataclass
class Later(DataClassDictMixin):
    z: int = 0


report(
    "forward reference",
    Node.from_dict({"id": "i1", "name": "n1"}),
    Node(id="i1", name="n1"),
)


# (c) a codec for a plain dataclass
@dataclass
class PlainBase:
    id: str


@dataclass
class PlainItem(PlainBase, Named):
    name: str


report(
    "codec",
    BasicDecoder(PlainItem).decode({"id": "i1", "name": "n1"}),
    PlainItem(id="i1", name="n1"),
)

if violations:
    print("VIOLATION")
