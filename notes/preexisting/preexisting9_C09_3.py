"""An Annotated Alias reached through a PEP 695 type alias is ignored.

type AliasedInt = Annotated[int, Alias('a')];  x: AliasedInt  is read from
'x', never from 'a' (the value type is unwrapped through the type alias, the
Alias annotation is not).
"""
from dataclasses import dataclass
from typing import Annotated

import mashumaro
from mashumaro import DataClassDictMixin
from mashumaro.config import BaseConfig
from mashumaro.exceptions import ExtraKeysError, MissingField
from mashumaro.types import Alias

print(mashumaro.__file__)

type AliasedInt = Annotated[int, Alias("a")]


@dataclass
class Direct(DataClassDictMixin):
    x: Annotated[int, Alias("a")]

    class Config(BaseConfig):
        forbid_extra_keys = True


@dataclass
class ViaTypeAlias(DataClassDictMixin):
    x: AliasedInt

    class Config(BaseConfig):
        forbid_extra_keys = True


def run(cls, d):
    try:
        return repr(cls.from_dict(d))
    except ExtraKeysError as e:
        return f"ExtraKeysError{sorted(e.extra_keys)}"
    except MissingField as e:
        return f"MissingField({e.field_name})"


print("direct        {'a': 1} ->", run(Direct, {"a": 1}))
obs_alias = run(ViaTypeAlias, {"a": 1})
obs_name = run(ViaTypeAlias, {"x": 1})
print("via type stmt {'a': 1} ->", obs_alias, " expected ViaTypeAlias(x=1)")
print("via type stmt {'x': 1} ->", obs_name, " expected ExtraKeysError['x']")
if obs_alias != "ViaTypeAlias(x=1)" or obs_name != "ExtraKeysError['x']":
    print("VIOLATION")
else:
    print("not reproduced")
