"""When a type variable of a generic dataclass is bound to an Annotated type,
Registry.get strips Annotated *before* substituting the variable, so the
metadata (here a Discriminator) is lost: the member is decoded as the plain
base class.  The same annotation written directly on a field works."""
from dataclasses import dataclass
from typing import Annotated, Generic, TypeVar

import mashumaro  # noqa
from mashumaro import DataClassDictMixin
from mashumaro.types import Discriminator

T = TypeVar("T")


@dataclass
class B0:
    t: str = "b0"


@dataclass
class B1(B0):
    t: str = "b1"
    z: int = 0


Variant = Annotated[B0, Discriminator(field="t", include_subtypes=True)]


@dataclass
class G(Generic[T]):
    v: T


@dataclass
class Direct(DataClassDictMixin):
    v: Variant


@dataclass
class ViaGeneric(DataClassDictMixin):
    g: G[Variant]


data = {"t": "b1", "z": "3"}
direct = Direct.from_dict({"v": data})
via = ViaGeneric.from_dict({"g": {"v": data}})
print("direct      : observed", direct.v, "expected", B1(z=3))
print("via G[...]  : observed", via.g.v, "expected", B1(z=3))
if via.g.v != B1(z=3) or type(via.g.v) is not B1:
    print("VIOLATION")
