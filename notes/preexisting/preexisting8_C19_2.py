"""Mixin entry points and codecs disagree on hooks for a subclass instance held
in a field annotated with the parent: to_dict()/to_jsonb() run the subclass's
hooks, BasicEncoder / JSONEncoder / ORJSONEncoder do not."""
from dataclasses import dataclass
from typing import List

import mashumaro
from mashumaro import DataClassDictMixin
from mashumaro.codecs.basic import BasicEncoder
from mashumaro.codecs.json import JSONEncoder
from mashumaro.codecs.orjson import ORJSONEncoder

TRACE = []


@dataclass
class Parent(DataClassDictMixin):
    x: int = 1


@dataclass
class Child(Parent):
    def __pre_serialize__(self):
        TRACE.append("pre Child")
        return self

    def __post_serialize__(self, d):
        TRACE.append("post Child")
        d["seen"] = True
        return d


@dataclass
class Holder(DataClassDictMixin):
    p: Parent
    ps: List[Parent]


v = Holder(Child(), [Child()])
expected = ["pre Child", "post Child"] * 2
violation = False
for label, fn in (
    ("Holder.to_dict", lambda: v.to_dict()),
    ("BasicEncoder(Holder)", lambda: BasicEncoder(Holder).encode(v)),
    ("JSONEncoder(Holder)", lambda: JSONEncoder(Holder).encode(v)),
    ("ORJSONEncoder(Holder)", lambda: ORJSONEncoder(Holder).encode(v)),
    ("BasicEncoder(Parent) on Child()", None),
):
    TRACE.clear()
    if fn is None:
        out = BasicEncoder(Parent).encode(Child())
        exp = ["pre Child", "post Child"]
    else:
        out = fn()
        exp = expected
    print(f"{label:34s} -> {out!r}\n    trace {TRACE}\n    expected {exp}")
    violation |= TRACE != exp
print("VIOLATION: codecs skip the hooks the mixin entry point runs"
      if violation else "ok")
