# PRE-EXISTING (C15): in a codec, nested dataclass packers/unpackers are bound in the
# generated code's namespace under clean_id(type_name(cls)) + method name with
# globals.setdefault(...).  Two DISTINCT dataclasses with the same module-qualified
# name (e.g. made by a factory function) inside one shape collide: the second one is
# encoded/decoded with the first one's method.  The element codecs, and the mixin /
# nested-in-a-dataclass packing path, do it right, so the entry points disagree.
from dataclasses import dataclass
from typing import Tuple

import mashumaro
from mashumaro import DataClassDictMixin
from mashumaro.codecs import BasicDecoder, BasicEncoder


def make(kind):
    if kind == "int":
        @dataclass
        class Item:
            a: int
    else:
        @dataclass
        class Item:
            b: str
            c: str = "c"
    return Item


A, B = make("int"), make("str")
assert A is not B and A.__qualname__ == B.__qualname__

print("mashumaro:", mashumaro.__file__)
elementwise = [BasicEncoder(A).encode(A(1)), BasicEncoder(B).encode(B("x"))]
print("expected (element codecs)      :", elementwise)
try:
    composite = BasicEncoder(Tuple[A, B]).encode((A(1), B("x")))
except Exception as e:
    composite = repr(e)
print("observed Encoder(Tuple[A, B])  :", composite)


@dataclass
class Outer(DataClassDictMixin):
    f: A
    g: B


print("observed Outer(f,g).to_dict()  :", Outer(A(1), B("x")).to_dict())

exp_dec = (BasicDecoder(A).decode({"a": 1}), BasicDecoder(B).decode({"b": "x"}))
try:
    got_dec = BasicDecoder(Tuple[A, B]).decode([{"a": 1}, {"b": "x"}])
except Exception as e:
    got_dec = repr(e)
print("expected decode (element codecs):", exp_dec)
print("observed Decoder(Tuple[A, B])   :", got_dec)
print(
    "SAME"
    if composite == elementwise and got_dec == exp_dec
    else "DIFFERENT -> property violated"
)
