"""Members are NOT tried in declaration order when a basic scalar member is
declared before a non-scalar member: the coercing attempt of every scalar
member (int(value), float(value), str(value), bool(value)) is postponed until
all non-scalar members have been tried.  So for an input whose exact type is
not a member, a later container member wins over an earlier scalar member that
accepts the input.
"""
from typing import Dict, List, Optional, Union

import mashumaro
from mashumaro.codecs import BasicDecoder

violation = False


def check(title, typ, data, expected):
    global violation
    try:
        observed = BasicDecoder(typ).decode(data)
    except Exception as e:
        observed = f"RAISE {type(e).__name__}: {e}"
    bad = observed != expected or type(observed) is not type(expected)
    violation |= bad
    print(f"{title}: decode({data!r})\n   observed: {observed!r}\n"
          f"   expected: {expected!r}{'   <-- VIOLATION' if bad else ''}")


# int is declared first and accepts "12" (int("12") == 12)
check("Union[int, List[int]]", Union[int, List[int]], "12", 12)
# control: same members, other order -> the list member is first and wins
check("Union[List[int], int]", Union[List[int], int], "12", [1, 2])
# float first, then a list
check("Optional[Union[float, List[int]]]",
      Optional[Union[float, List[int]]], "12", 12.0)
# bool accepts everything, but the dict declared after it wins
check("Union[bool, Dict[str, int]]", Union[bool, Dict[str, int]], {"a": 1},
      True)

print("VIOLATION" if violation else "no violation")
