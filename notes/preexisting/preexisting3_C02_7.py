"""sort_keys ('the keys on serialized dataclasses will be sorted in
alphabetical order') sorts by FIELD NAME at compile time, so with
serialize_by_alias (config, dialect or by_alias=True flag) the emitted keys are
not sorted."""
import mashumaro
from dataclasses import dataclass, field
from mashumaro import DataClassDictMixin
from mashumaro.config import BaseConfig


@dataclass
class A(DataClassDictMixin):
    b: int = field(metadata={"alias": "z"})
    c: int = field(metadata={"alias": "a"})

    class Config(BaseConfig):
        sort_keys = True
        serialize_by_alias = True


observed = list(A(1, 2).to_dict())
print("observed keys:", observed)
print("expected keys:", sorted(observed))
if observed != sorted(observed):
    print("VIOLATION")
