"""The lazy / postponed stub of a pack method compiles the method for
`self.__class__`, not for the class the stub belongs to.  So a class whose
compilation was postponed (forward reference) or lazy packs a subclass
instance with the subclass's fields, whereas its eager twin packs the base's
fields only; and the stub stays in place, so the answer also changes once the
base itself has been used."""
import sys
import types
import mashumaro

COMMON = """
from dataclasses import dataclass
from typing import Optional
from mashumaro import DataClassDictMixin
from mashumaro.config import BaseConfig
"""
LATER = """
@dataclass
class Later:
    z: int = 0
"""
FAMILY = """
@dataclass
class A:
    x: int
    nxt: Optional["Later"] = None

@dataclass
class B(A):
    y: int = 0

@dataclass
class C(DataClassDictMixin):
    a: A
"""


def fresh(name, src):
    mod = types.ModuleType(name)
    sys.modules[name] = mod
    exec(src, mod.__dict__)
    return mod


eager = fresh("fam_eager", COMMON + LATER + FAMILY)
postponed = fresh("fam_postponed", COMMON + FAMILY + LATER)
r_eager = eager.C(eager.B(1, None, 5)).to_dict()
r_postponed = postponed.C(postponed.B(1, None, 5)).to_dict()
print("eager     (Later defined first):", r_eager)
print("postponed (Later defined last) :", r_postponed)
violation = r_eager != r_postponed

# the same with lazy_compilation and an unbound call
LAZY = """
@dataclass
class P(DataClassDictMixin):
    x: int = 1
    class Config(BaseConfig):
        lazy_compilation = {lazy}

@dataclass
class Ch(P):
    y: int = 2
"""
e = fresh("fam_e", COMMON + LAZY.format(lazy=False))
l = fresh("fam_l", COMMON + LAZY.format(lazy=True))
r_e = e.P.to_dict(e.Ch())
r_l1 = l.P.to_dict(l.Ch())
l.P().to_dict()
r_l2 = l.P.to_dict(l.Ch())
print("eager P.to_dict(Ch()):", r_e)
print("lazy  P.to_dict(Ch()) before P was used:", r_l1)
print("lazy  P.to_dict(Ch()) after  P was used:", r_l2)
violation |= not (r_e == r_l1 == r_l2)
print("expected: all outcomes equal to the eager one")
if violation:
    print("VIOLATION")
