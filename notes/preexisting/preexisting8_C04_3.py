"""A deserialize-only override (field option, Config.serialization_strategy,
or the documented "pendulum"/"ciso8601" engines) is combined with the
pass_through *serializer* of the format dialect: the document carries the
native value (TOML datetime, MessagePack bin), the user function written for
the basic form (a string) receives the native object."""
from base64 import decodebytes
from dataclasses import dataclass, field
from datetime import datetime

import mashumaro
from mashumaro.config import BaseConfig
from mashumaro.mixins.json import DataClassJSONMixin
from mashumaro.mixins.msgpack import DataClassMessagePackMixin
from mashumaro.mixins.toml import DataClassTOMLMixin


def lenient(s: str) -> datetime:
    return datetime.fromisoformat(s.replace("Z", "+00:00"))


@dataclass
class A(DataClassTOMLMixin, DataClassJSONMixin):
    x: datetime = field(metadata={"deserialize": lenient})


@dataclass
class B(DataClassTOMLMixin, DataClassJSONMixin):
    x: datetime

    class Config(BaseConfig):
        serialization_strategy = {datetime: {"deserialize": lenient}}


@dataclass
class C(DataClassMessagePackMixin, DataClassJSONMixin):
    x: bytes = field(
        metadata={"deserialize": lambda s: decodebytes(s.encode())}
    )


violations = 0
for value, to, frm in (
    (A(datetime(2020, 1, 1)), "to_toml", "from_toml"),
    (B(datetime(2020, 1, 1)), "to_toml", "from_toml"),
    (C(b"abc"), "to_msgpack", "from_msgpack"),
):
    cls = type(value)
    assert cls.from_dict(value.to_dict()) == value
    assert cls.from_json(value.to_json()) == value
    doc = getattr(value, to)()
    try:
        got = getattr(cls, frm)(doc)
    except Exception as e:
        got = f"{type(e).__name__}: {e}"
    print(cls.__name__, "document", repr(doc))
    print("   expected", value, "observed", got)
    if got != value:
        violations += 1
print("VIOLATION" if violations else "no violation", violations)
