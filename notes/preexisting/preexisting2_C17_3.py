"""omit_default=True with a tuple default: the default is spliced into the
code with repr(); (inf,) / (nan,) load the undefined global names inf / nan
(NameError in to_dict), other members (enum, Decimal) are a SyntaxError /
NameError when the class is defined."""
import enum
from dataclasses import dataclass
from decimal import Decimal
from typing import Tuple

import mashumaro
from mashumaro import DataClassDictMixin
from mashumaro.config import BaseConfig


class E(enum.Enum):
    A = 1


violated = False
for default in ((float("inf"),), (1.0, float("nan")), (E.A,), (Decimal("1"),)):
    try:

        @dataclass
        class A(DataClassDictMixin):
            x: Tuple = default

            class Config(BaseConfig):
                omit_default = True

        observed = repr(A().to_dict())
    except Exception as e:
        observed = f"{type(e).__name__}: {e}"
        violated = True
    print(f"default {default!r}: expected {{}} ; observed {observed}")
if violated:
    print("VIOLATION")
