"""A recursive union alias is compiled once per field and the *call
expression* of that first compilation (with the variable it was applied to)
is reused at every recursive occurrence.  When the first occurrence is not the
bare loop variable ``value`` (an item of a fixed tuple, a TypedDict / NamedTuple
member) the recursive occurrences decode the wrong sub-value.

UnionUnpackerBuilder._add_body stores ``cls.__unpack_union...(value[0])`` in
spec.field_ctx.unpacker; _get_existing_method returns that string verbatim.
"""
from typing import NamedTuple, TypedDict

import mashumaro  # noqa
from mashumaro.codecs.basic import decode

type J = int | list[J]

bad = 0

# 1. silently wrong result
data = ([[1], [2]], 3)
expected = ([[1], [2]], 3)
observed = decode(data, tuple[J, int])
print("tuple[J, int]   input", data, "observed", observed, "expected", expected)
if observed != expected:
    bad += 1

# 2. valid input rejected
class TD(TypedDict):
    a: J

for shape, data, expected in (
    (TD, {"a": [[1], [2]]}, {"a": [[1], [2]]}),
):
    try:
        observed = decode(data, shape)
    except Exception as e:  # noqa
        observed = f"raised {type(e).__name__}: {e}"
    print(shape.__name__, "input", data, "observed", observed, "expected", expected)
    if observed != expected:
        bad += 1

class NT(NamedTuple):
    a: J
    b: int = 0

try:
    observed = decode([[[1], [2]], 3], NT)
except Exception as e:  # noqa
    observed = f"raised {type(e).__name__}: {e}"
print("NT input [[[1],[2]],3] observed", observed, "expected", NT([[1], [2]], 3))
if observed != NT([[1], [2]], 3):
    bad += 1

# the same alias at a position whose variable IS ``value`` works
print("control list[J]:", decode([[[1], [2]]], list[J]))

if bad:
    print("VIOLATION")
