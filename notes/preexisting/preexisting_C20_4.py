# a "serialize" callable in the metadata of a container field is applied again
# to every derived item instance -> unbounded recursion; the RecursionError is
# swallowed by `except Exception` and a ~1000 levels deep schema comes out,
# which then fails to serialize
import warnings
from dataclasses import dataclass, field
import mashumaro
from mashumaro.jsonschema import build_json_schema

def keep(v: list[int]) -> list[int]:
    return v

@dataclass
class A:
    x: list[int] = field(default_factory=list, metadata={"serialize": keep})

def depth(d):
    n = 0
    while isinstance(d, dict) and "items" in d:
        d = d["items"]; n += 1
    return n

with warnings.catch_warnings(record=True) as w:
    warnings.simplefilter("always")
    try:
        schema = build_json_schema(A)
        print("observed: build ok; warnings:", [str(x.message)[-60:] for x in w])
        try:
            doc = schema.to_dict()
            print("observed: nesting depth of property x =", depth(doc["properties"]["x"]))
        except RecursionError as e:
            print("observed: to_dict ->", type(e).__name__, e)
    except Exception as e:
        print("observed:", type(e).__name__, e)
print("expected: {'type': 'array', 'items': {'type': 'integer'}} for property x")
