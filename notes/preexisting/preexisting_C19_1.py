"""Union members are tried one after another inside try/except.  When an
earlier member's packer converts a nested dataclass (running its hooks) and
then fails on a later item, the next member converts the same instance again:
__pre_serialize__/__post_serialize__ run twice for one instance."""
from dataclasses import dataclass
from datetime import date
from typing import Tuple, Union

import mashumaro
from mashumaro import DataClassDictMixin

TRACE = []


@dataclass
class A(DataClassDictMixin):
    n: int

    def __pre_serialize__(self):
        TRACE.append(("pre", self.n))
        return self

    def __post_serialize__(self, d):
        TRACE.append(("post", self.n))
        return d


@dataclass
class Holder(DataClassDictMixin):
    x: Union[Tuple[A, date], Tuple[A, str]]


out = Holder((A(1), "s")).to_dict()
expected = [("pre", 1), ("post", 1)]
print("mashumaro:", mashumaro.__file__)
print("output  :", out)
print("observed:", TRACE)
print("expected:", expected)
print("OK" if TRACE == expected else "VIOLATION: hooks of one instance ran more than once")
