"""forbid_extra_keys accepts only the NEAREST class-level discriminator field.

A leaf below two class-level discriminators (Base: field 'kind', Mid: field
'sub') cannot be loaded through Base once forbid_extra_keys is on: the leaf's
accepted key set holds Mid's field 'sub' only, so the key 'kind' that Base just
used to select the leaf is reported as an extra key.
"""
from dataclasses import dataclass

import mashumaro
from mashumaro import DataClassDictMixin
from mashumaro.config import BaseConfig
from mashumaro.exceptions import ExtraKeysError
from mashumaro.types import Discriminator

print(mashumaro.__file__)


def tag(c):
    return c.__name__


def make(forbid):
    @dataclass
    class Base(DataClassDictMixin):
        class Config(BaseConfig):
            discriminator = Discriminator(
                field="kind", include_subtypes=True, variant_tagger_fn=tag
            )
            forbid_extra_keys = forbid

    @dataclass
    class Mid(Base):
        class Config(BaseConfig):
            discriminator = Discriminator(
                field="sub", include_subtypes=True, variant_tagger_fn=tag
            )
            forbid_extra_keys = forbid

    @dataclass
    class Leaf(Mid):
        x: int = 0

        class Config(BaseConfig):
            forbid_extra_keys = forbid

    return Base, Mid, Leaf


def run(cls, d):
    try:
        return repr(cls.from_dict(d))
    except ExtraKeysError as e:
        return f"ExtraKeysError{sorted(e.extra_keys)}"


Base, Mid, Leaf = make(False)
print("control, no forbid: Base.from_dict ->", run(Base, {"kind": "Leaf", "x": 1}))
Base, Mid, Leaf = make(True)
via_mid = run(Mid, {"sub": "Leaf", "x": 1})
via_base = run(Base, {"kind": "Leaf", "x": 1})
print("forbid: Mid.from_dict({'sub': 'Leaf', 'x': 1})   ->", via_mid)
print("forbid: Base.from_dict({'kind': 'Leaf', 'x': 1}) ->", via_base)
print("expected: Leaf(x=1) in both cases (a class-level discriminator "
      "field is accepted)")
if "ExtraKeysError" in via_base and "Leaf(x=1)" in via_mid:
    print("VIOLATION")
else:
    print("not reproduced")
