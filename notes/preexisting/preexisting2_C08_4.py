"""No dialect and no keyword involved: an outer class that has the
TO_DICT_ADD_*_FLAG options forwards its own *class config defaults*
(omit_none / serialize_by_alias) to every nested class that merely has the same
flags enabled.  The nested class never set omit_none or serialize_by_alias, the
caller passed no keyword, yet the nested mapping is projected with the outer
class's options."""
from dataclasses import dataclass, field
from typing import Optional

import mashumaro
from mashumaro import DataClassDictMixin, field_options
from mashumaro.config import (
    TO_DICT_ADD_BY_ALIAS_FLAG,
    TO_DICT_ADD_OMIT_NONE_FLAG,
    BaseConfig,
)

FLAGS = [TO_DICT_ADD_OMIT_NONE_FLAG, TO_DICT_ADD_BY_ALIAS_FLAG]


@dataclass
class Inner(DataClassDictMixin):
    a: Optional[int] = None
    b: int = field(default=1, metadata=field_options(alias="bb"))

    class Config(BaseConfig):
        code_generation_options = FLAGS  # keyword support only, options unset


@dataclass
class Outer(DataClassDictMixin):
    i: Inner

    class Config(BaseConfig):
        code_generation_options = FLAGS
        omit_none = True
        serialize_by_alias = True


alone = Inner().to_dict()
nested = Outer(Inner()).to_dict()["i"]
print("Inner().to_dict()              observed", alone)
print("Outer(Inner()).to_dict()['i']  observed", nested, "expected", alone)
print("VIOLATION" if nested != alone else "no violation")
