"""An Annotated Alias is only seen when Annotated is the outermost form of the
annotation.  Wrapped in Final[...] (an ordinary dataclass field, supported by
the library) or reached through a PEP 695 type alias, the Alias is silently
ignored: the field is read from its name and the alias key is a stranger.
(to_dict(by_alias) / the JSON schema ignore it the same way.)
"""
import sys
from dataclasses import dataclass
from typing import Annotated, Final

import mashumaro  # noqa
from mashumaro import DataClassDictMixin
from mashumaro.config import BaseConfig
from mashumaro.exceptions import ExtraKeysError
from mashumaro.types import Alias


@dataclass
class Plain(DataClassDictMixin):
    x: Annotated[int, Alias("ax")] = 0

    class Config(BaseConfig):
        forbid_extra_keys = True


@dataclass
class WithFinal(DataClassDictMixin):
    x: Final[Annotated[int, Alias("ax")]] = 0

    class Config(BaseConfig):
        forbid_extra_keys = True


classes = [Plain, WithFinal]

if sys.version_info >= (3, 12):
    ns = {}
    exec(
        "from typing import Annotated\n"
        "from mashumaro.types import Alias\n"
        "type AX = Annotated[int, Alias('ax')]\n",
        ns,
    )
    AX = ns["AX"]

    @dataclass
    class WithTypeAlias(DataClassDictMixin):
        x: AX = 0

        class Config(BaseConfig):
            forbid_extra_keys = True

    classes.append(WithTypeAlias)

violation = False
for cls in classes:
    for data in ({"ax": 5}, {"x": 5}):
        try:
            observed = cls.from_dict(data)
        except ExtraKeysError as e:
            observed = ("ExtraKeysError", sorted(e.extra_keys))
        expected = cls(5) if "ax" in data else ("ExtraKeysError", ["x"])
        bad = observed != expected
        violation |= bad
        print(cls.__name__, data, ": observed", observed, "expected", expected,
              "<-- differs" if bad else "")
print("VIOLATION" if violation else "no violation")
