"""An Annotated Alias under Final is ignored.

x: Final[Annotated[int, Alias('a')]] is read from 'x', never from 'a'; with
forbid_extra_keys the alias key is even reported as an extra key.  The other
nesting order, Annotated[Final[int], Alias('a')], honours the alias.
"""
from dataclasses import dataclass
from typing import Annotated, Final

import mashumaro
from mashumaro import DataClassDictMixin
from mashumaro.config import BaseConfig
from mashumaro.exceptions import ExtraKeysError
from mashumaro.types import Alias

print(mashumaro.__file__)


@dataclass
class Inner(DataClassDictMixin):  # Annotated outside: works
    x: Annotated[Final[int], Alias("a")] = 0

    class Config(BaseConfig):
        forbid_extra_keys = True


@dataclass
class Outer(DataClassDictMixin):  # Final outside: alias lost
    x: Final[Annotated[int, Alias("a")]] = 0

    class Config(BaseConfig):
        forbid_extra_keys = True


def run(cls, d):
    try:
        return repr(cls.from_dict(d))
    except ExtraKeysError as e:
        return f"ExtraKeysError{sorted(e.extra_keys)}"


print("Annotated[Final[int], Alias('a')]  {'a': 1} ->", run(Inner, {"a": 1}))
obs_alias = run(Outer, {"a": 1})
obs_name = run(Outer, {"x": 1})
print("Final[Annotated[int, Alias('a')]]  {'a': 1} ->", obs_alias,
      " expected Outer(x=1)")
print("Final[Annotated[int, Alias('a')]]  {'x': 1} ->", obs_name,
      " expected ExtraKeysError['x']")
if obs_alias != "Outer(x=1)" or obs_name != "ExtraKeysError['x']":
    print("VIOLATION")
else:
    print("not reproduced")
