"""Local variables and parameters of the generated functions (value, d,
dialect, key, ...) shadow top-level modules of the same name, so
`value.Money(value)` is an attribute access on the input."""
import sys
import types
from dataclasses import dataclass
from typing import Dict

import mashumaro
from mashumaro import DataClassDictMixin

print("mashumaro from", mashumaro.__file__)
SRC = "import enum\nclass Money(enum.Enum):\n    USD = 1\n    EUR = 2\n"


def make_module(name):
    m = types.ModuleType(name)
    sys.modules[name] = m
    exec(SRC, m.__dict__)
    return m


value, d, dialect, key = map(make_module, ("value", "d", "dialect", "key"))


@dataclass
class A(DataClassDictMixin):
    x: value.Money


@dataclass
class B(DataClassDictMixin):
    x: d.Money


@dataclass
class C(DataClassDictMixin):
    x: dialect.Money


@dataclass
class D(DataClassDictMixin):
    x: Dict[key.Money, int]


violations = 0
for label, fn, expected in (
    ("module 'value'", lambda: A.from_dict({"x": 1}), "A(x=<Money.USD: 1>)"),
    ("module 'd'", lambda: B.from_dict({"x": 1}), "B(x=<Money.USD: 1>)"),
    ("module 'dialect'", lambda: C.from_dict({"x": 1}), "C(x=<Money.USD: 1>)"),
    ("module 'key' (dict key)", lambda: D.from_dict({"x": {1: 5}}), "D(x={<Money.USD: 1>: 5})"),
):
    try:
        observed = repr(fn())
    except Exception as e:
        observed = f"{type(e).__name__}: {e}"
    if observed != expected:
        violations += 1
    print(f"{label}: observed {observed}; expected {expected}")
if violations:
    print("VIOLATION")
