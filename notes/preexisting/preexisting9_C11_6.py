"""A recursive union alias at an indexed position (slot of a fixed tuple,
NamedTuple member, TypedDict value) recurses with the index expression of its
first occurrence: the remembered call is e.g. `M(value[1])`, and inside the
comprehensions of the list / dict members `value` is the element, so the
recursion decodes element[1] instead of element.
"""
from dataclasses import dataclass
from typing import NamedTuple, Tuple, TypedDict

import mashumaro
from mashumaro import DataClassDictMixin
from mashumaro.codecs import BasicDecoder, BasicEncoder

type JSON = str | int | float | bool | dict[str, JSON] | list[JSON] | None

violation = False


def check(title, fn, expected):
    global violation
    try:
        observed = fn()
    except Exception as e:
        observed = f"RAISE {type(e).__name__}: {e}"
    bad = observed != expected
    violation |= bad
    print(f"{title}\n   observed: {observed!r}\n   expected: {expected!r}"
          f"{'   <-- VIOLATION' if bad else ''}")


data = {"a": ["x", 1.5]}

# control: not indexed
check("decode list[JSON]", lambda: BasicDecoder(list[JSON]).decode([data]),
      [data])
check("decode tuple[int, JSON]",
      lambda: BasicDecoder(tuple[int, JSON]).decode([1, data]), (1, data))
check("encode tuple[int, JSON]",
      lambda: BasicEncoder(tuple[int, JSON]).encode((1, data)), [1, data])


class NT(NamedTuple):
    n: int
    j: JSON


check("decode NamedTuple(n: int, j: JSON)",
      lambda: BasicDecoder(NT).decode([1, data]), NT(1, data))


class TD(TypedDict):
    j: JSON


check("decode TypedDict(j: JSON)",
      lambda: BasicDecoder(TD).decode({"j": data}), {"j": data})


@dataclass
class A(DataClassDictMixin):
    y: Tuple[int, JSON]


check("A.from_dict", lambda: A.from_dict({"y": [1, data]}).y, (1, data))
check("A.to_dict", lambda: A((1, data)).to_dict(), {"y": [1, data]})

print("VIOLATION" if violation else "no violation")
