"""The None member of a discriminated union with three or more members is not
accepted: None is handed to the tag lookup ("should be a dict instance") or to
the variants. Optional[X] and the same union without Discriminator accept it."""
from dataclasses import dataclass
from typing import Annotated, Union

import mashumaro
from mashumaro.codecs import BasicDecoder
from mashumaro.types import Discriminator


@dataclass
class A:
    type = "a"
    x: int = 0


@dataclass
class B:
    type = "b"
    x: int = 0


def observe(decoder, data):
    try:
        return repr(decoder.decode(data))
    except Exception as e:  # noqa
        return f"{type(e).__name__}: {e}"


by_field = Discriminator(field="type", include_supertypes=True)
no_field = Discriminator(include_supertypes=True)
expected = "[None, A(x=0)]"
data = [None, {"type": "a"}]
control = observe(BasicDecoder(list[Union[A, B, None]]), data)
o1 = observe(BasicDecoder(list[Annotated[Union[A, B, None], by_field]]), data)
o2 = observe(BasicDecoder(list[Annotated[Union[A, B, None], no_field]]), data)
print("plain union     :", control)
print("with field      :", o1)
print("without field   :", o2)
print("expected (all)  :", expected)
print("VIOLATION" if o1 != expected or o2 != expected else "no violation")
