"""no_copy_collections: a union member whose packer degenerates to a
pass-through (list[int]) is moved in FRONT of the declared order and guarded
only by `value.__class__ is list`, so a list[date] value of
Union[list[date], list[int]] is returned unconverted."""
import datetime
from typing import Union
import mashumaro
from mashumaro.codecs import BasicEncoder
from mashumaro.dialect import Dialect


class NoCopy(Dialect):
    no_copy_collections = (list,)


U = Union[list[datetime.date], list[int]]
v = [datetime.date(2020, 1, 1)]
exp = BasicEncoder(list[datetime.date], default_dialect=NoCopy).encode(v)
got = BasicEncoder(U, default_dialect=NoCopy).encode(v)
print("encode", U, v, "->", got, " expected (encode_member)", exp)
print("without the option:", BasicEncoder(U).encode(v))
print("VIOLATION" if got != exp else "ok")
