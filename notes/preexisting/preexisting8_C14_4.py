"""A self-referencing class on a format mixin (msgpack / orjson) whose main
format method is not compiled yet (postponed by the forward reference, or
lazy_compilation) fails on a FIRST call that passes a dialect: the dialect
builder emits `value.__mashumaro_to_dict_msgpack__(dialect=dialect)` /
`cls.__mashumaro_from_dict_msgpack__(...)` for the self reference but that
dict-level method is created only as a side effect of compiling the main
method without a dialect.  After one plain call the same call succeeds."""
import sys
import types
import mashumaro
import msgpack

SRC = """
from dataclasses import dataclass
from datetime import date
from typing import Optional
from typing_extensions import Self
from mashumaro.config import BaseConfig, ADD_DIALECT_SUPPORT
from mashumaro.dialect import Dialect
from mashumaro.mixins.msgpack import DataClassMessagePackMixin

class Ord(Dialect):
    serialization_strategy = {{
        date: {{"serialize": date.toordinal, "deserialize": date.fromordinal}}
    }}

@dataclass
class Node(DataClassMessagePackMixin):
    d: date = date(2020, 1, 2)
    nxt: Optional[{ref}] = None
    class Config(BaseConfig):
        code_generation_options = [ADD_DIALECT_SUPPORT]
        lazy_compilation = {lazy}
"""
_n = [0]


def fresh(ref, lazy):
    _n[0] += 1
    mod = types.ModuleType(f"fam{_n[0]}")
    sys.modules[mod.__name__] = mod
    exec(SRC.format(ref=ref, lazy=lazy), mod.__dict__)
    return mod


def attempt(f):
    try:
        r = f()
        return r if isinstance(r, dict) else repr(r)
    except Exception as e:
        return f"{type(e).__name__}: {e}"


def pack_with_dialect(m):
    r = m.Node(nxt=m.Node()).to_msgpack(dialect=m.Ord)
    return msgpack.unpackb(r)


def unpack_with_dialect(m):
    data = msgpack.packb({"d": 737426, "nxt": {"d": 737427}})
    return m.Node.from_msgpack(data, dialect=m.Ord)


violation = False
for title, ref, lazy in (
    ('Optional["Node"] (postponed)', '"Node"', False),
    ("Optional[Self] + lazy_compilation", "Self", True),
):
    eager_twin = fresh("Self", False)  # Self resolves eagerly
    want_p = attempt(lambda: pack_with_dialect(eager_twin))
    want_u = attempt(lambda: unpack_with_dialect(eager_twin))
    m = fresh(ref, lazy)
    first_p = attempt(lambda: pack_with_dialect(m))
    m.Node(nxt=m.Node()).to_msgpack()
    again_p = attempt(lambda: pack_with_dialect(m))
    m = fresh(ref, lazy)
    first_u = attempt(lambda: unpack_with_dialect(m))
    m.Node.from_msgpack(msgpack.packb({"nxt": {}}))
    again_u = attempt(lambda: unpack_with_dialect(m))
    print(title)
    print("  to_msgpack(dialect=Ord) as first call :", first_p)
    print("  ... after one plain to_msgpack()      :", again_p)
    print("  expected (eager twin)                 :", want_p)
    print("  from_msgpack(.., dialect=Ord) first   :", first_u)
    print("  ... after one plain from_msgpack()    :", again_u)
    print("  expected (eager twin)                 :", want_u)
    if first_p != want_p or first_u != want_u:
        violation = True
if violation:
    print("VIOLATION")
