"""Serializing a union picks pass-through members by EXACT class
(value.__class__ is int), but only when the union also has a member that is
not pass-through.  So a value that the member's own packer takes unchanged
(a bool or an int subclass for `int`, a str subclass for `str`) is rejected by
Union[int, List[str]] while Union[int, str] and the member alone accept it:
encode_U(v) != encode_member(v).
"""
from typing import List, Union

import mashumaro
from mashumaro.codecs import BasicEncoder

violation = False


class MyInt(int):
    pass


def observe(typ, value):
    try:
        return repr(BasicEncoder(typ).encode(value))
    except Exception as e:
        return f"RAISE {type(e).__name__}"


for value in (True, MyInt(3)):
    member = observe(int, value)
    all_scalar = observe(Union[int, str], value)
    mixed = observe(Union[int, List[str]], value)
    bad = mixed != member
    violation |= bad
    print(f"value {value!r}\n   encode as int:                  {member}\n"
          f"   encode as Union[int, str]:       {all_scalar}\n"
          f"   encode as Union[int, List[str]]: {mixed}"
          f"{'   <-- VIOLATION' if bad else ''}")

print("VIOLATION" if violation else "no violation")
