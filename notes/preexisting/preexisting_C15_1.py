# PRE-EXISTING (C15): "creating codecs never changes what an existing class does".
# A dataclass whose annotations are not resolvable yet when a codec with a
# default_dialect is created gets a lazy stub inside the codec; on first use that
# stub runs CodeBuilder(self.__class__, ..., default_dialect=<codec dialect>) WITHOUT
# the codec's attrs holder, i.e. it compiles to_dict/from_dict onto the class itself,
# with the codec's dialect baked in.
from dataclasses import dataclass
from datetime import date

import mashumaro
from mashumaro import DataClassDictMixin
from mashumaro.codecs import BasicDecoder, BasicEncoder
from mashumaro.dialect import Dialect


class Ordinal(Dialect):
    serialization_strategy = {
        date: {"serialize": date.toordinal, "deserialize": date.fromordinal}
    }


def scenario(with_codec: bool):
    @dataclass
    class D(DataClassDictMixin):
        x: "Later"

    if with_codec:
        enc = BasicEncoder(D, default_dialect=Ordinal)  # Later not resolvable yet
        dec = BasicDecoder(D, default_dialect=Ordinal)
    globals()["Later"] = date
    obj = D(date(2020, 1, 2))
    if with_codec:
        enc.encode(obj)  # first use of the codec
        dec.decode({"x": 737426})
    try:
        loaded = D.from_dict({"x": "2020-01-02"}).x
    except Exception as e:
        loaded = repr(e)
    try:
        return obj.to_dict(), loaded
    finally:
        del globals()["Later"]


print("mashumaro:", mashumaro.__file__)
expected = scenario(False)
observed = scenario(True)
print("expected (no codec in the history)         :", expected)
print("observed (codec created and used in between):", observed)
print("SAME" if expected == observed else "DIFFERENT -> property violated")
