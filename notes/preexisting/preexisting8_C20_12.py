"""ref_prefix="" and ref_prefix="/" are silently ignored: build_json_schema
strips the trailing "/" and on_dataclass then evaluates
`ctx.ref_prefix or ctx.dialect.definitions_root_pointer`, so the empty prefix
falls back to the dialect's pointer.  With ref_prefix="/" no emitted $ref
starts with the configured prefix (and "" cannot be used to get bare
"/Name"-style references).
"""
from dataclasses import dataclass

import mashumaro  # noqa: F401
from mashumaro.jsonschema import JSONSchemaBuilder, build_json_schema


@dataclass
class A:
    x: int = 0


violated = False
for prefix in ("/", "", "#/"):
    ref = build_json_schema(A, all_refs=True, ref_prefix=prefix).reference
    ref2 = (
        JSONSchemaBuilder(all_refs=True, ref_prefix=prefix).build(A).reference
    )
    expected = prefix.rstrip("/") + "/A"
    print(f"ref_prefix={prefix!r}: observed {ref!r} / {ref2!r}")
    if ref != expected or ref2 != expected or not ref.startswith(prefix):
        violated = True
        print(f"  expected {expected!r}")
print("VIOLATION" if violated else "ok")
