# A generic dataclass parameterised by ITSELF (G[G[date]]): the "is this the
# class being compiled right now" test in pack_dataclass/unpack_dataclass only
# compares the origin class, so the inner specialisation G[date] is taken for
# the method under construction and is never built.
#  * Out.to_dict()/from_dict fail ... until ANY other class with a G[date] field
#    is defined, then the very same calls succeed (history dependence);
#  * BasicEncoder(G[G[date]]) fails although the element codec G[date] works;
#  * Tuple[G[date], G[G[date]]] works, Tuple[G[G[date]], G[date]] does not.
from dataclasses import dataclass
from datetime import date
from typing import Generic, Tuple, TypeVar

import mashumaro  # noqa
from mashumaro import DataClassDictMixin
from mashumaro.codecs.basic import BasicEncoder

T = TypeVar("T")


@dataclass
class G(Generic[T]):
    v: T


@dataclass
class Out(DataClassDictMixin):
    f: G[G[date]]


def run(f):
    try:
        return f()
    except Exception as e:
        return f"{type(e).__name__}: {e}"[:110]


x = Out(G(G(date(2020, 1, 1))))
expected = {"f": {"v": {"v": "2020-01-01"}}}
before = run(x.to_dict)
codec = run(lambda: BasicEncoder(G[G[date]]).encode(x.f))
order1 = run(
    lambda: BasicEncoder(Tuple[G[G[date]], G[date]]).encode((x.f, x.f.v))
)
order2 = run(
    lambda: BasicEncoder(Tuple[G[date], G[G[date]]]).encode((x.f.v, x.f))
)


@dataclass
class Unrelated(DataClassDictMixin):
    g: G[date]


after = run(x.to_dict)
print("expected                         :", expected)
print("Out.to_dict(x) before 'Unrelated':", before)
print("Out.to_dict(x) after  'Unrelated':", after)
print("BasicEncoder(G[G[date]])         :", codec, " expected:", expected["f"])
print("Tuple[G[G[date]], G[date]]       :", order1)
print("Tuple[G[date], G[G[date]]]       :", order2)
if before != after or codec != expected["f"] or isinstance(order1, str):
    print("VIOLATION: result depends on history / composite != elementwise")
