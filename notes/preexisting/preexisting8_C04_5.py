"""Encoder objects pack an instance of a subclass with the field list of the
declared class, the mixin methods of the very same classes use the instance's
own class.  A hierarchy with a Config discriminator (which the Decoder objects
do support) therefore can't round trip through Encoder/Decoder objects."""
from dataclasses import dataclass
from typing import List, Literal

import mashumaro
from mashumaro.codecs.json import JSONDecoder, JSONEncoder
from mashumaro.codecs.msgpack import MessagePackDecoder, MessagePackEncoder
from mashumaro.config import BaseConfig
from mashumaro.mixins.json import DataClassJSONMixin
from mashumaro.mixins.msgpack import DataClassMessagePackMixin
from mashumaro.types import Discriminator


@dataclass
class Base(DataClassJSONMixin, DataClassMessagePackMixin):
    class Config(BaseConfig):
        discriminator = Discriminator(field="type", include_subtypes=True)


@dataclass
class V1(Base):
    type: Literal["v1"] = "v1"
    b: bytes = b""


@dataclass
class Holder(DataClassJSONMixin, DataClassMessagePackMixin):
    x: Base
    xs: List[Base]


h = Holder(V1(b=b"abc"), [V1(b=b"d")])
mixin_doc = h.to_json()
codec_doc = JSONEncoder(Holder).encode(h)
print("mixin document  :", mixin_doc)
print("encoder document:", codec_doc)
assert Holder.from_json(mixin_doc) == h
assert Holder.from_msgpack(h.to_msgpack()) == h
assert JSONDecoder(Holder).decode(mixin_doc) == h  # decoders are fine
violations = 0
for enc, dec in (
    (JSONEncoder(Holder), JSONDecoder(Holder)),
    (MessagePackEncoder(Holder), MessagePackDecoder(Holder)),
):
    try:
        got = dec.decode(enc.encode(h))
    except Exception as e:
        got = f"{type(e).__name__}: {e}"
    print("expected", h, "observed", got)
    if got != h:
        violations += 1
if mixin_doc != codec_doc:
    violations += 1
print("VIOLATION" if violations else "no violation", violations)
