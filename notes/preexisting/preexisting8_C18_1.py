# An Enum whose member value is a mutable container: to_dict returns the member's
# own value object, so mutating the result mutates the Enum member (and every
# object that refers to it); afterwards the original serialized form no longer
# deserializes.
import enum
from dataclasses import dataclass
from typing import List

import mashumaro
from mashumaro import DataClassDictMixin


class Shape(enum.Enum):
    PAIR = [1, 2]


@dataclass
class A(DataClassDictMixin):
    e: Shape
    es: List[Shape]


obj = A(Shape.PAIR, [Shape.PAIR])
d = obj.to_dict()
s1 = d["e"] is Shape.PAIR.value
s2 = d["es"][0] is Shape.PAIR.value
print("result['e'] is Shape.PAIR.value ->", s1, "(expected False)")
print("result['es'][0] is Shape.PAIR.value ->", s2, "(expected False)")
d["e"].append(3)
print("Shape.PAIR.value after mutating the result:", Shape.PAIR.value, "(expected [1, 2])")
try:
    A.from_dict({"e": [1, 2], "es": []})
    print("from_dict of the original form still works")
except Exception as e:
    print("from_dict of the original form now fails:", type(e).__name__)
if s1 or s2:
    print("VIOLATION")
