"""Annotation names a subclass of str / list / dict / set / tuple: the result
is an instance of the BASE class (a look-alike), and for a tuple subclass the
data is silently dropped.
"""
from dataclasses import dataclass

import mashumaro
from mashumaro import DataClassDictMixin


class MyStr(str): ...
class MyList(list): ...
class MyDict(dict): ...
class MySet(set): ...
class MyTuple(tuple): ...


@dataclass
class A(DataClassDictMixin):
    s: MyStr
    l: MyList
    d: MyDict
    e: MySet
    t: MyTuple


r = A.from_dict({"s": "a", "l": [1], "d": {"k": 1}, "e": [1], "t": [1, 2]})
print(r)
bad = False
for name, typ in A.__annotations__.items():
    v = getattr(r, name)
    ok = isinstance(v, typ)
    bad |= not ok
    print(f"{name}: annotated {typ.__name__}, got {type(v).__name__} {v!r}"
          f" -> {'ok' if ok else 'not an instance'}")
print("expected: instances of the annotated classes (or UnserializableField at"
      " build time); t should hold (1, 2)")
if bad:
    print("VIOLATION: look-alike base class returned"
          + ("; tuple subclass lost its items" if r.t == () else ""))
