"""Tags are matched by hash/equality of Python objects, so an input tagged
True (JSON true) or 1.0 is deserialized as the class whose tag is the int 1,
although no class carries such a tag."""
from dataclasses import dataclass

import mashumaro
from mashumaro import DataClassDictMixin
from mashumaro.config import BaseConfig
from mashumaro.types import Discriminator


@dataclass
class Base(DataClassDictMixin):
    class Config(BaseConfig):
        discriminator = Discriminator(field="type", include_subtypes=True)


@dataclass
class One(Base):
    type = 1


@dataclass
class StrOne(Base):
    type = "1"


violation = False
for tag in (True, 1.0):
    try:
        observed = repr(Base.from_dict({"type": tag}))
    except Exception as e:  # noqa
        observed = type(e).__name__
    print(f"tag {tag!r}: observed {observed}, "
          "expected SuitableVariantNotFoundError")
    violation |= observed != "SuitableVariantNotFoundError"
print("VIOLATION" if violation else "no violation")
