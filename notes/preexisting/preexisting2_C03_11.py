"""Pattern[bytes] is compiled from the str input as is, so the result is a
str pattern (re.Pattern[str]) although the annotation says bytes.
"""
import re
from typing import Pattern

import mashumaro
from mashumaro.codecs.basic import decode

p = decode("a+", Pattern[bytes])
print("decode('a+', Pattern[bytes]) ->", p, "pattern type:", type(p.pattern).__name__)
print("expected: re.compile(b'a+') (or an error)")
if isinstance(p.pattern, str):
    print("VIOLATION: Pattern[bytes] decoded to a str pattern")
