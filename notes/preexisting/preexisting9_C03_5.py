"""A field typed with a bound TypeVar is unpacked "as if it was
Optional[bound]": None is accepted and returned although the bound (int) does
not admit it, for the field itself and for container elements."""
from dataclasses import dataclass
from typing import Generic, List, TypeVar

import mashumaro  # noqa
from mashumaro import DataClassDictMixin

T = TypeVar("T", bound=int)


@dataclass
class B(DataClassDictMixin, Generic[T]):
    x: T
    y: List[T]


try:
    observed = B.from_dict({"x": None, "y": [None, "1"]})
except Exception as e:  # noqa
    observed = f"raised {type(e).__name__}"
print("observed", observed, "; expected a rejection (int(None) fails), "
      "as for a field annotated int")
if isinstance(observed, B):
    print("VIOLATION")
