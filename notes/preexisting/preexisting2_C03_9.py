"""datetime.timezone parser: the pattern is anchored with `$`, which also
matches before a trailing newline, so "UTC+03:00\\n" and "UTC\\n" are accepted
although the documented format is exactly UTC or UTC[+-]hh:mm.
"""
import datetime
from dataclasses import dataclass

import mashumaro
from mashumaro import DataClassDictMixin


@dataclass
class A(DataClassDictMixin):
    tz: datetime.timezone


bad = False
for s in ("UTC+03:00\n", "UTC\n"):
    try:
        print(repr(s), "->", A.from_dict({"tz": s}))
        bad = True
    except Exception as e:
        print(repr(s), "-> raised", type(e).__name__)
print("expected: InvalidFieldValue (like for 'UTC+03:00 ' or ' UTC')")
for s in ("UTC+03:00 ", " UTC"):
    try:
        print(repr(s), "->", A.from_dict({"tz": s}))
    except Exception as e:
        print(repr(s), "-> raised", type(e).__name__)
if bad:
    print("VIOLATION: trailing newline accepted by parse_timezone")
