"""A fixed-length tuple member accepts a longer input and silently drops the
surplus elements, so the union resolves to it and loses data although a later
member (tuple[str, ...] / list[int]) accepts the whole input."""
from typing import Union
import mashumaro
from mashumaro.codecs import BasicDecoder

bad = False
for U, v, exp in [
    (Union[tuple[int, int], tuple[str, ...]], ["1", "2", "3"], ("1", "2", "3")),
    (Union[tuple[int], list[int]], [1, 2, 3], [1, 2, 3]),
]:
    got = BasicDecoder(U).decode(v)
    print("decode", U, v, "->", got, " expected", exp)
    bad = bad or got != exp
print("VIOLATION" if bad else "ok")
