"""Pre-existing bug 1: two different variant_tagger_fn on fields of the SAME
class collide.

The generated code imports the tagger under the fixed global name
"variant_tagger_fn" with globals.setdefault(...), so within one class (one
CodeBuilder) the second field silently uses the FIRST field's tagger.
"""

from dataclasses import dataclass
from typing import Annotated

import mashumaro  # noqa: F401
from mashumaro import DataClassDictMixin
from mashumaro.types import Discriminator


@dataclass
class P:
    pass


@dataclass
class P1(P):
    pass


@dataclass
class Q:
    pass


@dataclass
class Q1(Q):
    pass


@dataclass
class H(DataClassDictMixin):
    # tags of P's subclasses are lower-case class names
    x: Annotated[
        P,
        Discriminator(
            field="t",
            include_subtypes=True,
            variant_tagger_fn=lambda c: c.__name__.lower(),
        ),
    ]
    # tags of Q's subclasses are UPPER-case class names
    y: Annotated[
        Q,
        Discriminator(
            field="t",
            include_subtypes=True,
            variant_tagger_fn=lambda c: c.__name__.upper(),
        ),
    ]


def run(label, data):
    try:
        result = H.from_dict(data)
        print(f"{label}: returned {result!r}")
    except Exception as e:  # noqa: BLE001
        print(f"{label}: raised {type(e).__name__}: {e}")


print("expected: H(x=P1(), y=Q1())")
run("observed", {"x": {"t": "p1"}, "y": {"t": "Q1"}})

print()
print("expected: an error (tag 'q1' is not a tag of field y, whose tagger is upper-case)")
run("observed", {"x": {"t": "p1"}, "y": {"t": "q1"}})
