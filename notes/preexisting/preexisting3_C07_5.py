"""A subclass that is not decorated with @dataclass has no fields of its own,
its annotated attributes are not constructor parameters.  from_dict still
reads them from the input and passes them to the inherited constructor."""
from dataclasses import dataclass, fields

import mashumaro
from mashumaro import DataClassDictMixin


@dataclass
class A(DataClassDictMixin):
    x: int = 1


class B(A):  # not decorated
    y: int = 2


print("dataclass fields of B:", [f.name for f in fields(B)])
expected = B(x=5)
try:
    observed = B.from_dict({"x": 5, "y": 9})
except Exception as e:
    observed = e
print(f"observed {observed!r}, expected {expected!r}")
if observed != expected:
    print("VIOLATION")
