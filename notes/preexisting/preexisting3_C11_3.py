"""The call expression remembered for a recursive union includes the
expression of the place where the union was FIRST met.  When that place is an
indexed position (fixed tuple slot, NamedTuple field, TypedDict value) the
recursive reference re-applies the index (`union(value[1])` instead of
`union(value)`) at every inner level."""
import datetime
from typing import NamedTuple
import mashumaro
from mashumaro.codecs import BasicDecoder, BasicEncoder

type J = datetime.date | list[J]
D1, D2, D3 = (datetime.date(2020, 1, d) for d in (1, 2, 3))
bad = False

inner = ["2020-01-01", "2020-01-02", "2020-01-03"]
exp = (1, BasicDecoder(J).decode(inner))
try:
    got = BasicDecoder(tuple[int, J]).decode([1, inner])
except Exception as e:
    got = f"raised {type(e).__name__}({e})"
print("decode tuple[int, J]", [1, inner], "->", got, " expected", exp)
bad = bad or got != exp

val = [D1, D2, D3]
exp = [1, BasicEncoder(J).encode(val)]
try:
    got = BasicEncoder(tuple[int, J]).encode((1, val))
except Exception as e:
    got = f"raised {type(e).__name__}({e})"
print("encode tuple[int, J]", (1, val), "->", got, " expected", exp)
bad = bad or got != exp


class NT(NamedTuple):
    a: int
    b: J


try:
    got = BasicDecoder(NT).decode([1, inner])
except Exception as e:
    got = f"raised {type(e).__name__}({e})"
exp = NT(1, [D1, D2, D3])
print("decode NamedTuple(a:int, b:J)", [1, inner], "->", got, " expected", exp)
bad = bad or got != exp
print("VIOLATION" if bad else "ok")
