# A member declared with init=False is written by to_dict but skipped by from_dict, so a
# value it received after construction is lost.
import mashumaro
from dataclasses import dataclass, field
from mashumaro import DataClassDictMixin


@dataclass
class C(DataClassDictMixin):
    a: int
    b: int = field(init=False, default=0)


c = C(1)
c.b = 5
wire = c.to_dict()
got = C.from_dict(wire)
print(f"wire {wire!r}: observed {got!r}, expected {c!r}")
print("VIOLATION" if got != c else "not reproduced")
