"""TOML: a required Optional field holding None is omitted by to_toml and then
reported missing by from_toml (TOMLEncoder/TOMLDecoder alike)."""
from dataclasses import dataclass
from typing import Optional

import mashumaro  # noqa
from mashumaro.codecs.toml import TOMLDecoder, TOMLEncoder
from mashumaro.mixins.toml import DataClassTOMLMixin


@dataclass
class T(DataClassTOMLMixin):
    a: int
    b: Optional[int]


v = T(1, None)
doc = v.to_toml()
print("document:", repr(doc))
for label, fn in (("mixin", lambda: T.from_toml(doc)),
                  ("codec", lambda: TOMLDecoder(T).decode(TOMLEncoder(T).encode(v)))):
    try:
        print(label, "decoded:", fn(), "(expected", v, ")")
    except Exception as e:
        print(label, "raised", type(e).__name__, e, "(expected", v, ")")
