"""A bare TypeVar field of a generic dataclass, specialised with a LOCAL class:
get_type_name_identifier() registers the *unsubstituted* TypeVar under the
alias of the resolved local class, so the generated from_dict calls the
TypeVar instead of the class (AttributeError / TypeError on the main path)."""
import enum
from dataclasses import dataclass
from typing import Generic, TypeVar

import mashumaro
from mashumaro import DataClassDictMixin

T = TypeVar("T")


@dataclass
class Box(DataClassDictMixin, Generic[T]):
    item: T


def main():
    @dataclass
    class Item(DataClassDictMixin):
        a: int

    class Kind(enum.Enum):
        X = 1

    @dataclass
    class H1(DataClassDictMixin):
        box: Box[Item]

    @dataclass
    class H2(DataClassDictMixin):
        box: Box[Kind]

    violated = False
    for holder, doc, expected in (
        (H1, {"box": {"item": {"a": 1}}}, "H1(box=Box(item=Item(a=1)))"),
        (H2, {"box": {"item": 1}}, "H2(box=Box(item=<Kind.X: 1>))"),
    ):
        try:
            observed = repr(holder.from_dict(doc))
        except Exception as e:
            cause = e
            while cause.__context__ is not None:
                cause = cause.__context__
            observed = f"{type(e).__name__} <- {type(cause).__name__}: {cause}"
            violated = True
        print("expected:", expected)
        print("observed:", observed)
    if violated:
        print("VIOLATION")


main()
