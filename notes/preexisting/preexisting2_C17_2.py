"""A user module whose name equals a parameter / local variable of the
generated function (`dialect`, `value`, ...) is shadowed inside that function:
the type is rendered as `<module>.<Class>` and the lookup hits the local."""
import sys
import types
from dataclasses import dataclass

import mashumaro
from mashumaro import DataClassDictMixin

SRC = """
import enum
from mashumaro.types import SerializableType

class Money(SerializableType):
    def __init__(self, v): self.v = v
    def __eq__(self, o): return type(o) is type(self) and o.v == self.v
    def __repr__(self): return f"Money({self.v})"
    def _serialize(self): return self.v
    @classmethod
    def _deserialize(cls, value): return cls(value)

class Kind(enum.Enum):
    A = "a"
"""

violated = False
for modname in ("dialect", "value", "cls"):
    mod = types.ModuleType(modname)
    sys.modules[modname] = mod  # importable by name, like a file <modname>.py
    exec(SRC, mod.__dict__)

    @dataclass
    class A(DataClassDictMixin):
        m: mod.Money
        k: mod.Kind

    try:
        observed = repr(A.from_dict({"m": 1, "k": "a"}))
    except Exception as e:
        cause = e
        while cause.__context__ is not None:
            cause = cause.__context__
        observed = f"{type(e).__name__} <- {type(cause).__name__}: {cause}"
        violated = True
    print(f"module {modname!r}: expected A(m=Money(1), k=<Kind.A: 'a'>)")
    print(f"module {modname!r}: observed {observed}")
if violated:
    print("VIOLATION")
