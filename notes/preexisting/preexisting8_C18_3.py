# Generic NamedTuple / TypedDict: only a member annotated with the bare type variable
# is specialised (resolved.get(v, v)); a type variable nested in a member annotation
# (List[T]) stays free (= Any), so the elements are neither converted nor copied.
from dataclasses import dataclass
from datetime import date
from typing import Generic, List, NamedTuple, TypedDict, TypeVar

import mashumaro
from mashumaro import DataClassDictMixin

T = TypeVar("T")


class GN(NamedTuple, Generic[T]):
    x: T
    xs: List[T]


class GT(TypedDict, Generic[T]):
    x: T
    xs: List[T]


@dataclass
class A(DataClassDictMixin):
    p: GN[List[int]]
    q: GT[List[int]]


@dataclass
class D(DataClassDictMixin):
    p: GN[date]


a = A(GN([1], [[2]]), {"x": [1], "xs": [[2]]})
r = a.to_dict()
e1 = r["p"][1][0] is a.p.xs[0]
e2 = r["q"]["xs"][0] is a.q["xs"][0]
print("encode NamedTuple: result['p'][1][0] is obj.p.xs[0] ->", e1, "(expected False)")
print("encode TypedDict : result['q']['xs'][0] is obj.q['xs'][0] ->", e2, "(expected False)")
src = {"p": [[1], [[2]]], "q": {"x": [1], "xs": [[2]]}}
b = A.from_dict(src)
d1 = b.p.xs[0] is src["p"][1][0]
d2 = b.q["xs"][0] is src["q"]["xs"][0]
print("decode NamedTuple: obj.p.xs[0] is input['p'][1][0] ->", d1, "(expected False)")
print("decode TypedDict : obj.q['xs'][0] is input['q']['xs'][0] ->", d2, "(expected False)")
print("conversion:", D(GN(date(2020, 1, 1), [date(2020, 1, 1)])).to_dict(),
      "(expected both dates as strings)")
if e1 or e2 or d1 or d2:
    print("VIOLATION")
