# Config-based discriminator (by field): an unhashable tag value
# ({"kind": []} or {"kind": {}}) escapes as TypeError("unhashable type")
# from the registry lookup instead of SuitableVariantNotFoundError.
from dataclasses import dataclass
import mashumaro
from mashumaro import DataClassDictMixin
from mashumaro.config import BaseConfig
from mashumaro.types import Discriminator
from mashumaro.exceptions import SuitableVariantNotFoundError

@dataclass
class Shape(DataClassDictMixin):
    class Config(BaseConfig):
        discriminator = Discriminator(field="kind", include_subtypes=True)

@dataclass
class Circle(Shape):
    radius: int = 0
    kind: str = "circle"

bad = False
for tag in ([], {}, ["circle"]):
    try:
        r = Shape.from_dict({"kind": tag})
        print(f"tag {tag!r} observed: returned {r!r}")
    except SuitableVariantNotFoundError:
        print(f"tag {tag!r} observed: SuitableVariantNotFoundError; as expected")
    except Exception as e:
        print(f"tag {tag!r} observed: {type(e).__name__}: {e}; expected: SuitableVariantNotFoundError")
        bad = True
if bad:
    print("VIOLATION")
