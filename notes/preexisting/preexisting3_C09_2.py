"""forbid_extra_keys accepts only the NEAREST class-level discriminator field.

With two levels of class-level discriminators (Base dispatches on "kind",
Middle on "sub"), a Leaf reached through Base.from_dict rejects the very key
Base used to select it, so a Leaf can never be loaded through Base.
get_discriminator(look_in_parents=True) returns the first discriminator found
in the MRO instead of collecting the fields of all of them.
"""
from dataclasses import dataclass

import mashumaro  # noqa
from mashumaro import DataClassDictMixin
from mashumaro.config import BaseConfig
from mashumaro.exceptions import ExtraKeysError
from mashumaro.types import Discriminator


@dataclass
class Base(DataClassDictMixin):
    class Config(BaseConfig):
        discriminator = Discriminator(field="kind", include_subtypes=True)
        forbid_extra_keys = True


@dataclass
class Middle(Base):
    kind = "middle"

    class Config(BaseConfig):
        discriminator = Discriminator(field="sub", include_subtypes=True)
        forbid_extra_keys = True


@dataclass
class Leaf(Middle):
    kind = "leaf"
    sub = "leaf"
    x: int = 0


violation = False
for data in ({"kind": "leaf", "x": 1}, {"kind": "leaf", "sub": "leaf", "x": 1}):
    try:
        observed = Base.from_dict(data)
    except ExtraKeysError as e:
        observed = ("ExtraKeysError", sorted(e.extra_keys))
    expected = Leaf(x=1)
    print(data, ": observed", observed, "expected", expected)
    violation |= observed != expected

# through Middle the same class works, its own discriminator key is accepted
print("via Middle:", Middle.from_dict({"sub": "leaf", "x": 1}))
print("VIOLATION" if violation else "no violation")
