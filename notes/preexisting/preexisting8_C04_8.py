"""(Outside the codec property proper, found on the way.)  A NamedTuple
declared under `from __future__ import annotations` with a non-builtin field
type can't be used with any codec: its string annotations are evaluated
without the NamedTuple's module namespace (ValueSpec.owner is never set for
named tuples, unlike for TypedDict)."""
from __future__ import annotations

from datetime import datetime
from typing import NamedTuple

import mashumaro
from mashumaro.codecs.json import JSONEncoder


class NT(NamedTuple):
    b: bytes
    dt: datetime


try:
    print(JSONEncoder(NT).encode(NT(b"1", datetime(2020, 1, 1))))
    print("no violation")
except Exception as e:
    print("expected a JSON document, observed", type(e).__name__, e)
    print("VIOLATION")
