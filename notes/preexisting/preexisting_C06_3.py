# a field with init=False is serialized but is not a schema property (additionalProperties is false)
import sys; sys.path.insert(0, "/tmp")
import mashumaro
from dataclasses import dataclass, field
from mashumaro import DataClassDictMixin
from preexisting_C06_common import report
@dataclass
class I(DataClassDictMixin):
    a: int
    b: int = field(init=False, default=3)
report("init=False field", I, I(1))
