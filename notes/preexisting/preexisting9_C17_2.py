"""A local PEP 695 alias and a local NewType have no '<locals>' in their name,
so they are pasted as `module.Name` and the error paths cannot run."""
from dataclasses import dataclass
from typing import NewType

import mashumaro
from mashumaro import DataClassDictMixin

print("mashumaro from", mashumaro.__file__)


def make():
    type Num = int
    UserId = NewType("UserId", int)

    @dataclass
    class A(DataClassDictMixin):
        x: Num

    @dataclass
    class B(DataClassDictMixin):
        x: UserId

    return A, B


A, B = make()
violations = 0
for label, fn in (
    ("local `type Num = int`, missing field", lambda: A.from_dict({})),
    ("local `type Num = int`, bad value", lambda: A.from_dict({"x": "a"})),
    ("local NewType, missing field", lambda: B.from_dict({})),
    ("local NewType, bad value", lambda: B.from_dict({"x": "a"})),
):
    try:
        observed = repr(fn())
    except (NameError, AttributeError) as e:
        observed = f"{type(e).__name__}: {e}"
        violations += 1
    except Exception as e:
        observed = type(e).__name__
    print(f"{label}: observed {observed}; expected MissingField / InvalidFieldValue")
if violations:
    print("VIOLATION")
