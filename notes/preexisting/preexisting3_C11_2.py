"""A union whose members are all pass-through (int | str) occupies the
per-field packer/unpacker slot although no method is compiled for it (pack) /
with its own method (unpack).  A recursive union later in the same field
binds its recursive reference to that slot: valid values are rejected on
encode and mis-decoded on decode."""
import datetime
import mashumaro
from mashumaro.codecs import BasicDecoder, BasicEncoder

type J = datetime.date | list[J]
D = datetime.date(2020, 1, 1)
bad = False

ref_e = BasicEncoder(J)
enc = BasicEncoder(tuple[int | str, J])
for v in [D, [D], [[D]]]:
    exp = [1, ref_e.encode(v)]
    try:
        got = enc.encode((1, v))
    except Exception as e:
        got = f"raised {type(e).__name__}({e})"
    print("encode (1,", v, ") ->", got, " expected", exp)
    bad = bad or got != exp

ref_d = BasicDecoder(J)
dec = BasicDecoder(tuple[int | str, J])
for v in ["2020-01-01", ["2020-01-01"], [["2020-01-01"]]]:
    exp = (1, ref_d.decode(v))
    try:
        got = dec.decode([1, v])
    except Exception as e:
        got = f"raised {type(e).__name__}({e})"
    print("decode [1,", v, "] ->", got, " expected", exp)
    bad = bad or got != exp
print("VIOLATION" if bad else "ok")
