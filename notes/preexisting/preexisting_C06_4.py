# a field of a nested generic dataclass is resolved with the type parameters of the *outer* class
# when the outer class has a field of the same name
import sys; sys.path.insert(0, "/tmp")
import mashumaro
from dataclasses import dataclass
from typing import Generic, TypeVar
from mashumaro import DataClassDictMixin
from preexisting_C06_common import report
T = TypeVar("T")
@dataclass
class G(DataClassDictMixin, Generic[T]):
    x: T
@dataclass
class O(DataClassDictMixin, Generic[T]):
    x: T
    g: G[str]
report("O[int].g is G[str] but g.x gets {'type': 'integer'}", O[int], O(1, G("s")))
