"""A forward reference inside a NamedTuple cannot be resolved (the reference
is evaluated without the NamedTuple as owner, unlike TypedDict members), so a
decoder for a perfectly ordinary schema cannot be built / valid input cannot be
decoded.  Mutually recursive union aliases never finish compiling either."""
from dataclasses import dataclass
from typing import NamedTuple, TypedDict

import mashumaro  # noqa
from mashumaro.codecs.basic import decode


class NT(NamedTuple):
    a: int
    b: "Other"


class TD(TypedDict):
    a: int
    b: "Other"


@dataclass
class Other:
    z: int


bad = 0
print("control TypedDict:", decode({"a": 1, "b": {"z": "2"}}, TD))
try:
    observed = decode([1, {"z": "2"}], NT)
except Exception as e:  # noqa
    observed = f"raised {type(e).__name__}: {e}"
print("NamedTuple: observed", observed, "expected", NT(1, Other(2)))
bad += observed != NT(1, Other(2))

type A = int | list[B]
type B = str | list[A]
try:
    observed = decode([[1]], A)
except RecursionError as e:
    observed = f"raised {type(e).__name__}"
print("mutually recursive aliases: observed", observed, "expected [[1]]")
bad += observed != [[1]]
if bad:
    print("VIOLATION")
