"""NamedTuple with defaults, deserialized from a dict (namedtuple_as_dict /
deserialize="as_dict"): a missing key does not select the default.

The generated code guards `item = value[key]` with `except IndexError`, but a
dict raises KeyError, so the defaults only ever work for the list form.
"""
from dataclasses import dataclass
from typing import NamedTuple

import mashumaro
from mashumaro import DataClassDictMixin
from mashumaro.config import BaseConfig


class NT(NamedTuple):
    a: int
    b: int = 5


@dataclass
class AsList(DataClassDictMixin):
    x: NT


@dataclass
class AsDict(DataClassDictMixin):
    x: NT

    class Config(BaseConfig):
        namedtuple_as_dict = True


print("list form, item missing ->", AsList.from_dict({"x": [1]}))
try:
    print("dict form, key missing  ->", AsDict.from_dict({"x": {"a": 1}}))
except Exception as e:
    print("dict form, key missing  -> raised", type(e).__name__, e)
    print("expected: AsDict(x=NT(a=1, b=5))")
    print("VIOLATION: NamedTuple default not applied for a missing dict key")
