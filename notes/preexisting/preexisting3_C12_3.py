"""Nested Config discriminators with forbid_extra_keys: only the tag key of the
NEAREST discriminator is allowed, so the outer tag key makes the leaf class
reject an input that carries both (correct) tags."""
from dataclasses import dataclass

import mashumaro
from mashumaro import DataClassDictMixin
from mashumaro.config import BaseConfig
from mashumaro.types import Discriminator


@dataclass
class Base(DataClassDictMixin):
    class Config(BaseConfig):
        forbid_extra_keys = True
        discriminator = Discriminator(field="type", include_subtypes=True)


@dataclass
class Mid(Base):
    type = "mid"

    class Config(BaseConfig):
        forbid_extra_keys = True
        discriminator = Discriminator(field="kind", include_subtypes=True)


@dataclass
class Leaf(Mid):
    kind = "leaf"
    y: int = 0


try:
    observed = repr(Base.from_dict({"type": "mid", "kind": "leaf", "y": 1}))
except Exception as e:  # noqa
    observed = f"{type(e).__name__}: {e}"
print("observed:", observed)
print("expected: Leaf(y=1)")
print("control, Mid.from_dict without the outer tag:",
      Mid.from_dict({"kind": "leaf", "y": 1}))
print("VIOLATION" if observed != "Leaf(y=1)" else "no violation")
