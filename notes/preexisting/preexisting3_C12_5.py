"""A sibling variant that cannot be compiled aborts the rescan of the
hierarchy. The first input of a perfectly valid class fails with an error
about ANOTHER class, the same input succeeds when repeated, and a class defined
later (after the broken one) can never be reached."""
from dataclasses import dataclass
from typing import Annotated

import mashumaro
from mashumaro.codecs import BasicDecoder
from mashumaro.types import Discriminator


@dataclass
class Base:
    pass


decoder = BasicDecoder(
    Annotated[Base, Discriminator(field="type", include_subtypes=True)]
)


@dataclass
class B(Base):
    type = "b"
    x: int = 0


class Weird:
    pass


@dataclass
class Broken(Base):
    type = "broken"
    w: Weird = None


def observe(data):
    try:
        return repr(decoder.decode(data))
    except Exception as e:  # noqa
        return f"{type(e).__name__}: {e}"


first = observe({"type": "b", "x": 1})
second = observe({"type": "b", "x": 1})
print("first  'b':", first)
print("second 'b':", second)
print("expected both: B(x=1)")


@dataclass
class C(Base):
    type = "c"
    x: int = 0


third = observe({"type": "c", "x": 1})
print("'c' (defined later):", third, "| expected C(x=1)")
print(
    "VIOLATION"
    if first != "B(x=1)" or third != "C(x=1)"
    else "no violation"
)
