# Flag / IntFlag: a combination of members is a conforming value but is not in the schema's enum
import sys; sys.path.insert(0, "/tmp")
import mashumaro
from dataclasses import dataclass
from enum import IntFlag
from mashumaro import DataClassDictMixin
from preexisting_C06_common import report
class P(IntFlag):
    R = 1
    W = 2
@dataclass
class F(DataClassDictMixin):
    p: P
report("IntFlag combination", F, F(P.R | P.W))
