"""A context is forwarded to a nested class only when BOTH the holder and the
nested class opted in, so an opted-in class below a class that did not opt in
never sees the context (Top[ctx] -> Middle[no ctx] -> Bottom[ctx])."""
from dataclasses import dataclass
from typing import Any, Optional

import mashumaro
from mashumaro import DataClassDictMixin
from mashumaro.config import ADD_SERIALIZATION_CONTEXT, BaseConfig

SEEN = []


@dataclass
class Bottom(DataClassDictMixin):
    n: int

    class Config(BaseConfig):
        code_generation_options = [ADD_SERIALIZATION_CONTEXT]

    def __post_serialize__(self, d, context: Optional[Any] = None):
        SEEN.append(("bottom", context))
        return d


@dataclass
class Middle(DataClassDictMixin):
    bottom: Bottom


@dataclass
class Top(DataClassDictMixin):
    middle: Middle

    class Config(BaseConfig):
        code_generation_options = [ADD_SERIALIZATION_CONTEXT]

    def __post_serialize__(self, d, context: Optional[Any] = None):
        SEEN.append(("top", context))
        return d


ctx = {"k": 1}
Top(Middle(Bottom(1))).to_dict(context=ctx)
expected = [("bottom", ctx), ("top", ctx)]
print("mashumaro:", mashumaro.__file__)
print("observed:", SEEN)
print("expected:", expected)
print("OK" if SEEN == expected else "VIOLATION: context did not reach an opted-in nested class")
