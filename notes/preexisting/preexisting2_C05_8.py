# Fixed-length tuples and NamedTuples silently drop surplus items (only the
# declared indexes are read) and index into anything subscriptable: invalid
# data is accepted and part of it silently discarded.
from dataclasses import dataclass
from typing import NamedTuple, Tuple
import mashumaro
from mashumaro import DataClassDictMixin

class Point(NamedTuple):
    a: int
    b: int

@dataclass
class C(DataClassDictMixin):
    t: Tuple[int, int]
    p: Point

bad = False
for label, d in (
    ("surplus items", {"t": [1, 2, 3, "junk"], "p": [1, 2, 3]}),
    ("mapping with int keys", {"t": {0: 1, 1: 2, "zz": 3}, "p": [1, 2]}),
    ("digit string", {"t": "12junk", "p": "34!"}),
):
    try:
        r = C.from_dict(d)
        print(f"{label}: observed returned {r!r}; expected InvalidFieldValue('t', ...)")
        bad = True
    except Exception as e:
        print(f"{label}: observed {type(e).__name__}")
if bad:
    print("VIOLATION")
