"""A class created in a namespace whose __name__ is not a module in
sys.modules (exec of a plugin / notebook cell): add_type_modules skips it and
the generated code says `ghost.Shade`."""
from dataclasses import dataclass

import mashumaro
from mashumaro import DataClassDictMixin

print("mashumaro from", mashumaro.__file__)
ns = {"__name__": "ghost"}
exec("import enum\nclass Shade(enum.Enum):\n    DARK = 1\n", ns)
Shade = ns["Shade"]


@dataclass
class H(DataClassDictMixin):
    x: Shade


violations = 0
for label, fn, expected in (
    ("valid input", lambda: H.from_dict({"x": 1}), "H(x=<Shade.DARK: 1>)"),
    ("missing field", lambda: H.from_dict({}), "MissingField"),
):
    try:
        observed = repr(fn())
    except (NameError, AttributeError) as e:
        observed = f"{type(e).__name__}: {e}"
        violations += 1
    except Exception as e:
        observed = type(e).__name__
    print(f"{label}: observed {observed}; expected {expected}")
if violations:
    print("VIOLATION")
