"""YAML: the default encoder is yaml.dump with the full (unsafe) Dumper while
the default decoder is the safe loader.  The basic form keeps the instance's
own mapping class for a plain Dict[K, V] field (`value.copy()`), so an
OrderedDict / defaultdict held by such a field is written with a
`!!python/object/apply:` tag that the decoder refuses.  Every other format
round trips the same value."""
from collections import OrderedDict, defaultdict
from dataclasses import dataclass
from typing import Dict

import mashumaro
from mashumaro.codecs.yaml import YAMLDecoder, YAMLEncoder
from mashumaro.mixins.json import DataClassJSONMixin
from mashumaro.mixins.msgpack import DataClassMessagePackMixin
from mashumaro.mixins.yaml import DataClassYAMLMixin


@dataclass
class Doc(DataClassYAMLMixin, DataClassJSONMixin, DataClassMessagePackMixin):
    x: Dict[str, int]


violations = 0
for mapping in (OrderedDict(a=1), defaultdict(int, a=1)):
    value = Doc(mapping)
    assert Doc.from_dict(value.to_dict()) == value
    assert Doc.from_json(value.to_json()) == value
    assert Doc.from_msgpack(value.to_msgpack()) == value
    doc = value.to_yaml()
    print("document:", repr(doc))
    for fn in (
        lambda: Doc.from_yaml(doc),
        lambda: YAMLDecoder(Doc).decode(YAMLEncoder(Doc).encode(value)),
    ):
        try:
            got = fn()
        except Exception as e:
            got = f"{type(e).__name__}: {str(e)[:90]}"
        print("   expected", value, "observed", got)
        if got != value:
            violations += 1
print("VIOLATION" if violations else "no violation", violations)
