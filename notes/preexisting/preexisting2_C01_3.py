# Type variables of a generic NamedTuple / TypedDict that occur inside a composite
# annotation (List[T]) are not substituted by the tuple's own arguments; they are then
# resolved against the type parameters of the *holder* dataclass when it happens to use
# the same TypeVar object.  NT[int].x: List[T] inside H[date] is packed as List[date].
import mashumaro
from dataclasses import dataclass
from datetime import date
from typing import Generic, List, NamedTuple, TypedDict, TypeVar
from mashumaro import DataClassDictMixin

T = TypeVar("T")


class NT(NamedTuple, Generic[T]):
    x: List[T]


class TD(TypedDict, Generic[T]):
    x: List[T]


@dataclass
class H(Generic[T], DataClassDictMixin):
    a: NT[int]
    b: T


@dataclass
class H2(Generic[T], DataClassDictMixin):
    a: TD[int]
    b: T


@dataclass
class HH(DataClassDictMixin):
    h: H[date]


@dataclass
class HH2(DataClassDictMixin):
    h: H2[date]


hit = False
for obj in (HH(H(NT([1]), date(2020, 1, 1))), HH2(H2({"x": [1]}, date(2020, 1, 1)))):
    try:
        got = type(obj).from_dict(obj.to_dict())
    except Exception as e:
        got = f"{type(e).__name__}: {e}"
    bad = got != obj
    hit |= bad
    print(f"observed {got!r}\nexpected {obj!r}{'  <-- VIOLATION' if bad else ''}")
print("VIOLATION" if hit else "not reproduced")
