# A generic subclass that passes its type variables to the parent in swapped order
# (class Swapped(Pair[V, K], Generic[K, V])) cannot even be defined: the resolved type
# parameters map K -> V and V -> K and type_name() follows the chain forever.
import mashumaro
from dataclasses import dataclass
from datetime import date
from typing import Generic, TypeVar
from mashumaro import DataClassDictMixin

K = TypeVar("K")
V = TypeVar("V")


@dataclass
class Pair(Generic[K, V], DataClassDictMixin):
    k: K
    v: V


try:
    @dataclass
    class Swapped(Pair[V, K], Generic[K, V]):
        pass

    @dataclass
    class Holder(DataClassDictMixin):
        s: Swapped[int, date]

    obj = Holder(Swapped(date(2020, 1, 1), 1))
    got = Holder.from_dict(obj.to_dict())
    print("observed", got, "expected", obj)
    print("VIOLATION" if got != obj else "not reproduced")
except RecursionError as e:
    print("observed RecursionError while defining Swapped(Pair[V, K], Generic[K, V]):", str(e)[:60])
    print("expected: class is built and Holder(Swapped(date, 1)) round trips")
    print("VIOLATION")
