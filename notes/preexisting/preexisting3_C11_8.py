"""Literal with an IntEnum member: serializing the plain int that equals the
member passes the `value == Enum.member` guard and then fails with an
AttributeError ('int' object has no attribute 'value') instead of either
being encoded or rejected with the documented error."""
import enum
from dataclasses import dataclass
from typing import Literal
import mashumaro
from mashumaro import DataClassDictMixin
from mashumaro.codecs import BasicEncoder


class IE(enum.IntEnum):
    X = 1


L = Literal[IE.X, 2]
bad = False
try:
    got = BasicEncoder(L).encode(1)
except (ValueError,) as e:
    got = f"raised {type(e).__name__}"
except Exception as e:
    got = f"raised {type(e).__name__}({e})"
    bad = True
print("encode", L, 1, "->", got, " expected: 1 or ValueError")


@dataclass
class DC(DataClassDictMixin):
    x: Literal[IE.X, 2]


try:
    got = DC(1).to_dict()
except Exception as e:
    got = f"raised {type(e).__name__}({e})"
    bad = bad or type(e).__name__ != "InvalidFieldValue"
print("DC(1).to_dict() ->", got, " expected: {'x': 1} or InvalidFieldValue")
print("VIOLATION" if bad else "ok")
