"""A recursive union alias used inside ANOTHER union of the same field:
the recursive reference is bound to the outer union's method (the single
per-field slot field_ctx.unpacker / field_ctx.packer), so inner levels are
decoded/encoded with the wrong union."""
import mashumaro
from mashumaro.codecs import BasicDecoder, BasicEncoder

type A = str | list[A]

data = [["x", 5]]
expected = BasicDecoder(list[A]).decode(data)  # [['x', '5']] : 5 -> '5', 'x' stays
got = BasicDecoder(int | list[A]).decode(data)
print("decode  int | list[A]  ", data, "->", got, " expected", expected)
bad = got != expected

value = [["x", "y"]]
exp_enc = BasicEncoder(list[A]).encode(value)  # unchanged
got_enc = BasicEncoder(int | list[A]).encode(value)
print("encode  int | list[A]  ", value, "->", got_enc, " expected", exp_enc)
bad = bad or got_enc != exp_enc
print("VIOLATION" if bad else "ok")
