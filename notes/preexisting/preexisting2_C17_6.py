"""Three sites splice type_name() straight into the code instead of
get_type_name_identifier(): the type arguments of a GenericSerializableType
(unpack and pack) and the default factory of a DefaultDict.  With a local class
the generated source contains `<locals>` and does not compile."""
from dataclasses import dataclass
from typing import DefaultDict, Generic, TypeVar

import mashumaro
from mashumaro import DataClassDictMixin
from mashumaro.types import GenericSerializableType

T = TypeVar("T")


class GS(Generic[T], GenericSerializableType):
    def __init__(self, v, types=None):
        self.v, self.types = v, types

    def _serialize(self, types):
        return self.v

    @classmethod
    def _deserialize(cls, value, types):
        return cls(value, types)


violated = False


def check(label, make):
    global violated
    try:
        cls, doc = make()
        obj = cls.from_dict(doc)
        observed = f"{obj!r} / {obj.to_dict()!r}"
    except Exception as e:
        observed = f"{type(e).__name__}: {e}"
        violated = True
    print(f"{label}: expected a class that round-trips; observed {observed}")


def gs_local():
    class Local:
        pass

    @dataclass
    class A(DataClassDictMixin):
        x: GS[Local]

    return A, {"x": 1}


def defaultdict_local():
    @dataclass
    class Item(DataClassDictMixin):
        a: int = 0

    @dataclass
    class A(DataClassDictMixin):
        x: DefaultDict[str, Item]

    return A, {"x": {"k": {"a": 1}}}


check("GenericSerializableType[Local]", gs_local)
check("DefaultDict[str, LocalDataclass]", defaultdict_local)
if violated:
    print("VIOLATION")
