"""Literal members are compared with ``==`` in declaration order and the first
*equal* member is returned, so a value that is itself a member of the Literal
comes back as a different (equal but differently typed) member."""
from dataclasses import dataclass
from typing import Literal

import mashumaro  # noqa
from mashumaro import DataClassDictMixin


@dataclass
class A(DataClassDictMixin):
    a: Literal[0, False]
    b: Literal[1, True]


obj = A.from_dict({"a": False, "b": True})
print("a: observed", repr(obj.a), "expected False")
print("b: observed", repr(obj.b), "expected True")
if obj.a is not False or obj.b is not True:
    print("VIOLATION")
