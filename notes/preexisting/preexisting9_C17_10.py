"""The type arguments handed to GenericSerializableType._deserialize /
_serialize are pasted with type_name(), not with an identity alias: a local
class gives `mod.f.<locals>.Loc`, which is not even an expression."""
from dataclasses import dataclass
from typing import Generic, TypeVar

import mashumaro
from mashumaro import DataClassDictMixin
from mashumaro.types import GenericSerializableType

print("mashumaro from", mashumaro.__file__)
T = TypeVar("T")


class Box(Generic[T], GenericSerializableType):
    def __init__(self, v, types=None):
        self.v, self.types = v, types

    def _serialize(self, types):
        return self.v

    @classmethod
    def _deserialize(cls, value, types):
        return cls(value, types)


def make():
    class Loc:
        pass

    @dataclass
    class G(DataClassDictMixin):
        x: Box[Loc]

    return G, Loc


try:
    G, Loc = make()
    obj = G.from_dict({"x": 1})
    observed = f"types={obj.x.types}"
    ok = obj.x.types == [Loc]
except Exception as e:
    observed = f"{type(e).__name__}: {e}"
    ok = False
print(f"observed {observed}; expected the class is created and _deserialize gets [Loc]")
if not ok:
    print("VIOLATION")
