"""A serializer that is an unhashable callable object (e.g. an instance of a
plain @dataclass with __call__) is fine for to_dict, but build_json_schema
crashes with TypeError: on_type_with_overridden_serialization evaluates
`overridden_method in BASIC_TYPES` (a set), which hashes the callable.
"""
import datetime
from dataclasses import dataclass, field

import mashumaro  # noqa: F401
from mashumaro import DataClassDictMixin
from mashumaro.config import BaseConfig
from mashumaro.jsonschema import build_json_schema


@dataclass  # eq=True and no unsafe_hash -> instances are unhashable
class Formatter:
    fmt: str = "%Y/%m/%d"

    def __call__(self, value: datetime.date) -> str:
        return value.strftime(self.fmt)


@dataclass
class ViaMetadata(DataClassDictMixin):
    x: datetime.date = field(metadata={"serialize": Formatter()})


@dataclass
class ViaConfig(DataClassDictMixin):
    x: datetime.date

    class Config(BaseConfig):
        serialization_strategy = {
            datetime.date: {"serialize": Formatter("%d.%m.%Y")}
        }


print("to_dict works:", ViaMetadata(datetime.date(2020, 1, 2)).to_dict())
print("to_dict works:", ViaConfig(datetime.date(2020, 1, 2)).to_dict())
violated = False
for cls in (ViaMetadata, ViaConfig):
    try:
        print(cls.__name__, "->", build_json_schema(cls).to_dict())
    except Exception as e:
        violated = True
        print(
            f"{cls.__name__}: observed {type(e).__name__}: {e}; expected "
            "{'x': {'type': 'string'}} taken from the return annotation"
        )
print("VIOLATION" if violated else "ok")
