# Annotated (field-level) discriminator + variants with forbid_extra_keys:
# the tag key itself is counted as an unexpected key (only a Config-based
# discriminator is whitelisted), so VALID input is rejected; the nested
# ExtraKeysError names the discriminator key.
from dataclasses import dataclass
from typing import Union
from typing_extensions import Annotated
import mashumaro
from mashumaro import DataClassDictMixin
from mashumaro.config import BaseConfig
from mashumaro.types import Discriminator

@dataclass
class VA(DataClassDictMixin):
    a: int
    class Config(BaseConfig):
        forbid_extra_keys = True

@dataclass
class VB(DataClassDictMixin):
    b: int
    class Config(BaseConfig):
        forbid_extra_keys = True

@dataclass
class H(DataClassDictMixin):
    v: Annotated[Union[VA, VB], Discriminator(
        field="t", include_supertypes=True, variant_tagger_fn=lambda c: c.__name__)]

try:
    r = H.from_dict({"v": {"t": "VA", "a": 1}})
    print("observed: returned", r, "; as expected")
except Exception as e:
    print(f"observed: {type(e).__name__}: {e}")
    print(f"   caused by: {type(e.__context__).__name__}: {e.__context__}")
    print("expected: H(v=VA(a=1)) -- 't' is the discriminator, not an unexpected key")
    print("VIOLATION")
