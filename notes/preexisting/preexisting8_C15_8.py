# Config.orjson_options is honoured by DataClassORJSONMixin.to_jsonb()/to_json()
# but ignored by ORJSONEncoder / json_encode for the same class and value.
from dataclasses import dataclass
from typing import Dict

import orjson

import mashumaro  # noqa
from mashumaro.codecs.orjson import ORJSONEncoder, json_encode
from mashumaro.config import BaseConfig
from mashumaro.mixins.orjson import DataClassORJSONMixin


@dataclass
class O(DataClassORJSONMixin):
    d: Dict[int, int]
    z: int = 0
    a: int = 0

    class Config(BaseConfig):
        orjson_options = orjson.OPT_NON_STR_KEYS | orjson.OPT_SORT_KEYS


def run(f):
    try:
        return f()
    except Exception as e:
        return f"{type(e).__name__}: {e}"[:120]


x = O({1: 2})
m = run(x.to_jsonb)
c = run(lambda: ORJSONEncoder(O).encode(x))
o = run(lambda: json_encode(x, O))
print("x.to_jsonb()              :", m)
print("ORJSONEncoder(O).encode(x):", c)
print("json_encode(x, O)         :", o)
if not (m == c == o):
    print("VIOLATION: mixin method and codec disagree")
