"""A TypeVar of a generic dataclass that is bound to an Annotated collection
type: Registry.get unwraps Annotated *before* it substitutes the TypeVar, so
after the substitution spec.type is still the Annotated object and
spec.origin_type is ``frozenset[int]`` (not a class).

* nothing registered      -> TypeError while the class is built (the built-in
                             rendering should be used)
* origin key registered   -> same TypeError (the registration is not found)
* alias / exact key       -> works
The same parameter spelled as a NewType alias works in all four cases.
"""
from dataclasses import dataclass
from typing import Annotated, Generic, NewType, TypeVar

import mashumaro
from mashumaro import DataClassDictMixin
from mashumaro.config import BaseConfig

T = TypeVar("T")


def m(name):
    return {"serialize": lambda v: name, "deserialize": lambda v: name}


def attempt(alias, regs):
    try:
        @dataclass
        class G(Generic[T], DataClassDictMixin):
            x: T

            class Config(BaseConfig):
                serialization_strategy = regs

        @dataclass
        class C(G[alias]):
            pass

        return C(frozenset([1])).to_dict()["x"], C.from_dict({"x": [1]}).x
    except Exception as e:
        return f"{type(e).__name__}: {e}"


violated = False
for title, alias in (
    ("NewType (control)", NewType("N", frozenset[int])),
    ("Annotated", Annotated[frozenset[int], "tag"]),
):
    for name, regs, expected in (
        ("nothing registered", {}, ([1], frozenset([1]))),
        ("alias key", {alias: m("alias")}, ("alias", "alias")),
        ("exact key", {frozenset[int]: m("exact")}, ("exact", "exact")),
        ("origin key", {frozenset: m("origin")}, ("origin", "origin")),
    ):
        observed = attempt(alias, regs)
        bad = observed != expected
        violated |= bad
        print(f"{title:18} {name:19} observed {observed!r} expected "
              f"{expected!r} {'<-- BAD' if bad else ''}")
if violated:
    print("VIOLATION: with no registration the built-in rendering is not "
          "used, and an origin-key registration is not honoured")
