"""The NAME of an enum member used in Literal[...] is pasted into the
generated code as an attribute path (f"{enum_type}.{member.name}").  Member
names of functional-API enums are arbitrary strings, so (a) a harmless name
such as "a-b" makes the class impossible to build and (b) a crafted name is
executed as code when from_dict / to_dict run."""
import builtins
import enum
from dataclasses import dataclass
from typing import Literal

import mashumaro
from mashumaro import DataClassDictMixin

builtins.SENTINEL_HITS = []
violation = False

# (a) benign, non-identifier member name
Color = enum.Enum("Color", {"dark-red": "dr", "blue": "b"})
try:

    @dataclass
    class A(DataClassDictMixin):
        c: Literal[Color["dark-red"]]

    observed = A.from_dict({"c": "dr"})
except BaseException as e:
    observed = f"{type(e).__name__}: {e}"
    violation = True
print(f"benign name: observed {observed!r}, expected A(c=<Color.dark-red: 'dr'>)")

# (b) member name that is a Python fragment
NAME = "B.value or SENTINEL_HITS.append('executed') or E.B"
E = enum.Enum("E", {NAME: 1, "B": 2})


@dataclass
class B(DataClassDictMixin):
    p: Literal[E[NAME]]


try:
    observed = B.from_dict({"p": 1})
except BaseException as e:
    observed = f"{type(e).__name__}: {e}"
print(f"crafted name: observed {observed!r}, expected B(p=<E.{NAME}: 1>)")
print(f"sentinel hits: observed {SENTINEL_HITS!r}, expected []")
if SENTINEL_HITS or not isinstance(observed, B):
    violation = True
print("VIOLATION" if violation else "ok")
