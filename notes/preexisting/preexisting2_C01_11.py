# State that == does not look at is dropped or replaced:
#  - deque: maxlen is lost
#  - defaultdict: default_factory is replaced by the *annotation* of the value type
#    (typing.List[int] instead of list; typing.Optional[int] is not callable, so the
#    rebuilt mapping raises on a missing key; a local class makes the generated code a
#    SyntaxError, i.e. the decoder cannot be built at all)
#  - datetime.fold is lost
#  - ZoneInfo.no_cache(...) instances compare by identity, the rebuilt one is the cached one
import collections
import zoneinfo
import mashumaro
from dataclasses import dataclass
from datetime import datetime
from typing import DefaultDict, Deque, List, Optional
from mashumaro import DataClassDictMixin
from mashumaro.codecs.basic import decode, encode

hit = False


def report(label, observed, expected):
    global hit
    bad = observed != expected
    hit |= bad
    print(f"{label}: observed {observed!r}, expected {expected!r}{'  <-- VIOLATION' if bad else ''}")


d = collections.deque([1, 2], maxlen=5)
report("deque.maxlen", decode(encode(d, Deque[int]), Deque[int]).maxlen, 5)

dd = collections.defaultdict(list, {"a": [1]})
S = DefaultDict[str, List[int]]
report("defaultdict.default_factory", decode(encode(dd, S), S).default_factory, list)

S = DefaultDict[str, Optional[int]]
r = decode(encode(collections.defaultdict(lambda: None, {"a": 1}), S), S)
try:
    got = r["missing"]
except Exception as e:
    got = f"{type(e).__name__}: {e}"
report("defaultdict[str, Optional[int]] missing key", got, None)


def local():
    @dataclass
    class L(DataClassDictMixin):
        a: int = 0

    S = DefaultDict[str, L]
    v = collections.defaultdict(L, {"a": L(1)})
    try:
        got = decode(encode(v, S), S)
    except SyntaxError as e:
        got = f"SyntaxError: {e}"
    report("DefaultDict[str, <local dataclass>]", got, v)


local()
report("datetime.fold", decode(encode(datetime(2020, 1, 1, fold=1), datetime), datetime).fold, 1)
try:
    z = zoneinfo.ZoneInfo.no_cache("Europe/Paris")
    report("ZoneInfo.no_cache", decode(encode(z, zoneinfo.ZoneInfo), zoneinfo.ZoneInfo) == z, True)
except zoneinfo.ZoneInfoNotFoundError:
    print("no tzdata")
print("VIOLATION" if hit else "not reproduced")
