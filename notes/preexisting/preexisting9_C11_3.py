"""A field whose default is None accepts null even though its union / Literal
has no null member: the builder treats `default is None` as "could be None"
and short-circuits the union method, so the input that must raise (or must be
handed to the first accepting member) is returned as None.
"""
from dataclasses import dataclass
from typing import Literal, Union

import mashumaro
from mashumaro import DataClassDictMixin

violation = False


def observe(fn):
    try:
        return repr(fn())
    except Exception as e:
        return f"RAISE {type(e).__name__}"


@dataclass
class NoDefault(DataClassDictMixin):
    x: Union[int, float]


@dataclass
class DefaultNone(DataClassDictMixin):
    x: Union[int, float] = None


@dataclass
class LitNoDefault(DataClassDictMixin):
    x: Literal[1, 2]


@dataclass
class LitDefaultNone(DataClassDictMixin):
    x: Literal[1, 2] = None


@dataclass
class StrNoDefault(DataClassDictMixin):
    x: Union[int, str]


@dataclass
class StrDefaultNone(DataClassDictMixin):
    x: Union[int, str] = None


for a, b in ((NoDefault, DefaultNone), (LitNoDefault, LitDefaultNone),
             (StrNoDefault, StrDefaultNone)):
    ref = observe(lambda: a.from_dict({"x": None}).x)
    obs = observe(lambda: b.from_dict({"x": None}).x)
    bad = ref != obs
    violation |= bad
    print(f"{b.__name__}.from_dict({{'x': None}}).x\n   observed: {obs}\n"
          f"   expected (same type without the default): {ref}"
          f"{'   <-- VIOLATION' if bad else ''}")

print("VIOLATION" if violation else "no violation")
