# Generic specialisations (and distinct classes with one __name__) share one definition when all_refs=True
import sys; sys.path.insert(0, "/tmp")
import mashumaro
from dataclasses import dataclass
from typing import Generic, TypeVar
from mashumaro import DataClassDictMixin
from preexisting_C06_common import report
T = TypeVar("T")
@dataclass
class G(DataClassDictMixin, Generic[T]):
    y: list[T]
@dataclass
class Outer(DataClassDictMixin):
    a: G[int]
    b: G[str]
report("G[int] and G[str] share '#/$defs/G' (the last one built wins)", Outer, Outer(G([1]), G(["s"])), all_refs=True)

def make(t):
    @dataclass
    class Item(DataClassDictMixin):
        v: t
    return Item
I1, I2 = make(int), make(str)
@dataclass
class Two(DataClassDictMixin):
    a: I1
    b: I2
report("two distinct classes named Item share '#/$defs/Item'", Two, Two(I1(1), I2("s")), all_refs=True)
