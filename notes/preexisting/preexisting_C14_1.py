"""
PRE-EXISTING (C14): a lazily compiled (lazy_compilation) or postponed (forward
reference) *generic* dataclass used as a field WITH type arguments never gets
its specialised method compiled.  The lazy stub emitted for
__mashumaro_to_dict_<hash>__ / __mashumaro_from_dict_<hash>__ forgets the type
arguments: it compiles the unspecialised method and then calls itself again.
Result: RecursionError on the first to_dict, InvalidFieldValue on from_dict,
while the eager twin works.
"""
import mashumaro
from dataclasses import dataclass
from datetime import date
from typing import Generic, TypeVar

from mashumaro import DataClassDictMixin
from mashumaro.config import BaseConfig

print("mashumaro:", mashumaro.__file__)
T = TypeVar("T")


@dataclass
class EagerG(DataClassDictMixin, Generic[T]):
    x: T
    n: int = 0


@dataclass
class EagerA(DataClassDictMixin):
    g: EagerG[date]


@dataclass
class LazyG(DataClassDictMixin, Generic[T]):
    x: T
    n: int = 0

    class Config(BaseConfig):
        lazy_compilation = True


@dataclass
class LazyA(DataClassDictMixin):
    g: LazyG[date]


@dataclass
class PostponedG(DataClassDictMixin, Generic[T]):
    x: T
    n: "Later" = 0


@dataclass
class PostponedA(DataClassDictMixin):
    g: PostponedG[date]


Later = int  # the forward reference is resolvable before the first call


def outcome(fn):
    try:
        return repr(fn())
    except BaseException as e:
        return f"raised {type(e).__name__}: {str(e)[:80]}"


expected_to = outcome(lambda: EagerA(EagerG(date(2020, 1, 2))).to_dict())
expected_from = outcome(
    lambda: EagerA.from_dict({"g": {"x": "2020-01-02"}}).g.x
)
bad = False
for name, G, A in (
    ("lazy", LazyG, LazyA),
    ("postponed", PostponedG, PostponedA),
):
    got_from = outcome(lambda: A.from_dict({"g": {"x": "2020-01-02"}}).g.x)
    got_to = outcome(lambda: A(G(date(2020, 1, 2))).to_dict())
    print(f"[{name}] A.from_dict(...).g.x")
    print(f"    observed: {got_from}")
    print(f"    expected: {expected_from}")
    print(f"[{name}] A(G(date)).to_dict()")
    print(f"    observed: {got_to}")
    print(f"    expected: {expected_to}")
    bad |= got_from != expected_from or got_to != expected_to
print("DEFECT REPRODUCED" if bad else "not reproduced")
