"""A TypedDict / NamedTuple member annotated with an unhashable Annotated
metadata object makes build_json_schema crash with TypeError, although the
very same annotation works as a dataclass field or a list item.

DependentRequired (shipped by mashumaro.jsonschema.annotations itself) is a
plain @dataclass with eq and without unsafe_hash, hence unhashable; the same
happens with Contains(JSONArraySchema(...)).  on_typed_dict / on_named_tuple
do `resolved.get(v, v)` for every annotation value, which hashes it.
"""
from dataclasses import dataclass
from typing import Dict, List, NamedTuple

from typing_extensions import Annotated, TypedDict

import mashumaro  # noqa: F401
from mashumaro.jsonschema import build_json_schema
from mashumaro.jsonschema.annotations import Contains, DependentRequired
from mashumaro.jsonschema.models import JSONArraySchema

DR = Annotated[Dict[str, int], DependentRequired({"a": {"b"}})]
CT = Annotated[List[List[int]], Contains(JSONArraySchema())]


@dataclass
class DC:
    x: DR
    y: CT


class TD(TypedDict):
    x: DR


class NT(NamedTuple):
    x: DR


class TD2(TypedDict):
    y: CT


print("dataclass field :", build_json_schema(DC).to_dict()["properties"])
print("list item       :", build_json_schema(List[DR]).to_dict())
violated = False
for shape in (TD, NT, TD2):
    try:
        print(shape.__name__, "->", build_json_schema(shape).to_dict())
    except Exception as e:
        violated = True
        print(
            f"{shape.__name__}: observed {type(e).__name__}: {e}; "
            "expected a schema like the one of the dataclass field"
        )
print("VIOLATION" if violated else "ok")
