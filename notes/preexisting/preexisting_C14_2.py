"""
PRE-EXISTING (C14, threads): the discriminated-union unpacker registers a
variant's tag in the shared variants map BEFORE that variant's own unpacker has
been compiled (and nothing is locked).  A second thread making its first call at
the same time takes the fast path `variants_map[tag].__mashumaro_from_dict__(value)`,
finds the variant class, and - because the variant has no method of its own yet -
runs the method *inherited from the already compiled parent class* (compiled for
the parent's fields only): the subclass fields of the input are silently dropped
(they come back as their defaults).

The window is the time needed to compile the variant.  To make the interleaving
deterministic this script parks thread T1 inside the compilation of the variant
(through the field metadata mapping that the code builder reads); a single
threaded run of exactly the same calls gives the right answer.
"""
import threading
from dataclasses import dataclass, field
from typing import Annotated

import mashumaro
from mashumaro import DataClassDictMixin
from mashumaro.types import Discriminator

print("mashumaro:", mashumaro.__file__)

armed = threading.Event()
reached = threading.Event()
release = threading.Event()


class Meta(dict):
    """field metadata; lets us pause the thread that compiles the variant"""

    def get(self, key, default=None):
        if armed.is_set() and threading.current_thread().name == "T1":
            reached.set()
            release.wait(10)
        return super().get(key, default)


SRC = """
from dataclasses import dataclass, field
from typing import Annotated

from mashumaro import DataClassDictMixin
from mashumaro.types import Discriminator


@dataclass
class Base:
    kind: str = "base"


@dataclass
class Variant(Base):
    kind: str = "variant"
    extra: int = field(default=0, metadata=Meta())


@dataclass
class UsesBase(DataClassDictMixin):  # compiles Base.__mashumaro_from_dict__
    b: Base


@dataclass
class Holder(DataClassDictMixin):
    x: Annotated[Base, Discriminator(field="kind", include_subtypes=True)]
"""

_n = [0]


def family():
    import sys
    import types

    _n[0] += 1
    m = types.ModuleType(f"fam{_n[0]}")
    sys.modules[m.__name__] = m
    m.Meta = Meta
    exec(SRC, m.__dict__)
    return m.Holder


DATA = {"x": {"kind": "variant", "extra": 7}}


def call(holder, out, key):
    try:
        out[key] = repr(holder.from_dict(DATA).x)
    except BaseException as e:
        out[key] = f"raised {type(e).__name__}: {str(e)[:80]}"


# single threaded reference
ref = {}
H = family()
call(H, ref, "first")
call(H, ref, "second")
expected = ref["first"]
print("single thread :", ref)

# two threads making the first call at once
H = family()
out = {}
armed.set()
t1 = threading.Thread(target=call, args=(H, out, "T1"), name="T1")
t1.start()
assert reached.wait(10), "T1 never reached the variant compilation"
t2 = threading.Thread(target=call, args=(H, out, "T2"), name="T2")
t2.start()
t2.join(10)
release.set()
t1.join(10)
armed.clear()
print("two threads   :", out)
print("expected      :", expected, "(for both)")
bad = out.get("T1") != expected or out.get("T2") != expected
print("DEFECT REPRODUCED" if bad else "not reproduced")
