"""A field-based discriminated union treats a KeyError / AttributeError raised
*inside* the chosen variant's from_dict (e.g. by one of its hooks or by
__post_init__) as 'variant not registered yet', re-registers all variants and
calls the variant again: the variant's hooks run twice for one input.  With a
hook that fails only the first time the call even succeeds, with a doubled
trace."""
from dataclasses import dataclass
from typing import Literal

from typing_extensions import Annotated

import mashumaro
from mashumaro import DataClassDictMixin
from mashumaro.types import Discriminator

TRACE = []
SEEN = set()


@dataclass
class Base:
    pass


@dataclass
class V1(Base):
    t: Literal["v1"] = "v1"
    key: str = "a"

    @classmethod
    def __pre_deserialize__(cls, d):
        TRACE.append("pre V1")
        return d

    @classmethod
    def __post_deserialize__(cls, obj):
        TRACE.append("post V1")
        if obj.key not in SEEN:  # e.g. a registry that is filled on a miss
            SEEN.add(obj.key)
            raise KeyError(obj.key)
        return obj


@dataclass
class Holder(DataClassDictMixin):
    v: Annotated[Base, Discriminator(field="t", include_subtypes=True)]


SEEN.add("warm")
Holder.from_dict({"v": {"t": "v1", "key": "warm"}})  # registers the variants

TRACE.clear()
res = Holder.from_dict({"v": {"t": "v1", "key": "fresh"}})
expected = ["pre V1", "post V1"]
print("result  :", res)
print("trace   :", TRACE)
print("expected:", expected, "(one V1 instance in the result)")
print("VIOLATION: hooks ran twice for a single instance" if TRACE != expected else "ok")
