"""The default value of a member whose annotation is a type variable is put
into the schema WITHOUT being serialized: Instance.fields() hands the
unresolved annotation (T) to _default(), so the value passes through as is.
The schema document then holds a raw Python object (Decimal, date, tuple of
dataclasses, ...): it is not a JSON document any more, to_json() crashes,
and "default" contradicts the sibling "type"/"format".
"""
import json
from dataclasses import dataclass
from decimal import Decimal
from typing import Generic, TypeVar

import mashumaro  # noqa: F401
from mashumaro import DataClassDictMixin
from mashumaro.jsonschema import build_json_schema

T = TypeVar("T")


@dataclass
class Box(Generic[T], DataClassDictMixin):
    value: T = Decimal("1.50")  # type: ignore[assignment]


@dataclass
class DecimalBox(Box[Decimal]):
    pass


print("to_dict serializes the default:", DecimalBox().to_dict())
violated = False
for shape in (Box[Decimal], DecimalBox):
    schema = build_json_schema(shape)
    d = schema.to_dict()
    print(shape, "->", d)
    default = d["properties"]["value"]["default"]
    if default != "1.50":
        violated = True
        print(f"  observed default {default!r}; expected '1.50'")
    for dump in (json.dumps, lambda _: schema.to_json()):
        try:
            dump(d)
        except TypeError as e:
            violated = True
            print(f"  the document cannot be dumped: {type(e).__name__}: {e}")
print("VIOLATION" if violated else "ok")
