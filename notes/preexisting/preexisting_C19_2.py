"""The union packer picks the first member expression that does not raise,
not the member matching the value's class.  With Union[B, A] where only A
opted in to ADD_SERIALIZATION_CONTEXT, B's expression `value.to_dict()` (no
context kwarg) also "works" for an A instance, so A is serialized without the
context; with the members in the other order (Union[A, B]) it gets it."""
from dataclasses import dataclass
from typing import Any, Optional, Union

import mashumaro
from mashumaro import DataClassDictMixin
from mashumaro.config import ADD_SERIALIZATION_CONTEXT, BaseConfig

SEEN = []


@dataclass
class B(DataClassDictMixin):
    b: int


@dataclass
class A(DataClassDictMixin):
    a: int

    class Config(BaseConfig):
        code_generation_options = [ADD_SERIALIZATION_CONTEXT]

    def __post_serialize__(self, d, context: Optional[Any] = None):
        SEEN.append(context)
        return d


@dataclass
class BA(DataClassDictMixin):
    x: Union[B, A]

    class Config(BaseConfig):
        code_generation_options = [ADD_SERIALIZATION_CONTEXT]


@dataclass
class AB(DataClassDictMixin):
    x: Union[A, B]

    class Config(BaseConfig):
        code_generation_options = [ADD_SERIALIZATION_CONTEXT]


ctx = {"k": 1}
AB(A(1)).to_dict(context=ctx)
BA(A(1)).to_dict(context=ctx)
print("mashumaro:", mashumaro.__file__)
print("observed contexts [Union[A,B], Union[B,A]]:", SEEN)
print("expected contexts                         :", [ctx, ctx])
print("OK" if SEEN == [ctx, ctx] else "VIOLATION: context did not reach an opted-in nested class")
