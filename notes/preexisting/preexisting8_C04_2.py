"""orjson codec: orjson rounds a UTC offset to whole minutes, the basic form
(isoformat) keeps the seconds.  An aware datetime whose offset has a seconds
part (every zoneinfo zone before standard time was introduced) is decoded to
another instant."""
from dataclasses import dataclass
from datetime import datetime, timedelta, timezone
from zoneinfo import ZoneInfo

import orjson

import mashumaro
from mashumaro.codecs.orjson import ORJSONDecoder, ORJSONEncoder
from mashumaro.mixins.orjson import DataClassORJSONMixin


@dataclass
class Event(DataClassORJSONMixin):
    at: datetime


violations = 0
for tz in (ZoneInfo("Europe/Amsterdam"), timezone(timedelta(seconds=30))):
    value = Event(datetime(1900, 1, 1, 12, 0, tzinfo=tz))
    doc = value.to_jsonb()
    got = Event.from_json(doc)
    basic = value.to_dict()
    print("basic form   :", basic)
    print("orjson parsed:", orjson.loads(doc))
    print("expected", value.at.isoformat(), "observed", got.at.isoformat())
    assert Event.from_dict(basic) == value  # the basic form is lossless
    if got != value or orjson.loads(doc) != basic:
        violations += 1
    got2 = ORJSONDecoder(Event).decode(ORJSONEncoder(Event).encode(value))
    if got2 != value:
        violations += 1
print("VIOLATION" if violations else "no violation", violations)
