# from_yaml: malformed YAML escapes as yaml.YAMLError, which is not a
# ValueError (malformed JSON / TOML / MessagePack all surface as ValueError
# subclasses), so `except ValueError` around the documented exceptions
# misses it.
from dataclasses import dataclass
import mashumaro
from mashumaro.mixins.yaml import DataClassYAMLMixin
from mashumaro.mixins.json import DataClassJSONMixin

@dataclass
class Y(DataClassYAMLMixin, DataClassJSONMixin):
    x: int

try:
    Y.from_json("{")
except Exception as e:
    print("from_json('{')   observed:", type(e).__name__, "ValueError subclass:", isinstance(e, ValueError))
try:
    Y.from_yaml("x: [1")
except Exception as e:
    print("from_yaml('x: [1') observed:", type(e).__name__, "ValueError subclass:", isinstance(e, ValueError))
    print("expected: a ValueError (or another documented exception)")
    if not isinstance(e, (ValueError, LookupError)):
        print("VIOLATION")
