# a serialization strategy registered for the origin type (list) is used by the serializer for list[int]
# but ignored by the schema builder (it only looks up the full type)
import sys; sys.path.insert(0, "/tmp")
import mashumaro
from dataclasses import dataclass
from mashumaro import DataClassDictMixin
from mashumaro.config import BaseConfig
from preexisting_C06_common import report
def join(v) -> str:
    return ",".join(map(str, v))
@dataclass
class S(DataClassDictMixin):
    x: list[int]
    class Config(BaseConfig):
        serialization_strategy = {list: {"serialize": join}}
report("serialization_strategy keyed by origin type", S, S([1, 2]))
