# an unparametrized TypeVar with a PEP 696 default gets {"type": "null"}; the serializer uses the default type
import sys; sys.path.insert(0, "/tmp")
import mashumaro
from dataclasses import dataclass
from typing import Generic
from typing_extensions import TypeVar
from mashumaro import DataClassDictMixin
from preexisting_C06_common import report
D = TypeVar("D", default=int)
@dataclass
class G(DataClassDictMixin, Generic[D]):
    x: D
report("TypeVar('D', default=int)", G, G(1))
