"""Scalar fields are converted with the bare constructor, so an explicit null
for a required, non-nullable str or bool field is silently replaced by a
made-up value ('None' / False) instead of raising InvalidFieldValue, while the
same null for an int or float field is refused."""
from dataclasses import dataclass

import mashumaro
from mashumaro import DataClassDictMixin
from mashumaro.exceptions import InvalidFieldValue


@dataclass
class S(DataClassDictMixin):
    name: str


@dataclass
class B(DataClassDictMixin):
    flag: bool


@dataclass
class I(DataClassDictMixin):
    n: int


violation = False
for cls, d in ((I, {"n": None}), (S, {"name": None}), (S, {"name": {"a": [1]}}), (B, {"flag": None}), (B, {"flag": "false"})):
    try:
        out = cls.from_dict(d)
    except InvalidFieldValue as e:
        out = e
    print(cls.__name__, "input", d, "observed:", repr(out), "| expected: InvalidFieldValue")
    if cls is not I and not isinstance(out, InvalidFieldValue):
        violation = True
print("VIOLATION" if violation else "ok")
