# Literal members are matched with ==, in declaration order, on both sides, and an enum
# member is matched by its value: a later member that compares equal to an earlier one
# (False vs 0, 1 vs E.A with value 1) is rebuilt as the earlier one.
import enum
import mashumaro
from typing import Literal
from mashumaro.codecs.basic import decode, encode


class E(enum.Enum):
    A = 1


hit = False
for S, v in ((Literal[0, False], False), (Literal[1, True], True), (Literal[E.A, 1], 1)):
    got = decode(encode(v, S), S)
    bad = not (got == v and type(got) is type(v))
    hit |= bad
    print(f"{S}: observed {got!r} ({type(got).__name__}), expected {v!r} ({type(v).__name__})"
          f"{'  <-- VIOLATION' if bad else ''}")
print("VIOLATION" if hit else "not reproduced")
