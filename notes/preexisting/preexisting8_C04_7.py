"""TOML: the dialect's omit_none only covers dataclass fields.  A None value
of an Optional key of a TypedDict or of a NamedTuple serialized as a dict
(both are TOML tables, where the null could be omitted the same way) makes
tomli_w raise."""
from dataclasses import dataclass
from typing import NamedTuple, Optional, TypedDict

import mashumaro
from mashumaro.config import BaseConfig
from mashumaro.mixins.toml import DataClassTOMLMixin


class Point(NamedTuple):
    x: int
    label: Optional[str] = None


class Meta(TypedDict):
    a: int
    b: Optional[str]


@dataclass
class Doc(DataClassTOMLMixin):
    p: Point
    m: Meta
    note: Optional[str] = None  # this null is omitted

    class Config(BaseConfig):
        namedtuple_as_dict = True


violations = 0
for value in (
    Doc(Point(1, None), {"a": 1, "b": "x"}),
    Doc(Point(1, "l"), {"a": 1, "b": None}),
):
    assert Doc.from_dict(value.to_dict()) == value
    try:
        got = Doc.from_toml(value.to_toml())
    except Exception as e:
        got = f"{type(e).__name__}: {e}"
    print("expected", value, "observed", got)
    if got != value:
        violations += 1
print("VIOLATION" if violations else "no violation", violations)
