# ExtraKeysError is raised with the right key set, but for a non-string
# unexpected key str(exc) itself raises TypeError (", ".join over the raw
# keys), so printing/logging the documented exception blows up.
from dataclasses import dataclass
import mashumaro
from mashumaro import DataClassDictMixin
from mashumaro.config import BaseConfig
from mashumaro.exceptions import ExtraKeysError

@dataclass
class F(DataClassDictMixin):
    x: int
    class Config(BaseConfig):
        forbid_extra_keys = True

try:
    F.from_dict({"x": 1, 5: 2})
except ExtraKeysError as e:
    print("observed: ExtraKeysError, extra_keys =", e.extra_keys)
    try:
        print("str(e) =", str(e))
        print("as expected")
    except TypeError as te:
        print("observed: str(e) raises TypeError:", te)
        print("expected: a message naming key 5")
        print("VIOLATION")
