"""ORJSONEncoder / MessagePackEncoder / TOMLEncoder (and the decoders) given a
default_dialect fail with AttributeError("module 'types' has no attribute
'Dialect'") when the shape contains a dataclass whose compilation is postponed
(unresolved forward reference at the time the codec is created).  BasicEncoder,
JSONEncoder and YAMLEncoder with the same default_dialect work.  The three
failing codecs hand the builder a *merged* dialect made by
types.new_class("Dialect") and the postponed stub refers to it by its rendered
name "types.Dialect"."""
from __future__ import annotations

import json
from dataclasses import dataclass
from datetime import date
from typing import Optional

import msgpack
import orjson

import mashumaro
from mashumaro.codecs.basic import BasicEncoder
from mashumaro.codecs.json import JSONEncoder
from mashumaro.codecs.msgpack import MessagePackEncoder
from mashumaro.codecs.orjson import ORJSONDecoder, ORJSONEncoder
from mashumaro.dialect import Dialect


class OrdinalDialect(Dialect):
    serialization_strategy = {
        date: {"serialize": date.toordinal, "deserialize": date.fromordinal}
    }


@dataclass
class Node:
    d: date
    later: Optional[Later] = None  # not defined yet


codecs = {
    "basic": (BasicEncoder(Node, default_dialect=OrdinalDialect), lambda x: x),
    "json": (JSONEncoder(Node, default_dialect=OrdinalDialect), json.loads),
    "orjson": (ORJSONEncoder(Node, default_dialect=OrdinalDialect), orjson.loads),
    "msgpack": (
        MessagePackEncoder(Node, default_dialect=OrdinalDialect),
        msgpack.unpackb,
    ),
}
orjson_decoder = ORJSONDecoder(Node, default_dialect=OrdinalDialect)


@dataclass
class Later:
    d: date


value = Node(date(2020, 1, 1), Later(date(2020, 1, 2)))
expected = {"d": 737425, "later": {"d": 737426}}
print("expected document in every format:", expected)
violation = False
for name, (encoder, parse) in codecs.items():
    try:
        got = parse(encoder.encode(value))
    except Exception as e:
        got = repr(e)
    print(f"observed {name:8}:", got)
    violation |= got != expected
try:
    got = orjson_decoder.decode(b'{"d": 737425, "later": {"d": 737426}}')
except Exception as e:
    got = repr(e)
print("observed orjson decoder:", got)
violation |= got != value
if violation:
    print("VIOLATION: the same default_dialect works in some codecs and crashes in others")
else:
    print("ok")
