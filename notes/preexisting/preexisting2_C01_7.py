# Instances are rebuilt from the annotated class, not from their own class:
#  - a str subclass annotation unpacks with str(value)            -> plain str
#  - bool in an int field -> int, int in a float field -> float   (== hides it)
#  - abstract / base collection annotations rebuild a fixed concrete class:
#    Sequence[int] given a tuple -> list (not even ==), Mapping given OrderedDict -> dict,
#    AbstractSet given frozenset -> set, os.PathLike given Path -> PurePosixPath,
#    a user subclass of List[int] -> list
import collections
import os
import pathlib
import mashumaro
from typing import AbstractSet, List, Mapping, Sequence
from mashumaro.codecs.basic import decode, encode


class MyStr(str):
    pass


class MyList(List[int]):
    pass


hit = False
for S, v in (
    (MyStr, MyStr("a")),
    (int, True),
    (float, 1),
    (Sequence[int], (1, 2)),
    (Mapping[str, int], collections.OrderedDict(a=1)),
    (AbstractSet[int], frozenset({1})),
    (os.PathLike, pathlib.Path("/x")),
    (MyList, MyList([1])),
):
    got = decode(encode(v, S), S)
    bad = not (got == v and type(got) is type(v))
    hit |= bad
    print(f"{S}: observed {got!r} ({type(got).__name__}, =={got == v}), expected {v!r} "
          f"({type(v).__name__}){'  <-- VIOLATION' if bad else ''}")
# an exact class test guards the pass-through members of a union: a bool is rejected
from datetime import datetime
from typing import Union
try:
    got = decode(encode(True, Union[int, datetime]), Union[int, datetime])
except Exception as e:
    got = f"{type(e).__name__}: {e}"
print(f"Union[int, datetime] given True: observed {got!r}, expected True"
      f"{'  <-- VIOLATION' if got is not True else ''}")
hit |= got is not True
print("VIOLATION" if hit else "not reproduced")
