# An instance of a subclass stored in a field typed with the parent class.
# The mixin path calls `value.__mashumaro_to_dict__()` (dynamic dispatch on the
# instance), codecs call the parent's packer statically, so
#   (a) H.to_dict(x) != BasicEncoder(H).encode(x) for the SAME class and value;
#   (b) for plain (non-mixin) dataclasses the result of an EXISTING class changes
#       when an unrelated class that nests the child is defined later, because
#       that attaches a packer to the child class;
#   (c) a child that re-declares Config without the parent's code generation
#       option makes the mixin path raise TypeError, the codec path works.
from dataclasses import dataclass
from typing import Optional

import mashumaro  # noqa
from mashumaro import DataClassDictMixin
from mashumaro.codecs.basic import BasicEncoder
from mashumaro.config import TO_DICT_ADD_OMIT_NONE_FLAG, BaseConfig


def run(f):
    try:
        return f()
    except Exception as e:
        return f"{type(e).__name__}: {e}"[:110]


# (a)
@dataclass
class P(DataClassDictMixin):
    a: int


@dataclass
class C(P):
    b: int = 0


@dataclass
class H(DataClassDictMixin):
    p: P


x = H(p=C(1, 2))
m, c = H.to_dict(x), BasicEncoder(H).encode(x)
print("(a) H.to_dict(x)            :", m)
print("(a) BasicEncoder(H).encode(x):", c)


# (b)
@dataclass
class PP:
    a: int


@dataclass
class CC(PP):
    b: int = 0


@dataclass
class HH(DataClassDictMixin):
    p: PP


y = HH(p=CC(1, 2))
before = y.to_dict()


@dataclass
class Unrelated(DataClassDictMixin):
    c: CC


after = y.to_dict()
print("(b) HH.to_dict(y) before defining Unrelated:", before)
print("(b) HH.to_dict(y) after  defining Unrelated:", after)


# (c)
@dataclass
class P3(DataClassDictMixin):
    a: Optional[int] = None

    class Config(BaseConfig):
        code_generation_options = [TO_DICT_ADD_OMIT_NONE_FLAG]


@dataclass
class C3(P3):
    class Config(BaseConfig):
        code_generation_options = []


@dataclass
class H3(DataClassDictMixin):
    p: P3

    class Config(BaseConfig):
        code_generation_options = [TO_DICT_ADD_OMIT_NONE_FLAG]


z = H3(C3())
m3, c3 = run(z.to_dict), run(lambda: BasicEncoder(H3).encode(z))
print("(c) H3.to_dict(z)             :", m3)
print("(c) BasicEncoder(H3).encode(z):", c3)
if m != c or before != after or m3 != c3:
    print("VIOLATION: entry points disagree / history changes an existing class")
