"""Re-using one TypeVar in two generic dataclasses (very common: everybody
calls it T) makes the code builder recurse forever when the inner class is
parametrised with a type that CONTAINS the outer class's variable:
resolved params become {T: List[T]} and type_name() never terminates.
The mixin class cannot even be created; BasicEncoder(BB) fails likewise."""
import sys
import mashumaro
from dataclasses import dataclass
from datetime import date
from typing import Generic, List, TypeVar
from mashumaro import DataClassDictMixin
from mashumaro.codecs.basic import BasicEncoder

sys.setrecursionlimit(500)
T = TypeVar("T")
U = TypeVar("U")


@dataclass
class Box(Generic[T]):
    v: T


@dataclass
class OtherVar(Generic[U]):
    o: Box[List[U]]


@dataclass
class SameVar(Generic[T]):
    o: Box[List[T]]


print(
    "control (different TypeVar):",
    BasicEncoder(OtherVar).encode(OtherVar(Box([1]))),
)
bad = False
try:
    observed = BasicEncoder(SameVar).encode(SameVar(Box([date(2020, 1, 1)])))
except RecursionError:
    observed = "RecursionError while compiling the encoder"
    bad = True
print("observed:", observed)
print("expected:", {"o": {"v": [date(2020, 1, 1)]}}, "(T is Any: passed through)")
try:

    @dataclass
    class Mixed(Generic[T], DataClassDictMixin):
        o: Box[List[T]]

    print("mixin class created")
except RecursionError:
    print("observed: RecursionError while creating the DataClassDictMixin class")
    bad = True
if bad:
    print("VIOLATION")
