"""Per-call dialect loses its omit_none / serialize_by_alias when the class
also has TO_DICT_ADD_OMIT_NONE_FLAG / TO_DICT_ADD_BY_ALIAS_FLAG.

The main to_dict passes its own keyword defaults (computed without the dialect)
explicitly to the dialect packer, so the dialect's option never takes effect.
"""
from dataclasses import dataclass, field
from typing import Optional

import mashumaro
from mashumaro import DataClassDictMixin
from mashumaro.config import (
    ADD_DIALECT_SUPPORT,
    TO_DICT_ADD_BY_ALIAS_FLAG,
    TO_DICT_ADD_OMIT_NONE_FLAG,
    BaseConfig,
)
from mashumaro.dialect import Dialect


class D(Dialect):
    omit_none = True
    serialize_by_alias = True


def make(default_dialect):
    @dataclass
    class C(DataClassDictMixin):
        x: Optional[int] = None
        y: int = field(default=1, metadata={"alias": "Y"})

        class Config(BaseConfig):
            code_generation_options = [
                ADD_DIALECT_SUPPORT,
                TO_DICT_ADD_OMIT_NONE_FLAG,
                TO_DICT_ADD_BY_ALIAS_FLAG,
            ]
            dialect = default_dialect

    return C


per_call = make(None)().to_dict(dialect=D)
as_default = make(D)().to_dict()
print("observed to_dict(dialect=D)        :", per_call)
print("expected (class with default D)    :", as_default)
print("VIOLATION" if per_call != as_default else "ok")
