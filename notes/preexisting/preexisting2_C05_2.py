# forbid_extra_keys is silently ignored when the dataclass has no init
# fields: the whole check is generated inside `if filtered_fields:`.
from dataclasses import dataclass, field
import mashumaro
from mashumaro import DataClassDictMixin
from mashumaro.config import BaseConfig
from mashumaro.exceptions import ExtraKeysError

@dataclass
class Empty(DataClassDictMixin):
    class Config(BaseConfig):
        forbid_extra_keys = True

@dataclass
class OnlyNoInit(DataClassDictMixin):
    x: int = field(init=False, default=3)
    class Config(BaseConfig):
        forbid_extra_keys = True

bad = False
for cls in (Empty, OnlyNoInit):
    try:
        r = cls.from_dict({"unexpected": 1, "x": 99})
        print(f"{cls.__name__}: observed returned {r!r}; expected ExtraKeysError({{'unexpected', 'x'}})")
        bad = True
    except ExtraKeysError as e:
        print(f"{cls.__name__}: observed ExtraKeysError {e.extra_keys}; as expected")
if bad:
    print("VIOLATION")
