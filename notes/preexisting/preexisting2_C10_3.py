"""Exact-type registrations are matched by dict lookup on the annotation
object, and typing.List[int] != list[int] (nor do their hashes agree), so an
exact-key registration is missed when the field and the registration spell the
same type differently; the less specific origin key (or the built-in) wins.
"""
from dataclasses import dataclass
from typing import Dict, List

import mashumaro
from mashumaro import DataClassDictMixin
from mashumaro.config import BaseConfig
from mashumaro.dialect import Dialect


def m(name):
    return {"serialize": lambda v: name, "deserialize": lambda v: name}


class Lower(Dialect):  # Config.dialect: exact key
    serialization_strategy = {list[int]: m("exact"), Dict[str, int]: m("exact")}


@dataclass
class C(DataClassDictMixin):
    a: list[int]
    b: List[int]  # same type, typing spelling
    c: Dict[str, int]
    d: dict[str, int]  # same type, builtin spelling

    class Config(BaseConfig):
        dialect = Lower
        # lower level AND less specific key
        serialization_strategy = {list: m("origin"), dict: m("origin")}


ser = C([1], [1], {"k": 1}, {"k": 1}).to_dict()
de = C.from_dict({"a": [1], "b": [1], "c": {"k": 1}, "d": {"k": 1}})
print("serialize   observed:", ser)
print("deserialize observed:", de)
print("expected: 'exact' for all four fields in both directions")
if ser != {"a": "exact", "b": "exact", "c": "exact", "d": "exact"}:
    print("VIOLATION: a less specific key at a lower level beat the exact-type "
          "registration because of the spelling of the annotation")
