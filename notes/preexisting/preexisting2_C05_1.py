# A dataclass without init fields accepts ANY argument: no ValueError for a
# non-mapping input (the isinstance/AttributeError guard is only generated
# when there is at least one field to read).
from dataclasses import dataclass, field
import mashumaro
from mashumaro import DataClassDictMixin

@dataclass
class Empty(DataClassDictMixin):
    pass

@dataclass
class OnlyNoInit(DataClassDictMixin):
    x: int = field(init=False, default=3)

bad = False
for cls in (Empty, OnlyNoInit):
    for arg in (42, None, [1, 2], "abc"):
        try:
            r = cls.from_dict(arg)
            print(f"{cls.__name__}.from_dict({arg!r}) observed: returned {r!r}; expected: ValueError (non-mapping argument)")
            bad = True
        except ValueError as e:
            print(f"{cls.__name__}.from_dict({arg!r}) observed: ValueError; as expected")
if bad:
    print("VIOLATION")
