"""A self-referencing dataclass (a tree node) with a format mixin and
ADD_DIALECT_SUPPORT: when the very first (de)serialization through the format
method is made with dialect=D, it fails with AttributeError; the same call
after one dialect-less call succeeds.  The result for a dialect depends on the
call history.  (Compilation is postponed because of the forward reference --
lazy_compilation=True triggers it as well; the dialect-specific builder then
never builds the nested main method __mashumaro_to_dict_<format>__ it calls.)
"""
from dataclasses import dataclass, field
from datetime import date
from typing import List

import msgpack

import mashumaro
from mashumaro.config import ADD_DIALECT_SUPPORT, BaseConfig
from mashumaro.dialect import Dialect
from mashumaro.mixins.msgpack import DataClassMessagePackMixin


class OrdinalDialect(Dialect):
    serialization_strategy = {
        date: {"serialize": date.toordinal, "deserialize": date.fromordinal}
    }


class Cfg(BaseConfig):
    code_generation_options = [ADD_DIALECT_SUPPORT]


class CfgD(Cfg):
    dialect = OrdinalDialect


@dataclass
class Fresh(DataClassMessagePackMixin):
    d: date
    kids: List["Fresh"] = field(default_factory=list)
    Config = CfgD


@dataclass
class A(DataClassMessagePackMixin):
    d: date
    kids: List["A"] = field(default_factory=list)
    Config = Cfg


@dataclass
class B(DataClassMessagePackMixin):
    d: date
    kids: List["B"] = field(default_factory=list)
    Config = Cfg


@dataclass
class C(DataClassMessagePackMixin):
    d: date
    kids: List["C"] = field(default_factory=list)
    Config = Cfg


doc = {"d": 737426, "kids": [{"d": 737424, "kids": []}]}
data = msgpack.packb(doc)

expected = Fresh.from_msgpack(data)
print("expected (class whose default dialect is D):", expected)
print("expected to_msgpack                        :", msgpack.unpackb(expected.to_msgpack()))

violation = False
try:
    got = A.from_msgpack(data, dialect=OrdinalDialect)
except Exception as e:
    got = f"{e!r} <- {e.__context__!r}"
    violation = True
print("A: from_msgpack(dialect=D) as first call   :", got)

B.from_msgpack(msgpack.packb({"d": "2020-01-01"}))
try:
    got = B.from_msgpack(data, dialect=OrdinalDialect)
except Exception as e:
    got = f"{e!r} <- {e.__context__!r}"
print("B: no dialect first, then dialect=D        :", got)

obj = C(date(2020, 1, 2), [C(date(2019, 12, 31))])
try:
    got = msgpack.unpackb(obj.to_msgpack(dialect=OrdinalDialect))
except Exception as e:
    got = repr(e)
    violation = True
print("C: to_msgpack(dialect=D) as first call     :", got)

if violation:
    print("VIOLATION: the first call with dialect=D fails, the same call after a dialect-less call succeeds")
else:
    print("ok")
