"""The dialect passed to the call does not reach a nested dataclass that did
not opt in with ADD_DIALECT_SUPPORT (nor anything below it), although it is
the third-highest level: the nested int gets the built-in rendering while the
sibling int of the outer class gets the call dialect.  (Dialect analogue of
the known 'context is not forwarded through a class that did not opt in'.)
"""
from dataclasses import dataclass

import mashumaro
from mashumaro import DataClassDictMixin
from mashumaro.config import ADD_DIALECT_SUPPORT, BaseConfig
from mashumaro.dialect import Dialect


class D(Dialect):
    serialization_strategy = {
        int: {"serialize": lambda v: f"D:{v}", "deserialize": lambda v: f"D:{v}"}
    }


@dataclass
class Leaf(DataClassDictMixin):
    x: int

    class Config(BaseConfig):
        code_generation_options = [ADD_DIALECT_SUPPORT]


@dataclass
class Middle(DataClassDictMixin):  # did not opt in
    x: int
    leaf: Leaf


@dataclass
class Outer(DataClassDictMixin):
    x: int
    middle: Middle

    class Config(BaseConfig):
        code_generation_options = [ADD_DIALECT_SUPPORT]


ser = Outer(1, Middle(2, Leaf(3))).to_dict(dialect=D)
de = Outer.from_dict({"x": 1, "middle": {"x": 2, "leaf": {"x": 3}}}, dialect=D)
print("serialize   observed:", ser)
print("            expected: {'x': 'D:1', 'middle': {'x': 'D:2', 'leaf': {'x': 'D:3'}}}")
print("deserialize observed:", de)
if ser["middle"]["x"] == 2 or ser["middle"]["leaf"]["x"] == 3:
    print("VIOLATION: the call dialect is dropped at the class that did not "
          "opt in, and below it even for a class that did")
