"""The type of an inherited dataclass field is taken from get_type_hints(),
where an annotation of a non-dataclass class that sits earlier in the MRO
shadows the dataclass ancestor's annotation; dataclasses itself ignores that
class.  (a) The field is Optional[int] = 5 for dataclasses, mashumaro treats
it as int, so an explicit null does not override the default: it is rejected.
(b) The shadowing annotation is a ClassVar: the field is still a constructor
parameter, but from_dict never reads its key and silently keeps the default."""
from dataclasses import dataclass, fields
from typing import ClassVar, Optional

import mashumaro
from mashumaro import DataClassDictMixin

violations = 0


class Counted:  # not a dataclass
    count: int


@dataclass
class A(DataClassDictMixin):
    count: Optional[int] = 5


@dataclass
class B(Counted, A):
    pass


print("(a) dataclass field:", fields(B)[0].name, fields(B)[0].type)
expected = B(count=None)
try:
    observed = B.from_dict({"count": None})
except Exception as e:
    observed = e
print(f"(a) observed {observed!r}, expected {expected!r}")
if observed != expected:
    violations += 1


class Tagged:  # not a dataclass
    kind: ClassVar[str]


@dataclass
class A2(DataClassDictMixin):
    kind: str = "a"


@dataclass
class B2(Tagged, A2):
    pass


print("(b) dataclass fields:", [(f.name, f.type) for f in fields(B2)])
expected = B2(kind="z")
observed = B2.from_dict({"kind": "z"})
print(f"(b) observed {observed!r}, expected {expected!r}")
if observed != expected:
    violations += 1

if violations:
    print("VIOLATION")
