"""Literal members are matched with == in declaration order and the FIRST
equal literal is returned, so for Literal[1, True] the input True (itself a
member) comes back as the int 1, and for Literal[0, False] False comes back
as 0.  The exact member is never preferred over a look-alike one.
"""
from dataclasses import dataclass
from typing import Literal

import mashumaro
from mashumaro import DataClassDictMixin


@dataclass
class A(DataClassDictMixin):
    x: Literal[1, True]
    y: Literal[0, False]


r = A.from_dict({"x": True, "y": False})
print("from_dict({'x': True, 'y': False}) ->", r)
print("expected: A(x=True, y=False)")
if type(r.x) is not bool or type(r.y) is not bool:
    print("VIOLATION: bool input that IS a literal member decoded to the int member")
