"""A Discriminator carried by an Annotated *type argument* of a generic
dataclass is silently ignored on deserialization.

`disc: Annotated[Base, Discriminator(...)]` selects the subclass by tag, but
`disc: Box[Annotated[Base, Discriminator(...)]]` (Box generic in T, item: T)
always builds the base class and drops the subclass fields.
"""
from dataclasses import dataclass
from typing import Annotated, Generic, TypeVar

import mashumaro
from mashumaro import DataClassDictMixin
from mashumaro.types import Discriminator

T = TypeVar("T")


@dataclass
class Box(Generic[T]):
    item: T


@dataclass
class Base:
    t = "base"
    a: int = 0


@dataclass
class Sub(Base):
    t = "sub"
    b: int = 0


D = Annotated[Base, Discriminator(field="t", include_subtypes=True)]


@dataclass
class Direct(DataClassDictMixin):
    disc: D


@dataclass
class ViaGeneric(DataClassDictMixin):
    disc: Box[D]


payload = {"t": "sub", "a": 1, "b": 2}
direct = Direct.from_dict({"disc": payload}).disc
via = ViaGeneric.from_dict({"disc": {"item": payload}}).disc.item
print("direct      :", direct)
print("via Box[T]  :", via)
print("expected    :", Sub(a=1, b=2))
if direct == Sub(a=1, b=2) and via != Sub(a=1, b=2):
    print("VIOLATION: discriminator in a generic type argument is ignored")
