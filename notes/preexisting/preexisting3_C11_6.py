"""A nested Optional alias (int | None) as a union member packs to the
always-succeeding expression `value if value is not None else None`; every
later member is unreachable and a date value is returned unserialized."""
import datetime
from typing import Union
import mashumaro
from mashumaro.codecs import BasicEncoder

type ON = int | None
U = Union[ON, datetime.date]
v = datetime.date(2020, 1, 1)
got = BasicEncoder(U).encode(v)
exp = BasicEncoder(datetime.date).encode(v)
print("encode", U, repr(v), "->", repr(got), " expected", repr(exp))
print("VIOLATION" if got != exp else "ok")
