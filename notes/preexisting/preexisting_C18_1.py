"""PRE-EXISTING (unmodified library): under no_copy_collections a list is passed
by reference although its elements need conversion, when it sits in a Union whose
first member is a conversion-free list type.

pack_union puts the members whose packer is the bare expression first and
dispatches them with `if value.__class__ is list: return value`; with list in
no_copy_collections the packer of List[int] IS the bare expression, so every
list (also a List[date]) is returned as is: shared and unconverted.
"""
from dataclasses import dataclass
from datetime import date
from typing import List, Union

import mashumaro
from mashumaro import DataClassDictMixin
from mashumaro.config import BaseConfig
from mashumaro.dialect import Dialect


class NoCopy(Dialect):
    no_copy_collections = (list,)


@dataclass
class A(DataClassDictMixin):
    x: Union[List[int], List[date]]

    class Config(BaseConfig):
        dialect = NoCopy


obj = A([date(2020, 1, 2)])
out = obj.to_dict()
print("observed:", out, "| out['x'] is obj.x ->", out["x"] is obj.x)
print("expected: {'x': ['2020-01-02']} | out['x'] is obj.x -> False "
      "(elements need conversion, so the list must not be passed by reference)")
