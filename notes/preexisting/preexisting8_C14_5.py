"""Config-based discriminator (include_subtypes) on a class with a format
mixin: when the FIRST from_msgpack call of the hierarchy passes a dialect, the
variants are registered with an unpacker built only for that dialect (it is
stored in the dialect cache, the variant's own main
`__mashumaro_from_dict_msgpack__` is never created).  A later plain
from_msgpack call then finds the variant in the registry, calls the method it
*inherits* from the base class, which dispatches again ... RecursionError.
With the calls in the opposite order everything works."""
import sys
import types
import mashumaro
import msgpack

SRC = """
from dataclasses import dataclass
from datetime import date
from typing import Optional, Literal
from mashumaro.config import BaseConfig, ADD_DIALECT_SUPPORT
from mashumaro.dialect import Dialect
from mashumaro.types import Discriminator
from mashumaro.mixins.msgpack import DataClassMessagePackMixin

class Ord(Dialect):
    serialization_strategy = {
        date: {"serialize": date.toordinal, "deserialize": date.fromordinal}
    }

@dataclass
class Base(DataClassMessagePackMixin):
    d: Optional[date] = None
    class Config(BaseConfig):
        discriminator = Discriminator(field="kind", include_subtypes=True)
        code_generation_options = [ADD_DIALECT_SUPPORT]

@dataclass
class V1(Base):
    kind: Literal["v1"] = "v1"

@dataclass
class V2(Base):
    kind: Literal["v2"] = "v2"
    inner: Optional[Base] = None
"""
_n = [0]


def fresh():
    _n[0] += 1
    mod = types.ModuleType(f"fam{_n[0]}")
    sys.modules[mod.__name__] = mod
    exec(SRC, mod.__dict__)
    return mod


def attempt(f):
    try:
        return repr(f())
    except RecursionError:
        return "RecursionError"
    except Exception as e:
        return f"{type(e).__name__}: {e}"


plain = msgpack.packb({"kind": "v1"})
with_ord = msgpack.packb({"kind": "v1", "d": 737426})
nested = msgpack.packb({"inner": {"kind": "v1"}})

m = fresh()
want_plain = attempt(lambda: m.Base.from_msgpack(plain))
want_nested = attempt(lambda: m.V2.from_msgpack(nested))

m = fresh()
first = attempt(lambda: m.Base.from_msgpack(with_ord, dialect=m.Ord))
got_plain = attempt(lambda: m.Base.from_msgpack(plain))
got_nested = attempt(lambda: m.V2.from_msgpack(nested))
print("Base.from_msgpack(.., dialect=Ord) as first call:", first)
print("then Base.from_msgpack(plain):", got_plain)
print("   expected (fresh family)  :", want_plain)
print("then V2.from_msgpack(nested):", got_nested)
print("   expected (fresh family)  :", want_nested)
if (got_plain, got_nested) != (want_plain, want_nested):
    print("VIOLATION")
