"""Discriminator without a field over plain dataclass variants: on the first
call every variant that has to be compiled is attempted twice in a row (once
right after its unpacker is built, once by the regular attempt), so the
__pre_deserialize__ hook of each non-matching variant runs twice.  (Related to
the known 'hooks re-run for speculative union attempts', but here the same
member is tried twice and only on the first call.)"""
from dataclasses import dataclass

from typing_extensions import Annotated

import mashumaro
from mashumaro import DataClassDictMixin
from mashumaro.types import Discriminator

TRACE = []


class Hooks:
    @classmethod
    def __pre_deserialize__(cls, d):
        TRACE.append("pre " + cls.__name__)
        return d


@dataclass
class Base(Hooks):
    pass


@dataclass
class A(Base):
    a: int


@dataclass
class B(Base):
    b: int


@dataclass
class C(Base):
    c: int


@dataclass
class Holder(DataClassDictMixin):
    x: Annotated[Base, Discriminator(include_subtypes=True)]


TRACE.clear()
Holder.from_dict({"x": {"c": 1}})
first = list(TRACE)
TRACE.clear()
Holder.from_dict({"x": {"c": 1}})
second = list(TRACE)
print("first call :", first)
print("second call:", second, "(expected for both)")
print("VIOLATION: same input, hooks of A and B ran twice on the first call"
      if first != second else "ok")
