"""One class per file, re-exported by the package: shop/Currency.py defines
Currency and shop/__init__.py does `from .Currency import Currency`.  The
generated code says `shop.Currency.Currency`, where `shop.Currency` is the
class, not the module."""
import os
import sys
import tempfile
import textwrap

import mashumaro

print("mashumaro from", mashumaro.__file__)
tmp = tempfile.mkdtemp()
os.makedirs(os.path.join(tmp, "shop"))
files = {
    "__init__.py": "from .Currency import Currency\nfrom .Price import Price\n",
    "Currency.py": "import enum\nclass Currency(enum.Enum):\n    USD = 'usd'\n    EUR = 'eur'\n",
    "Price.py": textwrap.dedent(
        """
        from dataclasses import dataclass
        from mashumaro import DataClassDictMixin
        from .Currency import Currency
        @dataclass
        class Price(DataClassDictMixin):
            amount: int
            currency: Currency
        """
    ),
}
for name, src in files.items():
    with open(os.path.join(tmp, "shop", name), "w") as f:
        f.write(src)
sys.path.insert(0, tmp)
import shop  # noqa

try:
    observed = repr(shop.Price.from_dict({"amount": 1, "currency": "usd"}))
except Exception as e:
    observed = f"{type(e).__name__}: {e}"
expected = "Price(amount=1, currency=<Currency.USD: 'usd'>)"
print(f"observed {observed}; expected {expected}")
if observed != expected:
    print("VIOLATION")
