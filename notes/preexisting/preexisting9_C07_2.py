"""The annotation used for an inherited dataclass field is the one
typing.get_type_hints() reports, i.e. the one of the first class in the MRO that
annotates the name - even if that class is a plain (non-dataclass) base.
 (a) a plain base that precedes the dataclass parent and annotates the name of
     an inherited ClassVar turns the ClassVar into a 'field': from_dict reads
     the key and passes it to the constructor (TypeError);
 (b) a plain base that annotates the name of a real inherited field as ClassVar
     makes from_dict ignore the key: the default wins over a present key."""
from dataclasses import dataclass
from typing import ClassVar

import mashumaro
from mashumaro import DataClassDictMixin

violation = False


class PlainA:
    g: int


@dataclass
class PA(DataClassDictMixin):
    g: ClassVar[int] = 11
    f: int = 0


@dataclass
class CA(PlainA, PA):
    x: int = 1


try:
    got = CA.from_dict({"g": 5, "f": 2})
    print("(a) observed", got, "g =", got.g)
except TypeError as e:
    print("(a) observed TypeError:", e)
    violation = True
print("(a) expected", CA(f=2), "(g is a ClassVar, never read from the input)")


class PlainB:
    g: ClassVar[int]


@dataclass
class PB(DataClassDictMixin):
    g: int = 11


@dataclass
class CB(PlainB, PB):
    x: int = 1


got = CB.from_dict({"g": 5})
print("(b) observed", got, "expected", CB(g=5))
if got != CB(g=5):
    violation = True

print("VIOLATION" if violation else "no violation")
