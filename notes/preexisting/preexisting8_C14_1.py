"""An instance of a plain-dataclass subclass stored in a field annotated with
its base class is packed with the base's fields or with the subclass's fields
depending on whether *another*, unrelated class that has a field annotated
with the subclass was compiled before (pack_dataclass emits
`value.__mashumaro_to_dict__()`, which resolves to whatever method the
instance's class happens to own at that moment)."""
import mashumaro
from dataclasses import dataclass
from mashumaro import DataClassDictMixin
from mashumaro.config import BaseConfig


@dataclass
class Base:
    x: int


@dataclass
class Derived(Base):
    y: int = 0


@dataclass
class HoldsBase(DataClassDictMixin):
    item: Base


@dataclass
class HoldsDerived(DataClassDictMixin):
    item: Derived

    class Config(BaseConfig):
        lazy_compilation = True


before = HoldsBase(Derived(1, 2)).to_dict()
HoldsDerived(Derived(3, 4)).to_dict()  # first use of an unrelated lazy class
after = HoldsBase(Derived(1, 2)).to_dict()
print("same call before the first use of HoldsDerived:", before)
print("same call after  the first use of HoldsDerived:", after)
print("expected: both equal (outcome must not depend on call history)")
if before != after:
    print("VIOLATION")
