"""Literal positions compare with ==, so values of another type that are equal
to a listed constant are accepted (True / 1.0 for Literal[1], 1 for
Literal[True]); when two listed constants are equal (Literal[1, True]) the
constant returned is the first equal one, not the listed value that was given;
and on serialization the input is returned instead of the listed constant.
"""
from typing import Literal

import mashumaro
from mashumaro.codecs import BasicDecoder, BasicEncoder

violation = False


def check(title, fn, expected):
    global violation
    try:
        observed = fn()
    except Exception as e:
        observed = f"RAISE {type(e).__name__}"
    bad = not (observed == expected and type(observed) is type(expected))
    violation |= bad
    print(f"{title}\n   observed: {observed!r}\n   expected: {expected!r}"
          f"{'   <-- VIOLATION' if bad else ''}")


check("decode Literal[1, True] <- True",
      lambda: BasicDecoder(Literal[1, True]).decode(True), True)
check("decode Literal[True, 1] <- 1",
      lambda: BasicDecoder(Literal[True, 1]).decode(1), 1)
check("decode Literal[1] <- 1.0 (not a listed value)",
      lambda: BasicDecoder(Literal[1]).decode(1.0), "RAISE ValueError")
check("decode Literal[1] <- True (not a listed value)",
      lambda: BasicDecoder(Literal[1]).decode(True), "RAISE ValueError")
check("encode Literal[1] <- True (not a listed value)",
      lambda: BasicEncoder(Literal[1]).encode(True), "RAISE ValueError")
check("encode Literal[1, True] <- True",
      lambda: BasicEncoder(Literal[1, True]).encode(True), True)
check("encode Literal[1] <- 1.0 (not a listed value)",
      lambda: BasicEncoder(Literal[1]).encode(1.0), "RAISE ValueError")

print("VIOLATION" if violation else "no violation")
