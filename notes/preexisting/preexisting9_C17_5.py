"""A field annotated with a bare TypeVar that is bound to a LOCAL class: the
alias made for the error message (`typ` is the TypeVar, the name is the
substituted one) is registered first, so the alias the hot path uses for the
class denotes the TypeVar."""
import enum
from dataclasses import dataclass
from typing import Generic, TypeVar

import mashumaro
from mashumaro import DataClassDictMixin

print("mashumaro from", mashumaro.__file__)
T = TypeVar("T")


@dataclass
class Box(Generic[T]):
    item: T


@dataclass
class Base(DataClassDictMixin, Generic[T]):
    x: T


def make():
    @dataclass
    class User:
        a: int

    class Color(enum.Enum):
        RED = 1

    @dataclass
    class R(DataClassDictMixin):
        x: Box[User]

    @dataclass
    class Child(Base[Color]):
        pass

    return R, Child, User, Color


R, Child, User, Color = make()
violations = 0
for label, fn, expected in (
    ("Box[local dataclass]", lambda: R.from_dict({"x": {"item": {"a": 1}}}), repr(R(Box(User(1))))),
    ("Base[local enum] subclass", lambda: Child.from_dict({"x": 1}), repr(Child(Color.RED))),
):
    try:
        observed = repr(fn())
    except Exception as e:
        chain = []
        while e is not None:
            chain.append(f"{type(e).__name__}: {e}")
            e = e.__context__
        observed = " <- ".join(chain)
    if observed != expected:
        violations += 1
    print(f"{label}: observed {observed}; expected {expected}")
if violations:
    print("VIOLATION")
