"""Standard-library JSON codec: map keys that json.dumps coerces to strings
are not parsed back by the key unpackers (bool, int-valued Enum/IntEnum,
Optional[int], Literal[int])."""
import enum
import json
from dataclasses import dataclass
from typing import Dict, Literal, Optional

import mashumaro
from mashumaro.codecs.json import JSONDecoder, JSONEncoder
from mashumaro.mixins.json import DataClassJSONMixin


class Level(enum.IntEnum):
    LOW = 1


@dataclass
class Flags(DataClassJSONMixin):
    x: Dict[bool, int]


@dataclass
class Levels(DataClassJSONMixin):
    x: Dict[Level, int]


@dataclass
class Opt(DataClassJSONMixin):
    x: Dict[Optional[int], int]


@dataclass
class Lit(DataClassJSONMixin):
    x: Dict[Literal[1, 2], int]


violations = 0
for cls, value in (
    (Flags, Flags({False: 1})),
    (Levels, Levels({Level.LOW: 1})),
    (Opt, Opt({None: 1})),
    (Lit, Lit({2: 1})),
):
    doc = value.to_json()
    # the basic form itself round trips
    assert cls.from_dict(value.to_dict()) == value
    try:
        got = cls.from_json(doc)
    except Exception as e:
        got = f"{type(e).__name__}: {e}"
    print(f"{cls.__name__}: document {doc}")
    print(f"   expected {value!r}")
    print(f"   observed {got!r}")
    if got != value:
        violations += 1

# the codec objects behave the same way
enc = JSONEncoder(Dict[bool, int]).encode({False: 1})
dec = JSONDecoder(Dict[bool, int]).decode(enc)
print("JSONDecoder(Dict[bool, int]):", enc, "->", dec, "expected {False: 1}")
if dec != {False: 1}:
    violations += 1

print("VIOLATION" if violations else "no violation", violations)
