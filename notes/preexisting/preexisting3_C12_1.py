"""A KeyError raised while the selected variant is being built (a hook,
__post_init__, __init__) is reported as SuitableVariantNotFoundError for a tag
that IS known, (on repeated attempts the variant is also run twice per call)."""
from dataclasses import dataclass
from typing import Annotated

import mashumaro
from mashumaro import DataClassDictMixin
from mashumaro.codecs import BasicDecoder
from mashumaro.config import BaseConfig
from mashumaro.exceptions import SuitableVariantNotFoundError
from mashumaro.types import Discriminator

calls = []


@dataclass
class Base(DataClassDictMixin):
    class Config(BaseConfig):
        discriminator = Discriminator(field="type", include_subtypes=True)


@dataclass
class A(Base):
    type = "a"
    x: int = 0

    @classmethod
    def __pre_deserialize__(cls, d):
        calls.append("pre")
        d["required_by_hook"]  # KeyError: the input is invalid for A
        return d


@dataclass
class PlainBase:
    pass


@dataclass
class PlainA(PlainBase):
    type = "a"
    x: int = 0

    def __post_init__(self):
        raise KeyError("lookup failed inside PlainA")


def observe(func, data):
    try:
        return repr(func(data))
    except Exception as e:  # noqa
        return f"{type(e).__name__}: {e}"


violation = False
for label, func in (
    ("config", Base.from_dict),
    (
        "codec",
        BasicDecoder(
            Annotated[
                PlainBase, Discriminator(field="type", include_subtypes=True)
            ]
        ).decode,
    ),
):
    calls.clear()
    observed = observe(func, {"type": "a", "x": 1})
    print(f"{label}: observed {observed}")
    print(f"{label}: expected the KeyError of class A to propagate "
          "(tag 'a' is known)")
    if observed.startswith(SuitableVariantNotFoundError.__name__):
        violation = True
    if label == "config":
        calls.clear()
        observe(func, {"type": "a", "x": 1})
        print(f"{label}: pre-deserialize hook calls during the second "
              f"attempt: {len(calls)} (expected 1)")
print("VIOLATION" if violation else "no violation")
