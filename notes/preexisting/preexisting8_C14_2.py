"""Generic flavour of the same history dependence, with mixin classes only:
the specialised method `__mashumaro_to_dict_<hash of type args>__` is created
on demand on the class named in the annotation, and called through the
instance.  A Sub[T] instance in a Box[int] field is packed by Box's
specialised method until some other class first needs Sub[int]; from then on
the very same call returns Sub's fields as well."""
import mashumaro
from dataclasses import dataclass
from typing import Generic, TypeVar
from mashumaro import DataClassDictMixin
from mashumaro.config import BaseConfig

T = TypeVar("T")


@dataclass
class Box(Generic[T], DataClassDictMixin):
    item: T


@dataclass
class Sub(Box[T]):
    extra: int = 0


@dataclass
class HoldsBox(DataClassDictMixin):
    b: Box[int]


@dataclass
class HoldsSub(DataClassDictMixin):
    s: Sub[int]

    class Config(BaseConfig):
        lazy_compilation = True


before = HoldsBox(Sub(1, 2)).to_dict()
HoldsSub(Sub(3, 4)).to_dict()  # first use of a lazily compiled related class
after = HoldsBox(Sub(1, 2)).to_dict()
print("before first use of HoldsSub:", before)
print("after  first use of HoldsSub:", after)
print("expected: both equal")
if before != after:
    print("VIOLATION")
