"""Scalar members are only "type-matched" at their declared position; their
coercing unpackers are deferred until after ALL other members.  So the result
is not that of the first member in declaration order that accepts the input:
Union[int, list[int]] given "12" yields [1, 2] (second member) although
int("12") == 12 (first member) accepts it.  (tests/test_union.py pins the
analogous Union[str, List[str]] <- [1, 2] == ["1", "2"].)"""
from typing import Union
import mashumaro
from mashumaro.codecs import BasicDecoder

bad = False
for U, v, exp in [
    (Union[int, list[int]], "12", 12),
    (Union[str, list[str]], [1, 2], "[1, 2]"),
    (Union[float, dict[str, int]], "1.5", 1.5),
]:
    try:
        got = BasicDecoder(U).decode(v)
    except Exception as e:
        got = f"raised {type(e).__name__}({e})"
    print("decode", U, repr(v), "->", repr(got), " expected (declaration order)", repr(exp))
    bad = bad or got != exp
print("VIOLATION" if bad else "ok")
