# A dataclass that refers to itself BY NAME (Optional["Node"], List["Tree"])
# works through the mixin methods and when nested in a mixin class, but no
# codec can be created for it (AttributeError while the codec is built);
# mutually recursive classes end in RecursionError.  (typing.Self works.)
from dataclasses import dataclass
from datetime import date
from typing import List, Optional

import mashumaro  # noqa
from mashumaro import DataClassDictMixin
from mashumaro.codecs.basic import BasicDecoder, BasicEncoder


@dataclass
class Node(DataClassDictMixin):
    d: date
    n: Optional["Node"] = None


@dataclass
class PlainNode:
    d: date
    n: Optional["PlainNode"] = None


@dataclass
class Holder(DataClassDictMixin):
    n: PlainNode


@dataclass
class A(DataClassDictMixin):
    b: Optional["B"] = None


@dataclass
class B(DataClassDictMixin):
    a: Optional[A] = None


def run(f):
    try:
        return f()
    except RecursionError:
        return "RecursionError"
    except Exception as e:
        return f"{type(e).__name__}: {e}"


x = Node(date(2020, 1, 1), Node(date(2020, 1, 2)))
expected = x.to_dict()
print("Node.to_dict(x)              :", expected)
obs = [
    run(lambda: BasicEncoder(Node).encode(x)),
    run(lambda: BasicEncoder(List[Node]).encode([x])[0]),
    run(lambda: BasicDecoder(Node).decode(expected)),
]
print("BasicEncoder(Node).encode(x) :", obs[0])
print("BasicEncoder(List[Node])...  :", obs[1])
print("BasicDecoder(Node).decode(..):", obs[2], " expected:", x)
p = PlainNode(date(2020, 1, 1), PlainNode(date(2020, 1, 2)))
nested = Holder(p).to_dict()["n"]
obs_plain = run(lambda: BasicEncoder(PlainNode).encode(p))
print("Holder(n=p).to_dict()['n']   :", nested)
print("BasicEncoder(PlainNode)...   :", obs_plain)
a = A(B(A()))
obs_mutual = run(lambda: BasicEncoder(A).encode(a))
print("A.to_dict(a)                 :", a.to_dict())
print("BasicEncoder(A).encode(a)    :", obs_mutual)
if (
    obs[0] != expected
    or obs[2] != x
    or obs_plain != nested
    or obs_mutual != a.to_dict()
):
    print("VIOLATION: codecs disagree with the mixin / nested entry points")
