# A field whose annotation becomes Optional only after resolution (type variable of a
# generic dataclass, PEP 695 alias, Final[...]) is packed without a None check:
# to_dict raises AttributeError for the conforming value None.
import mashumaro
from dataclasses import dataclass
from datetime import datetime
from typing import Final, Generic, Optional, TypeVar
from mashumaro import DataClassDictMixin
from mashumaro.codecs.basic import decode, encode

T = TypeVar("T")
hit = False


def attempt(label, fn, expected):
    global hit
    try:
        got = fn()
    except Exception as e:
        got = f"{type(e).__name__}: {e}"
    bad = got != expected
    hit |= bad
    print(f"{label}: observed {got!r}, expected {expected!r}{'  <-- VIOLATION' if bad else ''}")


@dataclass
class Box(Generic[T], DataClassDictMixin):
    x: T


@dataclass
class Holder(DataClassDictMixin):
    b: Box[Optional[datetime]]


@dataclass
class BoxO(Box[Optional[datetime]]):
    pass


type OptDT = datetime | None


@dataclass
class A(DataClassDictMixin):
    x: OptDT


@dataclass
class F(DataClassDictMixin):
    x: Final[Optional[datetime]]


attempt("Holder(Box[Optional[datetime]]) with None",
        lambda: Holder.from_dict(Holder(Box(None)).to_dict()), Holder(Box(None)))
attempt("subclass of Box[Optional[datetime]] with None",
        lambda: BoxO.from_dict(BoxO(None).to_dict()), BoxO(None))
attempt("codec Box[Optional[datetime]] with None",
        lambda: decode(encode(Box(None), Box[Optional[datetime]]), Box[Optional[datetime]]), Box(None))
attempt("PEP 695 alias 'datetime | None' with None",
        lambda: A.from_dict(A(None).to_dict()), A(None))
attempt("Final[Optional[datetime]] with None",
        lambda: F.from_dict(F(None).to_dict()), F(None))
print("VIOLATION" if hit else "not reproduced")
