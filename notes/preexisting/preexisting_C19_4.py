"""Mixins vs codecs: a field typed Base holding a Sub instance.  The mixin
entry point dispatches on the instance (Sub's hooks run, Sub's fields kept);
BasicEncoder calls the function compiled for Base (Sub's hooks never run)."""
from dataclasses import dataclass

import mashumaro
from mashumaro import DataClassDictMixin
from mashumaro.codecs import BasicEncoder

TRACE = []


@dataclass
class Base(DataClassDictMixin):
    n: int


@dataclass
class Sub(Base):
    def __pre_serialize__(self):
        TRACE.append("pre")
        return self

    def __post_serialize__(self, d):
        TRACE.append("post")
        return d


@dataclass
class Holder(DataClassDictMixin):
    b: Base


v = Holder(Sub(1))
v.to_dict()
mixin_trace = TRACE[:]
TRACE.clear()
BasicEncoder(Holder).encode(v)
codec_trace = TRACE[:]
print("mashumaro:", mashumaro.__file__)
print("mixin trace:", mixin_trace)
print("codec trace:", codec_trace)
print("expected   : both", ["pre", "post"])
print("OK" if mixin_trace == codec_trace == ["pre", "post"] else "VIOLATION: entry points disagree on the hook trace")
