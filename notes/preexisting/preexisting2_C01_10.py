# The documented deserialization engines do not invert isoformat():
#  - "pendulum": a naive datetime comes back aware (UTC), an aware time loses its tzinfo,
#    and every value is a pendulum class instead of the datetime class
#  - "ciso8601": a time member can never be read back (parse_datetime rejects a bare time)
import mashumaro
from dataclasses import dataclass, field
from datetime import date, datetime, time, timezone
from mashumaro import DataClassDictMixin

hit = False


def check(obj):
    global hit
    try:
        wire = obj.to_dict()
        got = type(obj).from_dict(wire)
        bad = got != obj or any(
            type(getattr(got, n)) is not type(getattr(obj, n)) for n in obj.__dataclass_fields__
        )
    except Exception as e:
        got, bad = f"{type(e).__name__}: {e}", True
    hit |= bad
    print(f"observed {got!r}\nexpected {obj!r}{'  <-- VIOLATION' if bad else ''}")


try:
    import pendulum  # noqa

    @dataclass
    class P(DataClassDictMixin):
        a: datetime = field(metadata={"deserialize": "pendulum"})
        c: time = field(metadata={"deserialize": "pendulum"})

    check(P(datetime(2020, 1, 1, 1, 2, 3), time(1, 2, 3, tzinfo=timezone.utc)))
except ImportError:
    print("pendulum not installed")
try:
    import ciso8601  # noqa

    @dataclass
    class C(DataClassDictMixin):
        a: time = field(metadata={"deserialize": "ciso8601"})

    check(C(time(1, 2, 3)))
except ImportError:
    print("ciso8601 not installed")
print("VIOLATION" if hit else "not reproduced")
