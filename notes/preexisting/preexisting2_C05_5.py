# A dataclass with an InitVar pseudo-field: the builder skips InitVar
# annotations, never reads the key and calls cls(...) without it, so every
# input (valid or not) ends in a raw TypeError from __init__.
from dataclasses import dataclass, InitVar
import mashumaro
from mashumaro import DataClassDictMixin

@dataclass
class IV(DataClassDictMixin):
    x: int
    scale: InitVar[int]
    def __post_init__(self, scale):
        self.x *= scale

assert IV(2, 3).x == 6
try:
    r = IV.from_dict({"x": 2, "scale": 3})
    print("observed: returned", r)
except Exception as e:
    print(f"observed: {type(e).__name__}: {e}")
    print("expected: an instance (x == 6), or MissingField/InvalidFieldValue naming 'scale'")
    if type(e).__name__ == "TypeError":
        print("VIOLATION")
