"""TOML: omit_none drops a None whose field default is not None, so decoding
fills the default in: decode(encode(v)) != v (mixin and TOMLDecoder)."""
from dataclasses import dataclass
from typing import Optional

import mashumaro
from mashumaro.codecs.toml import TOMLDecoder, TOMLEncoder
from mashumaro.mixins.toml import DataClassTOMLMixin


@dataclass
class Limits(DataClassTOMLMixin):
    name: str
    retries: Optional[int] = 3  # None means "unlimited"


value = Limits("a", None)
doc = value.to_toml()
got = Limits.from_toml(doc)
got2 = TOMLDecoder(Limits).decode(TOMLEncoder(Limits).encode(value))
print("document:", repr(doc))
print("expected", value, "observed", got, "/", got2)
assert Limits.from_dict(value.to_dict()) == value
print("VIOLATION" if got != value or got2 != value else "no violation")
