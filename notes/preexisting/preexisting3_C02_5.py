"""The specialised to_dict of a generic dataclass is cached under a key made of
type_name(arg), which drops Annotated metadata.  Box[str] and
Box[Annotated[str, "upper"]] therefore share ONE compiled method: whichever is
compiled first wins, and the documented 'extend a type with Annotated and
register a serialization strategy for it' is lost or wrongly applied."""
import mashumaro
from dataclasses import dataclass
from typing import Annotated, Generic, TypeVar
from mashumaro import DataClassDictMixin
from mashumaro.config import BaseConfig

U = TypeVar("U")
Upper = Annotated[str, "upper"]


def make_box():
    @dataclass
    class Box(Generic[U], DataClassDictMixin):
        v: U

        class Config(BaseConfig):
            serialization_strategy = {Upper: {"serialize": str.upper}}

    return Box


Box1 = make_box()


@dataclass
class PlainFirst(DataClassDictMixin):
    a: Box1[str]
    b: Box1[Upper]


Box2 = make_box()


@dataclass
class AnnotatedFirst(DataClassDictMixin):
    b: Box2[Upper]
    a: Box2[str]


o1 = PlainFirst(Box1("s"), Box1("s")).to_dict()
o2 = AnnotatedFirst(Box2("s"), Box2("s")).to_dict()
print("observed (plain first)    :", o1)
print("observed (annotated first):", o2)
print("expected (both)           : a.v == 's' and b.v == 'S'")
if not (o1["a"]["v"] == "s" and o1["b"]["v"] == "S") or not (
    o2["a"]["v"] == "s" and o2["b"]["v"] == "S"
):
    print("VIOLATION")
