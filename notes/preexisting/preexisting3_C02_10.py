"""In a union that mixes pass-through members (int, float, str, bool, None)
with converted ones, the pass-through members are matched by EXACT class
(value.__class__ is int / in (int, str)).  Values that the very same member
accepts outside a union - a bool for int, an int for float (PEP 484 numeric
tower), an IntEnum / str subclass - are rejected with InvalidFieldValue /
ValueError, although Union[int, str] (all pass-through) accepts them."""
import mashumaro
from datetime import date
from typing import Union
from mashumaro.codecs.basic import encode

bad = False
for typ, value in (
    (Union[int, str], True),  # control: all members pass through
    (float, 1),  # control: outside a union
    (Union[int, date], True),
    (Union[float, date], 1),
    (Union[date, float, None], 1),
):
    try:
        print(typ, value, "observed:", repr(encode(value, typ)), "expected:", repr(value))
    except Exception as e:
        print(typ, value, f"observed: {type(e).__name__}: {e}", "expected:", repr(value))
        bad = True
if bad:
    print("VIOLATION")
