# datetime.timezone: named zones and sub-minute offsets do not match the UTC offset pattern
import sys; sys.path.insert(0, "/tmp")
import mashumaro
from dataclasses import dataclass
from datetime import timezone, timedelta
from mashumaro import DataClassDictMixin
from preexisting_C06_common import report
@dataclass
class TZ(DataClassDictMixin):
    x: timezone
report("named timezone", TZ, TZ(timezone(timedelta(hours=1), "CET")))
report("offset with seconds", TZ, TZ(timezone(timedelta(seconds=30))))
