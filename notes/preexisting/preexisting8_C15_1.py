# A recursive union placed at a non-trivial position of a composite shape
# (tuple item, NamedTuple/TypedDict member) can be ENcoded but not DEcoded:
# the union unpacker remembers its own call expression *including the outer
# expression* ("value[1]") and re-uses it for the recursive call, so the
# recursion indexes into the inner value.  The element codec alone works.
from datetime import date
from typing import Tuple

import mashumaro  # noqa
from mashumaro.codecs.basic import BasicDecoder, BasicEncoder

type REC = date | list[REC]

value = [date(2020, 1, 1), [date(2020, 1, 2)]]
encoded = BasicEncoder(REC).encode(value)
elementwise = (7, BasicDecoder(REC).decode(encoded))
print("expected (elementwise):", elementwise)
try:
    observed = BasicDecoder(Tuple[int, REC]).decode([7, encoded])
except Exception as e:  # ValueError
    observed = f"{type(e).__name__}: {e}"
print("observed (composite)  :", observed)
assert BasicEncoder(Tuple[int, REC]).encode((7, value)) == [7, encoded]
if observed != elementwise:
    print("VIOLATION: BasicDecoder(Tuple[int, REC]) != elementwise decoding")
