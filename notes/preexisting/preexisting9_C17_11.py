"""String annotations that typing leaves as ForwardRef without a module (a
NamedTuple member on 3.12, the bound of a TypeVar) are evaluated in the
builder's own namespace: NameError while the class is being created."""
import enum
from dataclasses import dataclass
from typing import Generic, NamedTuple, TypeVar

import mashumaro
from mashumaro import DataClassDictMixin

print("mashumaro from", mashumaro.__file__)


class Foo(enum.Enum):
    A = 1


class NT(NamedTuple):
    f: "Foo"


B = TypeVar("B", bound="Foo")
violations = 0


def nt_case():
    @dataclass
    class K(DataClassDictMixin):
        x: NT

    return K.from_dict({"x": [1]}).x.f


def bound_case():
    @dataclass
    class G(DataClassDictMixin, Generic[B]):
        x: B

    return G.from_dict({"x": 1}).x


for label, fn in (("NamedTuple member 'Foo'", nt_case), ("TypeVar(bound='Foo')", bound_case)):
    try:
        observed = repr(fn())
    except NameError as e:
        observed = f"NameError: {e}"
        violations += 1
    except Exception as e:
        observed = f"{type(e).__name__}: {e}"
    print(f"{label}: observed {observed}; expected <Foo.A: 1>")
if violations:
    print("VIOLATION")
