# Under no_copy_collections a union with one conversion-free list/dict member passes
# EVERY list/dict by reference: the pass-through branch is hoisted in front of the other
# members and is guarded only by `value.__class__ is list`, so a value of another
# member (List[P], Dict[str, date]) that needs conversion is returned unconverted and
# shared -- although that member is declared first and the default dialect converts it.
from dataclasses import dataclass
from datetime import date
from typing import Dict, List, Union

import mashumaro
from mashumaro import DataClassDictMixin
from mashumaro.config import BaseConfig
from mashumaro.dialect import Dialect


class NoCopy(Dialect):
    no_copy_collections = (list, dict)


@dataclass
class P(DataClassDictMixin):
    a: int


@dataclass
class Plain(DataClassDictMixin):
    x: Union[List[P], List[int]]
    y: Union[Dict[str, date], Dict[str, int]]


@dataclass
class WithNoCopy(DataClassDictMixin):
    x: Union[List[P], List[int]]
    y: Union[Dict[str, date], Dict[str, int]]

    class Config(BaseConfig):
        dialect = NoCopy


args = ([P(1)], {"k": date(2020, 1, 1)})
p = Plain(*args).to_dict()
o = WithNoCopy(*args)
r = o.to_dict()
print("default dialect:", p)
print("no_copy dialect:", r, "(expected the same content as above)")
print("result['x'] is obj.x ->", r["x"] is o.x, "; result['y'] is obj.y ->", r["y"] is o.y,
      "(expected False: the elements need conversion)")
if r["x"] is o.x or r["y"] is o.y:
    print("VIOLATION")
