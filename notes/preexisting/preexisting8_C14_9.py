"""A generic dataclass that refers to itself with *other* type arguments
(Pair[T, S] has a field Optional[Pair[S, T]]).  While Pair[date, int] is being
built, the nested Pair[int, date] is taken for "the class being built" and its
specialised method is never compiled, so (de)serialisation fails -- until some
unrelated class that has a Pair[int, date] field is compiled (here: first use
of a lazy class); from then on the identical calls succeed."""
import sys
import types
from datetime import date
import mashumaro

SRC = """
from __future__ import annotations
from dataclasses import dataclass
from datetime import date
from typing import Generic, TypeVar, Optional
from mashumaro import DataClassDictMixin
from mashumaro.config import BaseConfig

T = TypeVar("T")
S = TypeVar("S")

@dataclass
class Pair(Generic[T, S], DataClassDictMixin):
    a: T
    b: S
    c: Optional[Pair[S, T]] = None

@dataclass
class Holder(DataClassDictMixin):
    p: Pair[date, int]

@dataclass
class Other(DataClassDictMixin):
    q: Pair[int, date]
    class Config(BaseConfig):
        lazy_compilation = True
"""
m = types.ModuleType("fam")
sys.modules["fam"] = m
exec(SRC, m.__dict__)


def attempt(f):
    try:
        return repr(f())
    except Exception as e:
        return f"{type(e).__name__}: {e}"


def pack():
    obj = m.Holder(m.Pair(date(2020, 1, 1), 1, m.Pair(2, date(2020, 2, 2))))
    return obj.to_dict()


def unpack():
    return m.Holder.from_dict(
        {"p": {"a": "2020-01-01", "b": 1, "c": {"a": 2, "b": "2020-02-02"}}}
    )


before = attempt(pack), attempt(unpack)
m.Other(m.Pair(1, date(2020, 3, 3))).to_dict()  # first use of the lazy class
m.Other.from_dict({"q": {"a": 1, "b": "2020-03-03"}})
after = attempt(pack), attempt(unpack)
print("to_dict   before Other was first used:", before[0])
print("to_dict   after  Other was first used:", after[0])
print("from_dict before Other was first used:", before[1][:160])
print("from_dict after  Other was first used:", after[1])
print("expected: the same outcome before and after")
if before != after:
    print("VIOLATION")
