"""timezone is pinned as 'UTC' or 'UTC+hh:mm' / 'UTC-hh:mm', but an offset with
seconds or microseconds (legal since Python 3.7) is rendered 'UTC+hh:mm:ss' /
'UTC+hh:mm:ss.ffffff'."""
import re
import mashumaro
from datetime import timedelta, timezone
from mashumaro.codecs.basic import encode

bad = False
for tz in (
    timezone(timedelta(hours=1, minutes=30)),
    timezone(timedelta(hours=1, minutes=30, seconds=15)),
    timezone(-timedelta(microseconds=1)),
):
    observed = encode(tz, timezone)
    ok = re.fullmatch(r"UTC([+-]\d\d:\d\d)?", observed) is not None
    print(repr(tz), "observed:", observed, "| matches UTC[+-]hh:mm:", ok)
    bad |= not ok
if bad:
    print("VIOLATION")
