"""Diamond inheritance.  dataclasses merges the complete field tables of the
bases in reversed MRO order, so a field overridden on one branch is restored
by the other branch; mashumaro takes the annotation from get_type_hints(),
where the override wins.  Here D.x is an ordinary constructor parameter with
default 1, but from_dict sees InitVar and never reads the key; in the second
half the roles are swapped and a ClassVar is passed to the constructor."""
from dataclasses import InitVar, dataclass, fields
from typing import ClassVar

import mashumaro
from mashumaro import DataClassDictMixin

violations = 0


@dataclass
class A(DataClassDictMixin):
    x: int = 1


@dataclass
class B(A):
    x: InitVar[int] = 2


@dataclass
class C(A):
    pass


@dataclass
class D(C, B):
    pass


print("dataclass fields of D:", [(f.name, f.type, f.default) for f in fields(D)])
expected = D(x=7)
observed = D.from_dict({"x": 7})
print(f"observed {observed!r}, expected {expected!r}")
if observed != expected:
    violations += 1


@dataclass
class A2(DataClassDictMixin):
    x: ClassVar[int] = 1
    y: int = 0


@dataclass
class B2(A2):
    x: int = 2


@dataclass
class C2(A2):
    pass


@dataclass
class D2(C2, B2):
    pass


print("dataclass fields of D2:", [f.name for f in fields(D2)])
expected = D2(y=3)
try:
    observed = D2.from_dict({"x": 7, "y": 3})
except Exception as e:
    observed = e
print(f"observed {observed!r}, expected {expected!r}")
if observed != expected:
    violations += 1

if violations:
    print("VIOLATION")
