# helper shared by the /tmp/preexisting_C06_<n>.py repro scripts
import json, os, sys
if os.path.isdir("/tmp/c06_libs"):
    sys.path.append("/tmp/c06_libs")
try:
    from jsonschema import Draft202012Validator
except ImportError:
    Draft202012Validator = None
from mashumaro.jsonschema import build_json_schema


def report(title, typ, value, **kw):
    doc = json.loads(json.dumps(value.to_dict()))
    schema = json.loads(json.dumps(build_json_schema(typ, **kw).to_dict()))
    print("==", title)
    print("document:", json.dumps(doc))
    print("schema:  ", json.dumps(schema))
    if Draft202012Validator is not None:
        errors = [e.message for e in Draft202012Validator(schema).iter_errors(doc)]
        print("observed: validator errors =", errors)
    else:
        print("observed: (jsonschema package not importable, inspect by eye)")
    print("expected: no validation errors")
    return doc, schema
