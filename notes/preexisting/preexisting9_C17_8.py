"""A module-level class is looked up by name when the generated code runs:
after the name is rebound to another class (same module-qualified name) the
deserializer of a dataclass annotated with the first class uses the second."""
import enum
from dataclasses import dataclass

import mashumaro
from mashumaro import DataClassDictMixin

print("mashumaro from", mashumaro.__file__)


class Color(enum.Enum):
    RED = 1


@dataclass
class A(DataClassDictMixin):
    x: Color


assert A.from_dict({"x": 1}).x is Color.RED  # the path has even been exercised
Annotated = Color


class Color(enum.Enum):  # noqa: F811  a distinct class with the same qualified name
    RED = "r"


try:
    obj = A.from_dict({"x": 1})
    observed = repr(obj)
    ok = obj.x is Annotated.RED
except Exception as e:
    observed = f"{type(e).__name__}: {e}"
    ok = False
try:
    obj2 = A.from_dict({"x": "r"})
    observed2 = f"{obj2!r} (x is a member of the annotated class: {type(obj2.x) is Annotated})"
    ok2 = False
except Exception as e:
    observed2 = f"{type(e).__name__}"
    ok2 = True
print(f"from_dict({{'x': 1}}): observed {observed}; expected A(x=<Color.RED: 1>) of the annotated class")
print(f"from_dict({{'x': 'r'}}): observed {observed2}; expected InvalidFieldValue")
if not (ok and ok2):
    print("VIOLATION")
