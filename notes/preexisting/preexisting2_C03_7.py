"""Codec entry point: could_be_none is computed with is_optional(shape_type)
only, which does not look through a PEP 695 alias or a NewType.  None is then
fed to int() although the shape is Optional[int].  The same alias used as a
dataclass field works.
"""
from dataclasses import dataclass
from typing import NewType, Optional

import mashumaro
from mashumaro import DataClassDictMixin
from mashumaro.codecs.basic import decode

type OptInt = int | None
OptInt2 = NewType("OptInt2", Optional[int])


@dataclass
class A(DataClassDictMixin):
    x: OptInt


print("field x: OptInt, None ->", A.from_dict({"x": None}))
print("decode(None, Optional[int]) ->", decode(None, Optional[int]))
bad = False
for name, t in (("type OptInt = int | None", OptInt), ("NewType(Optional[int])", OptInt2)):
    try:
        print(f"decode(None, {name}) ->", decode(None, t))
    except Exception as e:
        bad = True
        print(f"decode(None, {name}) -> raised {type(e).__name__}: {e}")
print("expected: None")
if bad:
    print("VIOLATION: decoder for an alias of Optional[int] rejects None")
