"""A ClassVar (or InitVar) of a dataclass ancestor is a pseudo-field kept in
__dataclass_fields__.  When a non-dataclass class earlier in the MRO annotates
the same name, get_type_hints() no longer says ClassVar, the name is found in
the ancestors' __dataclass_fields__, and from_dict reads the key from the
input and passes it to the constructor, which has no such parameter."""
from dataclasses import dataclass, fields
from typing import ClassVar

import mashumaro
from mashumaro import DataClassDictMixin


@dataclass
class A(DataClassDictMixin):
    kind: ClassVar[str] = "a"
    x: int = 0


class Tagged:  # not a dataclass
    kind: str


@dataclass
class B(Tagged, A):
    pass


print("dataclass fields:", [f.name for f in fields(B)])
expected = B(x=1)
results = []
for data in ({"x": 1}, {"x": 1, "kind": "zzz"}):
    try:
        observed = B.from_dict(data)
    except Exception as e:
        observed = e
    results.append(observed)
    print(f"from_dict({data}): observed {observed!r}, expected {expected!r}")
if any(r != expected for r in results):
    print("VIOLATION")
