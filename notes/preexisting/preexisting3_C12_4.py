"""Without a field the subclasses are walked parent first (pre-order), so an
intermediate class is tried BEFORE its own subclasses: the input of the deepest
class is deserialized as its supertype, dropping data. (Subtypes are only tried
before the annotated base, not before the supertypes among themselves.)"""
from dataclasses import dataclass
from typing import Annotated

import mashumaro
from mashumaro import DataClassDictMixin
from mashumaro.codecs import BasicDecoder
from mashumaro.config import BaseConfig
from mashumaro.types import Discriminator


@dataclass
class Base(DataClassDictMixin):
    class Config(BaseConfig):
        discriminator = Discriminator(include_subtypes=True)


@dataclass
class A(Base):
    x: int


@dataclass
class A1(A):
    y: int


@dataclass
class P:
    pass


@dataclass
class Q(P):
    x: int


@dataclass
class Q1(Q):
    y: int


o1 = repr(Base.from_dict({"x": 1, "y": 2}))
print("config: observed", o1, "| expected A1(x=1, y=2)")
dec = BasicDecoder(
    Annotated[P, Discriminator(include_subtypes=True, include_supertypes=True)]
)
o2 = repr(dec.decode({"x": 1, "y": 2}))
print("codec: observed", o2, "| expected Q1(x=1, y=2)")
print(
    "VIOLATION"
    if o1 != "A1(x=1, y=2)" or o2 != "Q1(x=1, y=2)"
    else "no violation"
)
