"""Pre-existing bug 2: Config-discriminated ORJSON hierarchy, order dependent.

The tag -> class map of a Config based discriminator is shared between the
"dict" and "json" formats, and the fast path calls
    map[tag].__mashumaro_from_dict_json__(value)
without checking that the class defines that method ITSELF.

Sequence:
  1. A.from_json(tag 1)  -> builds S1.__mashumaro_from_dict_json__
  2. define S2(S1)       -> S2 only INHERITS S1's json method
  3. A.from_dict(tag 2)  -> rescan registers tag 2 -> S2 in the shared map
  4. A.from_json(tag 2)  -> fast path hit, no AttributeError, S1's method runs
                            with cls=S2 (S1's fields / Literal[1] check)
"""

from dataclasses import dataclass
from datetime import date
from typing import Literal

import mashumaro  # noqa: F401
from mashumaro.config import BaseConfig
from mashumaro.mixins.orjson import DataClassORJSONMixin
from mashumaro.types import Discriminator


@dataclass
class A(DataClassORJSONMixin):
    class Config(BaseConfig):
        discriminator = Discriminator(field="type", include_subtypes=True)


@dataclass
class S1(A):
    x: int = 0
    type: Literal[1] = 1


def run(label, thunk):
    try:
        print(f"{label}: returned {thunk()!r}")
    except Exception as e:  # noqa: BLE001
        print(f"{label}: raised {type(e).__name__}: {e}")


print("step 1  expected: S1(x=5, type=1)")
run("step 1  observed", lambda: A.from_json('{"type":1,"x":5}'))


# defined after the first from_json call
@dataclass
class S2(S1):
    y: date = date(2000, 1, 1)
    type: Literal[2] = 2


print()
print("step 3  expected: S2(x=5, type=2, y=datetime.date(2023, 1, 2))")
run(
    "step 3  observed",
    lambda: A.from_dict({"type": 2, "x": 5, "y": "2023-01-02"}),
)

print()
print("step 4  expected: S2(x=5, type=2, y=datetime.date(2023, 1, 2))")
run(
    "step 4  observed",
    lambda: A.from_json('{"type":2,"x":5,"y":"2023-01-02"}'),
)
