# PRE-EXISTING (C15): the specialised method of a generic dataclass is stored ON THE
# CLASS under a name derived from md5(type_name(type args)).  Two distinct argument
# classes with the same module-qualified name give the same method name, so the
# second specialisation G[B] silently reuses the method compiled for G[A]:
# nested use (Outer2.f) disagrees with the codec for the same type G[B], and what
# Outer2 does depends on Outer1 having been created before.
from dataclasses import dataclass
from typing import Generic, TypeVar

import mashumaro
from mashumaro import DataClassDictMixin
from mashumaro.codecs import BasicEncoder

T = TypeVar("T")


def make(kind):
    if kind == "int":
        @dataclass
        class Item:
            a: int
    else:
        @dataclass
        class Item:
            b: str
    return Item


A, B = make("int"), make("str")


@dataclass
class G(Generic[T]):
    x: T


@dataclass
class Outer1(DataClassDictMixin):
    f: G[A]


@dataclass
class Outer2(DataClassDictMixin):
    f: G[B]


print("mashumaro:", mashumaro.__file__)
value = G(B("x"))
expected = BasicEncoder(G[B]).encode(value)
print("expected  BasicEncoder(G[B]).encode(v) :", expected)
try:
    observed = Outer2(value).to_dict()["f"]
except Exception as e:
    observed = repr(e)
print("observed  Outer2(f=v).to_dict()['f']   :", observed)
print("SAME" if expected == observed else "DIFFERENT -> property violated")
