"""Hooks of a plain (non-mixin) dataclass subclass are skipped when an instance
of it sits in a field annotated with its parent -- unless the subclass happens
to have been compiled earlier (history dependent, dict format only)."""
from dataclasses import dataclass

import mashumaro
from mashumaro import DataClassDictMixin
from mashumaro.mixins.orjson import DataClassORJSONMixin

TRACE = []


@dataclass
class Parent:
    x: int = 1


@dataclass
class Child(Parent):
    y: int = 2

    def __pre_serialize__(self):
        TRACE.append("pre Child")
        return self

    def __post_serialize__(self, d):
        TRACE.append("post Child")
        return d


@dataclass
class Holder(DataClassORJSONMixin):
    p: Parent


expected = ["pre Child", "post Child"]
violation = False

TRACE.clear()
out = Holder(Child()).to_dict()
print("to_dict            :", out, "trace", TRACE, "expected", expected)
first = list(TRACE)
violation |= first != expected

TRACE.clear()
out = Holder(Child()).to_jsonb()
print("to_jsonb (same obj):", out, "trace", TRACE, "expected", expected)
# the orjson entry point runs the hooks -> entry points disagree


# now something unrelated compiles Child ...
@dataclass
class Other(DataClassDictMixin):
    c: Child


TRACE.clear()
out = Holder(Child()).to_dict()
print("to_dict afterwards :", out, "trace", TRACE, "expected", expected)
violation |= first != list(TRACE)  # same call, different hook trace

if violation:
    print("VIOLATION: hooks of the serialized Child instance did not run "
          "(and whether they run depends on what was compiled before)")
else:
    print("ok")
