# Two different unions inside ONE shape / field share the FieldContext: the
# first union stores its packer/unpacker call in field_ctx, and when a second,
# recursive union reaches its recursion point it re-uses *the first union's*
# method.  Encoding raises, decoding silently returns wrong data, although
# each element codec works on its own.
from datetime import date
from typing import Tuple, Union

import mashumaro  # noqa
from mashumaro.codecs.basic import BasicDecoder, BasicEncoder

type REC = date | list[REC]
U = Union[date, int]

value = [date(2020, 1, 1), [date(2020, 1, 2)]]
enc_elem = [BasicEncoder(U).encode(1), BasicEncoder(REC).encode(value)]
print("expected encode:", enc_elem)
try:
    enc = BasicEncoder(Tuple[U, REC]).encode((1, value))
except Exception as e:
    enc = f"{type(e).__name__}: {e}"
print("observed encode:", enc)

dec_elem = (BasicDecoder(U).decode(1), BasicDecoder(REC).decode(enc_elem[1]))
print("expected decode:", dec_elem)
try:
    dec = BasicDecoder(Tuple[U, REC]).decode(enc_elem)
except Exception as e:
    dec = f"{type(e).__name__}: {e}"
print("observed decode:", dec)
if enc != enc_elem or dec != dec_elem:
    print("VIOLATION: composite codec != elementwise codecs")
