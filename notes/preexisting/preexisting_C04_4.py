"""A union member whose deserialization is the format's pass-through (bytes in
msgpack; datetime/date/time in TOML) accepts ANY value when decoding: the union
unpacker emits an unconditional ``return value`` for it, so later members are
never tried.  The value round-trips through to_dict/from_dict but not through
the format."""
from dataclasses import dataclass
from datetime import date
from decimal import Decimal
from typing import Union

import mashumaro  # noqa
from mashumaro import DataClassDictMixin
from mashumaro.codecs.msgpack import MessagePackDecoder, MessagePackEncoder
from mashumaro.codecs.toml import TOMLDecoder, TOMLEncoder
from mashumaro.mixins.msgpack import DataClassMessagePackMixin
from mashumaro.mixins.toml import DataClassTOMLMixin


@dataclass
class Point(DataClassDictMixin):
    x: int


@dataclass
class M(DataClassMessagePackMixin):
    v: Union[bytes, Point]


@dataclass
class T(DataClassTOMLMixin):
    v: Union[date, Decimal]
    w: Union[date, Point] = date(2000, 1, 1)


bad = False
for cls, values, enc, dec, Enc, Dec in (
    (M, [b"raw", Point(1)], "to_msgpack", "from_msgpack",
     MessagePackEncoder, MessagePackDecoder),
    (T, [date(2024, 1, 2), Decimal("1.5")], "to_toml", "from_toml",
     TOMLEncoder, TOMLDecoder),
):
    for value in values:
        obj = cls(value)
        via_dict = cls.from_dict(obj.to_dict())
        via_mixin = getattr(cls, dec)(getattr(obj, enc)())
        via_codec = Dec(cls).decode(Enc(cls).encode(obj))
        ok = via_mixin == obj and via_codec == obj
        bad |= not ok
        print(f"{cls.__name__}({value!r}): dict round trip {via_dict == obj}; "
              f"{enc}/{dec} -> {via_mixin!r}; codec -> {via_codec!r}; "
              f"expected {obj!r}  {'OK' if ok else 'MISMATCH'}")
obj = T(date(2024, 1, 2), Point(1))
back = T.from_toml(obj.to_toml())
print(f"{obj!r}: dict round trip {T.from_dict(obj.to_dict()) == obj}; to_toml/from_toml -> {back!r}  {'OK' if back == obj else 'MISMATCH'}")
bad |= back != obj
print("DEFECT REPRODUCED" if bad else "ok")
