# (by design upstream, listed for completeness) For a generic mixin dataclass
# the mixin methods reached through the specialised alias GM[date] ignore the
# type argument, every other entry point honours it.
from dataclasses import dataclass
from datetime import date
from typing import Generic, List, TypeVar

import mashumaro  # noqa
from mashumaro import DataClassDictMixin
from mashumaro.codecs.basic import BasicDecoder, BasicEncoder

T = TypeVar("T")


@dataclass
class GM(Generic[T], DataClassDictMixin):
    v: T


@dataclass
class Outer(DataClassDictMixin):
    f: GM[date]


x = GM(date(2020, 1, 1))
m = GM[date].to_dict(x)
c = BasicEncoder(GM[date]).encode(x)
n = Outer(x).to_dict()["f"]
print("GM[date].to_dict(x)              :", m)
print("BasicEncoder(GM[date]).encode(x) :", c)
print("Outer(f=x).to_dict()['f']        :", n)
dm = GM[date].from_dict(c)
dc = BasicDecoder(GM[date]).decode(c)
print("GM[date].from_dict(..)           :", dm)
print("BasicDecoder(GM[date]).decode(..):", dc)
if m != c or dm != dc:
    print("VIOLATION: mixin methods of GM[date] ignore the type argument")
