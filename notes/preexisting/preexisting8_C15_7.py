# A format mixin class (msgpack here) that refers to itself by name and has
# ADD_DIALECT_SUPPORT: the first to_msgpack(dialect=D) raises AttributeError
# ('__mashumaro_to_dict_msgpack__' is never built: the dialect builder takes
# the nested occurrence of the class for the method under construction), while
# to_dict(dialect=D) works.  After ONE plain to_msgpack() call the very same
# to_msgpack(dialect=D) call works -> history dependence.  Same for from_msgpack.
from dataclasses import dataclass
from datetime import date
from typing import Optional

import msgpack

import mashumaro  # noqa
from mashumaro.config import ADD_DIALECT_SUPPORT, BaseConfig
from mashumaro.dialect import Dialect
from mashumaro.mixins.msgpack import DataClassMessagePackMixin


class D(Dialect):
    serialization_strategy = {
        date: {"serialize": date.toordinal, "deserialize": date.fromordinal}
    }


@dataclass
class N(DataClassMessagePackMixin):
    d: date
    nxt: Optional["N"] = None

    class Config(BaseConfig):
        code_generation_options = [ADD_DIALECT_SUPPORT]


def run(f):
    try:
        return f()
    except Exception as e:
        return f"{type(e).__name__}: {e}"[:120]


x = N(date(2020, 1, 1), N(date(2020, 1, 2)))
expected = x.to_dict(dialect=D)
raw = msgpack.packb(expected)
first = run(lambda: msgpack.unpackb(x.to_msgpack(dialect=D)))
first_dec = run(lambda: N.from_msgpack(raw, dialect=D))
x.to_msgpack()
N.from_msgpack(x.to_msgpack())
second = run(lambda: msgpack.unpackb(x.to_msgpack(dialect=D)))
second_dec = run(lambda: N.from_msgpack(raw, dialect=D))
print("to_dict(dialect=D)                         :", expected)
print("to_msgpack(dialect=D), first call          :", first)
print("to_msgpack(dialect=D) after to_msgpack()   :", second)
print("from_msgpack(dialect=D), first call        :", first_dec)
print("from_msgpack(dialect=D) after from_msgpack():", second_dec)
if first != expected or first != second or first_dec != second_dec:
    print("VIOLATION: format method disagrees with to_dict and with itself")
