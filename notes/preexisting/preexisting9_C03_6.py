"""A default of None makes a non-nullable field accept an explicit None:
``x: int = None`` decodes {"x": None} to x=None, while the same annotation
without that default rejects it."""
from dataclasses import dataclass

import mashumaro  # noqa
from mashumaro import DataClassDictMixin


@dataclass
class C(DataClassDictMixin):
    x: int = None  # type: ignore


@dataclass
class D(DataClassDictMixin):
    x: int = 0


try:
    d = D.from_dict({"x": None})
except Exception as e:  # noqa
    d = f"raised {type(e).__name__}"
print("control  x: int = 0    <- None:", d)
try:
    observed = C.from_dict({"x": None})
except Exception as e:  # noqa
    observed = f"raised {type(e).__name__}"
print("observed x: int = None <- None:", observed, "; expected a rejection "
      "(None is not an int)")
if isinstance(observed, C) and not isinstance(observed.x, int):
    print("VIOLATION")
