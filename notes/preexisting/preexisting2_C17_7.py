"""The method compiled for a specialisation of a generic dataclass is cached on
the class under md5(type_name(args)).  Two distinct classes with the same
qualified name (here: produced by one factory) share that key, so Box[Item#2]
silently reuses the code bound to Item#1."""
from dataclasses import dataclass
from typing import Generic, List, TypeVar

import mashumaro
from mashumaro import DataClassDictMixin

T = TypeVar("T")


@dataclass
class Box(DataClassDictMixin, Generic[T]):
    items: List[T]


def make_item(extra):
    if extra:

        @dataclass
        class Item(DataClassDictMixin):
            a: int
            b: int = 7

    else:

        @dataclass
        class Item(DataClassDictMixin):
            a: int

    return Item


I1, I2 = make_item(False), make_item(True)


@dataclass
class H1(DataClassDictMixin):
    box: Box[I1]


@dataclass
class H2(DataClassDictMixin):
    box: Box[I2]


r1 = H1.from_dict({"box": {"items": [{"a": 1}]}})
r2 = H2.from_dict({"box": {"items": [{"a": 1}]}})
ok1 = type(r1.box.items[0]) is I1
ok2 = type(r2.box.items[0]) is I2
print("expected: H1 items are I1 instances, H2 items are I2 instances (a=1, b=7)")
print(f"observed: H1 item is I1: {ok1}; H2 item is I2: {ok2}; H2 item = {r2.box.items[0]!r}")
if not (ok1 and ok2):
    print("VIOLATION")
