"""A type-keyed serialization strategy (Config.serialization_strategy or a
dialect) whose return annotation mentions the key type again sends
build_json_schema into unbounded recursion.  The serializer applies the
strategy once; the schema generator re-applies it to the inner occurrence of
the type, for ever: RecursionError (Optional[int]) or, when the RecursionError
happens to be swallowed by the `except Exception` around
get_function_return_annotation, a garbage schema nested hundreds of levels
deep (List[int]).
"""
import json
import warnings
from dataclasses import dataclass
from typing import List, Optional

import mashumaro  # noqa: F401
from mashumaro import DataClassDictMixin
from mashumaro.config import BaseConfig
from mashumaro.jsonschema import build_json_schema


def zero_as_null(value: int) -> Optional[int]:
    return value or None


def wrap(value: int) -> List[int]:
    return [value]


@dataclass
class A(DataClassDictMixin):
    x: int

    class Config(BaseConfig):
        serialization_strategy = {int: {"serialize": zero_as_null}}


@dataclass
class B(DataClassDictMixin):
    x: int

    class Config(BaseConfig):
        serialization_strategy = {
            int: {"serialize": wrap, "deserialize": lambda v: v[0]}
        }


print("to_dict works:", A(0).to_dict(), A(3).to_dict(), B(3).to_dict())
violated = False
try:
    print("A ->", build_json_schema(A).to_dict())
except RecursionError as e:
    violated = True
    print(
        f"A: observed RecursionError ({e}); expected "
        "{'x': {'anyOf': [{'type': 'integer'}, {'type': 'null'}]}}"
    )
with warnings.catch_warnings():
    warnings.simplefilter("ignore")
    try:
        text = json.dumps(build_json_schema(B).to_dict())
        depth = text.count('"items"')
        print(f"B -> schema with 'items' nested {depth} times")
        if depth != 1:
            violated = True
            print(
                "B: expected {'x': {'type': 'array', 'items': "
                "{'type': 'integer'}}} (one level)"
            )
    except RecursionError as e:
        violated = True
        print(f"B: observed RecursionError ({e})")
print("VIOLATION" if violated else "ok")
