"""A bare InitVar annotation (no subscript) is an init-only pseudo-field for
dataclasses (`a_type is InitVar or type(a_type) is InitVar`), is_init_var only
accepts the subscripted form, so the class cannot be built at all."""
from dataclasses import InitVar, dataclass, fields

import mashumaro
from mashumaro import DataClassDictMixin

try:

    @dataclass
    class A(DataClassDictMixin):
        x: int = 1
        scale: InitVar = 5

    observed = A.from_dict({"x": 3, "scale": 9})
    expected = A(x=3)
    print("dataclass fields:", [f.name for f in fields(A)])
    print(f"observed {observed!r}, expected {expected!r}")
    if observed != expected:
        print("VIOLATION")
except Exception as e:
    print(f"observed {e!r}, expected a class whose from_dict ignores 'scale'")
    print("VIOLATION")
