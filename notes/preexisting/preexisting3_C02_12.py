"""Dict[K, V] with pass-through keys and values is serialized by value.copy(),
which keeps the CLASS of a dict subclass (defaultdict, OrderedDict, Counter),
whereas Mapping / DefaultDict / OrderedDict annotations build a plain dict.
The result is not 'exactly dict' (low severity: equal to the plain dict and
accepted by json.dumps, but e.g. a defaultdict keeps growing on lookups)."""
import collections
import mashumaro
from typing import DefaultDict, Dict
from mashumaro.codecs.basic import encode

dd = collections.defaultdict(int, a=1)
observed = type(encode(dd, Dict[str, int]))
control = type(encode(dd, DefaultDict[str, int]))
print("Dict[str, int] with a defaultdict value -> observed", observed, "expected", dict)
print("DefaultDict[str, int] (control)         ->", control)
if observed is not dict:
    print("VIOLATION")
