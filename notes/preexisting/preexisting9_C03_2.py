"""A user subclass of str / list / dict (or a concrete ABC implementation
such as collections.UserList, UserDict, UserString, KeysView) is accepted as an
annotation, but the value is rebuilt as the plain builtin: the result is not an
instance of the annotation (a look-alike)."""
import collections
import collections.abc
from dataclasses import dataclass
from typing import Dict, List

import mashumaro  # noqa
from mashumaro import DataClassDictMixin
from mashumaro.codecs.basic import decode


class MyStr(str):
    pass


class IntList(List[int]):
    pass


class StrIntDict(Dict[str, int]):
    pass


@dataclass
class Holder(DataClassDictMixin):
    s: MyStr
    l: IntList
    d: StrIntDict


bad = 0
obj = Holder.from_dict({"s": "a", "l": ["1"], "d": {"k": "2"}})
for name, ann in (("s", MyStr), ("l", IntList), ("d", StrIntDict)):
    v = getattr(obj, name)
    ok = isinstance(v, ann)
    print(f"Holder.{name}: observed {v!r} of {type(v).__name__}, "
          f"expected an instance of {ann.__name__}")
    bad += not ok

for shape, data in (
    (collections.UserList[int], ["1"]),
    (collections.UserDict[str, int], {"k": "2"}),
    (collections.UserString, "abc"),
    (collections.abc.KeysView[str], ["a"]),
):
    v = decode(data, shape)
    origin = getattr(shape, "__origin__", shape)
    ok = isinstance(v, origin)
    print(f"{shape}: observed {v!r} of {type(v).__name__}, "
          f"expected an instance of {origin.__name__}")
    bad += not ok

if bad:
    print("VIOLATION")
