"""dataclasses.field(metadata=...) accepts any mapping; a key that is not a
string (the documented 'namespace per third party' use) is ignored by the
serializers but makes build_json_schema crash: Instance.metadata copies the
mapping with dict(**mapping), which requires string keys.
"""
from dataclasses import dataclass, field

import mashumaro  # noqa: F401
from mashumaro import DataClassDictMixin
from mashumaro.jsonschema import build_json_schema


class OtherLibrary:
    """used as a metadata namespace key by some other library"""


@dataclass
class A(DataClassDictMixin):
    x: int = field(default=1, metadata={OtherLibrary: {"doc": "the x"}})


print("to_dict works:", A().to_dict(), A.from_dict({"x": 2}))
try:
    print(build_json_schema(A).to_dict())
    print("ok")
except Exception as e:
    print(
        f"observed {type(e).__name__}: {e}; expected "
        "{'x': {'type': 'integer', 'default': 1}}"
    )
    print("VIOLATION")
