"""The class name (cls.__name__) is pasted into the names of the helper
functions that are generated for Literal / Union / TypedDict / NamedTuple
members ("def __literal_{cls.__name__}_{field}__{hex}(...)").  A dataclass
made with make_dataclass()/type() may have any string as its name; Python and
dataclasses accept it and mashumaro handles it as long as no helper function
is needed, but with a Literal (or Union, TypedDict, ...) member the class can
not be built."""
from dataclasses import make_dataclass
from typing import Literal, Optional, Union

import mashumaro
from mashumaro import DataClassDictMixin

violation = False
for name in ("Plain", "my-model", "v1.Item", "it's"):
    for label, ftype in (("int", int), ("Literal", Literal["q"]), ("Union", Union[int, str])):
        value = 1 if ftype is int else ("q" if label == "Literal" else "s")
        try:
            C = make_dataclass(name, [("a", ftype)], bases=(DataClassDictMixin,))
            observed = C.from_dict({"a": value}).to_dict()
        except BaseException as e:
            observed = f"{type(e).__name__}: {e}"
        expected = {"a": value}
        print(f"class {name!r} with {label} member: observed {observed!r}, expected {expected!r}")
        if observed != expected:
            violation = True
print("VIOLATION" if violation else "ok")

# The qualified name of a non-local member type is pasted as an expression
# (get_type_name_identifier only rewrites names containing "<locals>"), so a
# functional-API Enum / NamedTuple-like type with a crafted name is executed.
import builtins
import enum
from dataclasses import dataclass

builtins.SENTINEL_HITS = []
Weird = enum.Enum("Color if SENTINEL_HITS.append('executed') else Color", {"RED": "r"})
Weird.__module__ = "builtins"  # any importable module; keeps the path short
builtins.Color = Weird
try:

    @dataclass
    class Holder(DataClassDictMixin):
        c: Weird

    observed = Holder.from_dict({"c": "r"}).c
except BaseException as e:
    observed = f"{type(e).__name__}: {e}"
print(f"enum class with crafted name: observed {observed!r}, expected {Weird.RED!r}")
print(f"sentinel hits: observed {SENTINEL_HITS!r}, expected []")
print("VIOLATION" if SENTINEL_HITS else "ok")
