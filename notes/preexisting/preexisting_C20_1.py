# build_json_schema crashes on a field typed Self (supported by the serializers)
from dataclasses import dataclass
from typing import Optional
from typing_extensions import Self
import mashumaro
from mashumaro import DataClassDictMixin
from mashumaro.jsonschema import build_json_schema

@dataclass
class Node(DataClassDictMixin):
    value: int = 0
    nxt: Optional[Self] = None

print("serializers:", Node(1, Node(2)).to_dict(), Node.from_dict({"value": 1, "nxt": {"value": 2}}))
try:
    print("observed:", build_json_schema(Node).to_dict())
except Exception as e:
    print("observed:", type(e).__name__, e)
print("expected: a schema whose property 'nxt' is anyOf[$ref Node, null] (no exception)")
