"""omit_none is only honoured for fields the builder recognises as nullable
(Optional[X] with exactly two members, Any, None, default None).  A None held by
a field whose annotation admits None in any other way survives omit_none=True."""
from dataclasses import dataclass
from typing import Final, Generic, Literal, NewType, Optional, TypeVar, Union

import mashumaro
from mashumaro import DataClassDictMixin
from mashumaro.config import BaseConfig

type MaybeInt = int | None
NT = NewType("NT", Optional[int])
TB = TypeVar("TB", bound=Optional[int])
T = TypeVar("T")

CASES = {
    "Union[int, str, None]": Union[int, str, None],
    "PEP 695 alias of int | None": MaybeInt,
    "NewType of Optional[int]": NT,
    "Literal[None]": Literal[None],
    "Literal[1, None]": Literal[1, None],
    "Final[Optional[int]]": Final[Optional[int]],
    "TypeVar bound=Optional[int]": TB,
    "control: Optional[int]": Optional[int],
}

violations = 0
for name, ann in CASES.items():
    cls = dataclass(
        type(
            "A",
            (DataClassDictMixin,),
            {
                "__annotations__": {"x": ann},
                "Config": type("Config", (BaseConfig,), {"omit_none": True}),
            },
        )
    )
    observed = cls(None).to_dict()
    expected = {}
    flag = "" if observed == expected else "VIOLATION"
    violations += observed != expected
    print(f"{name:32} observed={observed} expected={expected} {flag}")


@dataclass
class G(Generic[T], DataClassDictMixin):
    x: T

    class Config(BaseConfig):
        omit_none = True


@dataclass
class C(G[Optional[int]]):
    pass


observed = C(None).to_dict()
flag = "" if observed == {} else "VIOLATION"
violations += observed != {}
print(f"{'G[Optional[int]] specialisation':32} observed={observed} expected={{}} {flag}")
print("VIOLATION" if violations else "no violation", violations)
