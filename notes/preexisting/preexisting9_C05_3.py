"""bytes / bytearray fields are decoded with base64.decodebytes, which skips
every character outside the base64 alphabet.  Text that is not base64 at all is
therefore silently turned into b'' (or into a shorter value) instead of raising
InvalidFieldValue: invalid data is replaced by an empty default-like value."""
from dataclasses import dataclass, field

import mashumaro
from mashumaro import DataClassDictMixin
from mashumaro.exceptions import InvalidFieldValue


@dataclass
class A(DataClassDictMixin):
    x: bytes
    y: bytearray = field(default_factory=lambda: bytearray(b"dflt"))


violation = False
for d in ({"x": "@@@!!!"}, {"x": "QUJD@@@***"}, {"x": "QUJD", "y": "éé"}):
    try:
        out = A.from_dict(d)
    except InvalidFieldValue as e:
        out = e
    print("input", d, "observed:", repr(out), "| expected: InvalidFieldValue")
    if not isinstance(out, InvalidFieldValue):
        violation = True
# A round trip does not give these strings back
print("to_dict of the first result:", A.from_dict({"x": "@@@!!!"}).to_dict())
print("VIOLATION" if violation else "ok")
