"""Any as a union member: its pass-through packer is guarded with
`value.__class__ is typing.Any`, which never holds, so a value that only the
Any member accepts is rejected on serialization (deserialization accepts it)."""
import datetime
from typing import Any, Union
import mashumaro
from mashumaro.codecs import BasicDecoder, BasicEncoder

U = Union[datetime.date, Any]
print("decode", U, "'x' ->", repr(BasicDecoder(U).decode("x")))
try:
    got = BasicEncoder(U).encode("x")
except Exception as e:
    got = f"raised {type(e).__name__}({e})"
print("encode", U, "'x' ->", got, " expected 'x'")
print("VIOLATION" if got != "x" else "ok")
