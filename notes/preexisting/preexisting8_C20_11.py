"""mashumaro.jsonschema.annotations.DependentRequired (and any other
unhashable Annotated metadata, e.g. Contains(JSONArraySchema())) cannot be
used on a member of a DataClassDictMixin class at all: class creation dies
with TypeError in is_nullable() (`resolved_type_params.get(typ, typ)` hashes
the Annotated type), so no schema can ever be built for such a class.  A plain
dataclass with the same member gets a proper schema.
"""
from dataclasses import dataclass
from typing import Dict

from typing_extensions import Annotated

import mashumaro  # noqa: F401
from mashumaro import DataClassDictMixin
from mashumaro.jsonschema import build_json_schema
from mashumaro.jsonschema.annotations import DependentRequired

Billing = Annotated[
    Dict[str, str], DependentRequired({"credit_card": {"billing_address"}})
]


@dataclass
class Plain:
    data: Billing


print("plain dataclass:", build_json_schema(Plain).to_dict()["properties"])
try:

    @dataclass
    class Mixed(DataClassDictMixin):
        data: Billing

    print("mixin dataclass:", build_json_schema(Mixed).to_dict()["properties"])
    print("ok")
except TypeError as e:
    print(
        f"observed {type(e).__name__}: {e} while creating the class; "
        "expected the same schema as for the plain dataclass"
    )
    print("VIOLATION")
