"""JSONSchema.from_dict(d).to_dict() is not always the identity on a document
that carries dependentRequired: the model stores each value as a set
(dict[str, set[str]]) and serializes it in set iteration order, which depends
on the history of the set object (insertion order under hash collisions, or a
table that grew and shrank), not only on its contents.  The set rebuilt by
from_dict can therefore iterate -- and serialize -- in another order.

Hash randomisation makes the strings differ from run to run, so the script
searches for a witness (it finds one within a few attempts).
"""
from typing import Dict

from typing_extensions import Annotated

import mashumaro  # noqa: F401
from mashumaro.jsonschema import build_json_schema
from mashumaro.jsonschema.annotations import DependentRequired
from mashumaro.jsonschema.models import JSONSchema

witness = None
for attempt in range(200):
    names = {f"field_{attempt}_{i}" for i in range(2000)}
    keep = sorted(names)[:6]
    for name in list(names):  # the table stays large after the removals
        if name not in keep:
            names.discard(name)
    assert names == set(keep)
    shape = Annotated[Dict[str, int], DependentRequired({"trigger": names})]
    d = build_json_schema(shape).to_dict()
    d2 = JSONSchema.from_dict(d).to_dict()
    if d != d2:
        witness = (d, d2)
        break

if witness is None:
    print("no witness found in 200 attempts")
    print("ok")
else:
    d, d2 = witness
    print("observed to_dict(s)                    :", d["dependentRequired"])
    print("observed to_dict(from_dict(to_dict(s))):", d2["dependentRequired"])
    print("expected: the same document")
    print("VIOLATION")
