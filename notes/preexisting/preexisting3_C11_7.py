"""Literal positions compare with == only, so of two listed constants that
are equal but distinct (1 / True, 0 / False) the first one listed is returned
for both inputs, although the input itself is a listed value."""
from typing import Literal
import mashumaro
from mashumaro.codecs import BasicDecoder

bad = False
for L, v in [
    (Literal[1, True], True),
    (Literal[True, 1], 1),
    (Literal[0, False], False),
    (Literal[False, 0], 0),
]:
    got = BasicDecoder(L).decode(v)
    print("decode", L, repr(v), "->", repr(got), " expected", repr(v))
    bad = bad or type(got) is not type(v)
print("VIOLATION" if bad else "ok")
