"""omit_none / omit_default look at the raw attribute, not at the serialized
value.  (a) A serialize method / strategy that maps a non-None value to None
leaves a None-valued key in the output although omit_none is in effect.
(b) float('nan') defaults are special-cased for omit_default, Decimal('NaN')
defaults are not, so the key is never omitted even when the field holds the
very default object."""
import decimal
from dataclasses import dataclass, field
from typing import Optional

import mashumaro
from mashumaro import DataClassDictMixin
from mashumaro.config import BaseConfig

n = 0


@dataclass
class A(DataClassDictMixin):
    x: Optional[int] = field(
        default=0, metadata={"serialize": lambda v: None if v == 0 else v}
    )

    class Config(BaseConfig):
        omit_none = True


obs = A().to_dict()
print("(a) omit_none, serialize -> None: observed", obs, "expected {}", "VIOLATION" if obs != {} else "")
n += obs != {}

NAN = decimal.Decimal("NaN")


@dataclass
class B(DataClassDictMixin):
    x: decimal.Decimal = NAN
    y: float = float("nan")

    class Config(BaseConfig):
        omit_default = True


obs = B().to_dict()
print("(b) omit_default, Decimal('NaN') default: observed", obs, "expected {}", "VIOLATION" if obs != {} else "")
n += obs != {}
print("VIOLATION" if n else "no violation", n)
