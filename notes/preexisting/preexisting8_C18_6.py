# from_dict / to_dict look required TypedDict keys and the discriminator up with
# value[key]; on a defaultdict that lookup INSERTS the missing key instead of raising
# KeyError.  So deserialization mutates its input (and accepts it instead of reporting
# the missing key / discriminator), and serialization mutates the object.
import collections
import copy
from dataclasses import dataclass
from typing import List, TypedDict

import mashumaro
from mashumaro import DataClassDictMixin
from mashumaro.config import BaseConfig
from mashumaro.types import Discriminator


class TD(TypedDict):
    a: List[int]


@dataclass
class H(DataClassDictMixin):
    td: TD


@dataclass
class V(DataClassDictMixin):
    class Config(BaseConfig):
        discriminator = Discriminator(field="type", include_subtypes=True)


@dataclass
class V1(V):
    type: str = "v1"


hit = False

inp = {"td": collections.defaultdict(list)}
before = copy.deepcopy(inp)
try:
    print("from_dict ->", H.from_dict(inp), "(expected: an error for the missing key 'a')")
except Exception as e:
    print("from_dict raised", type(e).__name__)
print("input before:", before, "after:", inp)
hit |= inp != before

inp = collections.defaultdict(list)
try:
    V.from_dict(inp)
except Exception as e:
    print("from_dict raised", type(e).__name__, "(expected MissingDiscriminatorError)")
print("input before: {} after:", dict(inp))
hit |= bool(inp)

obj = H(td=collections.defaultdict(list))
before = copy.deepcopy(obj)
try:
    print("to_dict ->", obj.to_dict())
except Exception as e:
    print("to_dict raised", type(e).__name__)
print("object before:", before, "after:", obj)
hit |= obj != before

if hit:
    print("VIOLATION")
