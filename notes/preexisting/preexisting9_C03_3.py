"""Type arguments of a generic dataclass are matched against the type
variables in the order they are first seen in the *bases*, not in the order of
the class's own parameter list (Generic[...] / __parameters__).  When a child
re-orders the variables, Child[int, str] is decoded with the two swapped."""
from dataclasses import dataclass
from typing import Generic, TypeVar

import mashumaro  # noqa
from mashumaro import DataClassDictMixin
from mashumaro.codecs.basic import decode

T = TypeVar("T")
S = TypeVar("S")


@dataclass
class Base(Generic[T, S]):
    x: T
    y: S


@dataclass
class Child(Base[S, T], Generic[T, S]):
    pass


assert Child.__parameters__ == (T, S)
# Child[int, str]: T=int, S=str  ->  Base[str, int]  ->  x: str, y: int
expected = Child(x="5", y=7)
observed = decode({"x": "5", "y": "7"}, Child[int, str])
print("decode Child[int, str]: observed", observed, "expected", expected)


@dataclass
class Holder(DataClassDictMixin):
    c: Child[int, str]


observed2 = Holder.from_dict({"c": {"x": "5", "y": "7"}})
print("Holder.from_dict: observed", observed2, "expected", Holder(expected))
if observed != expected or observed2 != Holder(expected) or type(observed.x) is not str:
    print("VIOLATION")
