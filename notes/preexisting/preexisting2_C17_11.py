"""Types are reached by attribute traversal from the top-level package
(`pkg.sub.Cls`).  When the package rebinds the submodule's name -- the common
`from .settings import settings` in pkg/__init__.py -- `pkg.settings` is no
longer the module and the generated code fails with AttributeError, although
the class object named in the annotation is perfectly importable."""
import os
import sys
import tempfile
from dataclasses import dataclass

import mashumaro
from mashumaro import DataClassDictMixin

root = tempfile.mkdtemp()
os.makedirs(os.path.join(root, "shadowpkg"))
with open(os.path.join(root, "shadowpkg", "__init__.py"), "w") as f:
    f.write("from .settings import settings\n")
with open(os.path.join(root, "shadowpkg", "settings.py"), "w") as f:
    f.write(
        "import enum\n"
        "class Mode(enum.Enum):\n"
        "    FAST = 'fast'\n"
        "settings = {'mode': Mode.FAST}\n"
    )
sys.path.insert(0, root)
from shadowpkg.settings import Mode  # noqa: E402


@dataclass
class Job(DataClassDictMixin):
    mode: Mode


print("expected: Job(mode=<Mode.FAST: 'fast'>)")
try:
    print("observed:", Job.from_dict({"mode": "fast"}))
except Exception as e:
    cause = e
    while cause.__context__ is not None:
        cause = cause.__context__
    print(f"observed: {type(e).__name__} <- {type(cause).__name__}: {cause}")
    print("VIOLATION")
