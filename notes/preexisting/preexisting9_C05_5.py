"""A field typed by a TypeVar with a bound (or with a default) is unpacked
"as if it was Optional[bound]": None is accepted for a required, non-nullable
field although the builder itself (is_nullable) does not consider the field
nullable, e.g. its JSON schema says {"type": "integer"}.  Likewise a field
annotated with the type None accepts any garbage and stores None."""
from dataclasses import dataclass
from typing import Generic, List, TypeVar

import mashumaro
from mashumaro import DataClassDictMixin
from mashumaro.exceptions import InvalidFieldValue
from mashumaro.jsonschema import build_json_schema

T = TypeVar("T", bound=int)


@dataclass
class G(DataClassDictMixin, Generic[T]):
    x: T
    xs: List[T]


@dataclass
class I(DataClassDictMixin):
    x: int


@dataclass
class N(DataClassDictMixin):
    x: None


violation = False
print("schema of G.x:", build_json_schema(G).to_dict()["properties"]["x"])
for cls, d in ((I, {"x": None}), (G, {"x": None, "xs": [1, None]}), (N, {"x": "garbage"}), (N, {"x": [1, 2]})):
    try:
        out = cls.from_dict(d)
    except InvalidFieldValue as e:
        out = e
    print(cls.__name__, "input", d, "observed:", repr(out), "| expected: InvalidFieldValue")
    if cls is not I and not isinstance(out, InvalidFieldValue):
        violation = True
print("VIOLATION" if violation else "ok")
