"""A Config that is a plain class (not a BaseConfig subclass) is merged with
BaseConfig using only its own __dict__, so every option it *inherits* from a
plain parent Config is shadowed by the BaseConfig default.  The class config says
omit_none / serialize_by_alias / omit_default / sort_keys are on, the output is
the plain one."""
from dataclasses import dataclass, field
from typing import Optional

import mashumaro
from mashumaro import DataClassDictMixin, field_options
from mashumaro.config import BaseConfig


class CommonPlain:
    omit_none = True
    serialize_by_alias = True
    omit_default = True
    sort_keys = True


class CommonBase(BaseConfig):
    omit_none = True
    serialize_by_alias = True
    omit_default = True
    sort_keys = True


def make(parent):
    @dataclass
    class A(DataClassDictMixin):
        z: int = 5
        a: Optional[int] = None
        b: int = field(default=1, metadata=field_options(alias="bb"))

        class Config(parent):
            pass

    return A


expected = {"bb": 2, "z": 7}
ctrl = make(CommonBase)(7, None, 2).to_dict()
obs = make(CommonPlain)(7, None, 2).to_dict()
print("Config(BaseConfig-derived parent): observed", ctrl, "expected", expected)
print("Config(plain parent)             : observed", obs, "expected", expected)
assert getattr(make(CommonPlain).Config, "omit_none") is True  # the option is visible on the class
bad = obs != expected or list(obs) != list(expected)
print("VIOLATION" if bad else "no violation")
