"""A use_annotations strategy registered for an Annotated alias key is applied
to its own output for ever (RecursionError while the class is being built).

The strategy's annotations say it turns the alias into a plain ``int``; the
plain ``int`` should then get the built-in rendering.  But the ValueSpec that
is built for the strategy's value type keeps ``annotated_type`` of the alias
(Registry.get only ever sets it, never clears it), so the alias key is looked
up again for the plain ``int`` and the same registration wins again.
The same registration under a NewType alias key works.
"""
from dataclasses import dataclass
from typing import Annotated, NewType

import mashumaro
from mashumaro import DataClassDictMixin
from mashumaro.config import BaseConfig
from mashumaro.types import SerializationStrategy


class Plus1000(SerializationStrategy, use_annotations=True):
    def serialize(self, value: int) -> int:
        return value + 1000

    def deserialize(self, value: int) -> int:
        return value - 1000


def build(alias):
    @dataclass
    class C(DataClassDictMixin):
        x: alias

        class Config(BaseConfig):
            serialization_strategy = {alias: Plus1000()}

    return C(1).to_dict(), C.from_dict({"x": 1001})


expected = "({'x': 1001}, C(x=1))"
print("NewType alias key  :", build(NewType("N", int)), "(control)")
try:
    observed = repr(build(Annotated[int, "tag"]))
except RecursionError as e:
    observed = f"RecursionError: {e}"
print("Annotated alias key: observed", observed)
print("                     expected", expected)
if "RecursionError" in observed:
    print("VIOLATION: the alias registration is applied again to its own "
          "output instead of exactly once")
