# A specialised generic TypedDict loses its optional keys: __required_keys__ /
# __optional_keys__ are read from the alias TD[int] (dunder attributes are not forwarded
# by typing aliases), so every key is treated as required and a conforming value without
# an optional key raises KeyError in both directions.
import mashumaro
from typing import Generic, TypedDict, TypeVar
from typing_extensions import NotRequired
from mashumaro.codecs.basic import decode, encode

T = TypeVar("T")


class TD(TypedDict, Generic[T], total=False):
    x: T
    y: int


class TD2(TypedDict, Generic[T]):
    x: NotRequired[T]
    y: int


hit = False
for S, v in ((TD[int], {"y": 1}), (TD2[int], {"y": 1}), (TD, {"y": 1})):
    try:
        got = decode(encode(v, S), S)
    except Exception as e:
        got = f"{type(e).__name__}: {e}"
    bad = got != v
    hit |= bad
    print(f"{S}: observed {got!r}, expected {v!r}{'  <-- VIOLATION' if bad else ''}")
try:
    got = decode({"y": 1}, TD[int])
except Exception as e:
    got = f"{type(e).__name__}: {e}"
print(f"decode only: observed {got!r}, expected {{'y': 1}}")
hit |= got != {"y": 1}
print("VIOLATION" if hit else "not reproduced")
