"""A schema-supplied string that is an instance of a str SUBCLASS (a member of
a str-mixin Enum / StrEnum -- the usual way to keep key constants) is spliced
with repr(), which for such objects is not a string literal
("<Keys.FOO: 'foo'>"), so the class can not be built.  Hits metadata alias,
Annotated Alias, Config.aliases, TypedDict keys and Discriminator.field."""
import enum
from dataclasses import dataclass, field
from typing import Annotated, TypedDict

import mashumaro
from mashumaro import DataClassDictMixin
from mashumaro.config import BaseConfig
from mashumaro.types import Alias, Discriminator


class Keys(str, enum.Enum):
    FOO = "foo"


class SKeys(enum.StrEnum):
    FOO = "foo"


violations = 0


def attempt(label, build, expected):
    global violations
    try:
        observed = build()
    except BaseException as e:
        observed = f"{type(e).__name__}: {e}"
    ok = observed == expected
    print(f"{label}: observed {observed!r}, expected {expected!r}")
    if not ok:
        violations += 1


for K in (Keys, SKeys):
    assert isinstance(K.FOO, str) and K.FOO == "foo"

    def meta_alias():
        @dataclass
        class A(DataClassDictMixin):
            x: int = field(metadata={"alias": K.FOO})

            class Config(BaseConfig):
                serialize_by_alias = True

        return A.from_dict({"foo": 1}).to_dict()

    attempt(f"{K.__name__} metadata alias", meta_alias, {"foo": 1})

    def annotated_alias():
        @dataclass
        class A(DataClassDictMixin):
            x: Annotated[int, Alias(K.FOO)]

        return A.from_dict({"foo": 1}).x

    attempt(f"{K.__name__} Annotated Alias", annotated_alias, 1)

    def config_alias():
        @dataclass
        class A(DataClassDictMixin):
            x: int

            class Config(BaseConfig):
                aliases = {"x": K.FOO}

        return A.from_dict({"foo": 1}).x

    attempt(f"{K.__name__} Config.aliases", config_alias, 1)

    def typed_dict_key():
        TD = TypedDict("TD", {K.FOO: int})

        @dataclass
        class A(DataClassDictMixin):
            t: TD

        return A.from_dict({"t": {"foo": 1}}).to_dict()

    attempt(f"{K.__name__} TypedDict key", typed_dict_key, {"t": {"foo": 1}})

    def discriminator_field():
        @dataclass
        class Base(DataClassDictMixin):
            class Config(BaseConfig):
                discriminator = Discriminator(
                    field=K.FOO, include_subtypes=True
                )

        @dataclass
        class Sub(Base):
            foo = "sub"
            a: int = 0

        return type(Base.from_dict({"foo": "sub", "a": 1})).__name__

    attempt(f"{K.__name__} Discriminator.field", discriminator_field, "Sub")

print("VIOLATION" if violations else "ok", f"({violations} cases)")
