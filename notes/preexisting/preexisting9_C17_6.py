"""The generated from_dict keeps every field in a local `__<field name>`; the
helpers it needs are globals called `__uuid_UUID`, `__re_compile`,
`__datetime_timedelta`, ...  A field called uuid_UUID / re_compile /
datetime_timedelta turns that global into a local of the function."""
import datetime
import re
import uuid
from dataclasses import dataclass

import mashumaro
from mashumaro import DataClassDictMixin

print("mashumaro from", mashumaro.__file__)


@dataclass
class A(DataClassDictMixin):
    id: uuid.UUID
    uuid_UUID: str


@dataclass
class B(DataClassDictMixin):
    re_compile: bool
    pattern: re.Pattern


@dataclass
class C(DataClassDictMixin):
    datetime_timedelta: int
    ttl: datetime.timedelta


U = "12345678123456781234567812345678"
violations = 0
for label, fn, expected in (
    ("field uuid_UUID", lambda: A.from_dict({"id": U, "uuid_UUID": "x"}), repr(A(uuid.UUID(U), "x"))),
    ("field re_compile", lambda: B.from_dict({"re_compile": True, "pattern": "a+"}), repr(B(True, re.compile("a+")))),
    ("field datetime_timedelta", lambda: C.from_dict({"datetime_timedelta": 1, "ttl": 5}), repr(C(1, datetime.timedelta(seconds=5)))),
):
    try:
        observed = repr(fn())
    except Exception as e:
        chain = []
        while e is not None:
            chain.append(f"{type(e).__name__}: {e}")
            e = e.__context__
        observed = " <- ".join(chain)
    if observed != expected:
        violations += 1
    print(f"{label}: observed {observed}; expected {expected}")
if violations:
    print("VIOLATION")
