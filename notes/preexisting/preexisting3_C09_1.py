"""A plain (non-BaseConfig) Config that inherits from the parent's plain Config
loses the inherited options: forbid_extra_keys is no longer enforced and
Config.aliases is forgotten, so keys are not resolved by the documented rules.

CodeBuilder.get_config() wraps a plain Config into
type("Config", (BaseConfig, config_cls), {**BaseConfig.__dict__, **config_cls.__dict__});
the BaseConfig defaults copied into the namespace shadow everything that
config_cls merely inherits from its own bases.
"""
from dataclasses import dataclass

import mashumaro  # noqa
from mashumaro import DataClassDictMixin
from mashumaro.exceptions import ExtraKeysError


@dataclass
class Parent(DataClassDictMixin):
    a: int = 0

    class Config:  # plain Config classes are used throughout the README
        forbid_extra_keys = True
        aliases = {"a": "A"}


@dataclass
class Child(Parent):
    b: int = 0

    class Config(Parent.Config):  # inherits forbid_extra_keys and aliases
        allow_deserialization_not_by_alias = True


assert Child.Config.forbid_extra_keys is True
assert Child.Config.aliases == {"a": "A"}

violation = False

try:
    observed = Child.from_dict({"A": 1, "stranger": 2})
except ExtraKeysError as e:
    observed = ("ExtraKeysError", sorted(e.extra_keys))
expected = ("ExtraKeysError", ["stranger"])
print("extra key : observed", observed, "expected", expected)
violation |= observed != expected

try:
    observed = Child.from_dict({"A": 1})
except ExtraKeysError as e:
    observed = ("ExtraKeysError", sorted(e.extra_keys))
expected = Child(a=1, b=0)
print("alias key : observed", observed, "expected", expected)
violation |= observed != expected

print("VIOLATION" if violation else "no violation")
