"""The variant registry of a discriminated union is filled while scanning the
subclasses; when building the unpacker of one (unrelated) variant raises, the
variants scanned before it stay registered.  So the first call fails with an
error about a class the input does not mention, and the identical second call
succeeds."""
import mashumaro
from dataclasses import dataclass
from typing import Annotated, Literal
from mashumaro import DataClassDictMixin
from mashumaro.types import Discriminator


class Unsupported:
    pass


@dataclass
class Base:
    pass


@dataclass
class V1(Base):
    type: Literal["v1"] = "v1"


@dataclass
class V2(Base):
    type: Literal["v2"] = "v2"
    bad: Unsupported = None


@dataclass
class Outer(DataClassDictMixin):
    v: Annotated[Base, Discriminator(field="type", include_subtypes=True)]


def attempt():
    try:
        return repr(Outer.from_dict({"v": {"type": "v1"}}))
    except Exception as e:
        return f"{type(e).__name__}: {e} (caused by {e.__context__!r})"


first = attempt()
second = attempt()
print("first  call:", first)
print("second call:", second)
print("expected: identical calls have identical outcomes")
if first != second:
    print("VIOLATION")
