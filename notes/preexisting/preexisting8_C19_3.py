"""ADD_DIALECT_SUPPORT + a format with its own nested method (orjson/msgpack) +
call-time dialect: a subclass instance in a field annotated with the parent is
packed by the *parent's* cached dialect packer once the parent has been
serialized with that dialect (the subclass inherits the parent's per-format
dialect cache and the 'not the method owner' guard only exists on the
dialect=None branch).  The subclass's hooks are skipped, history dependent."""
from dataclasses import dataclass

import mashumaro
from mashumaro import DataClassDictMixin
from mashumaro.config import ADD_DIALECT_SUPPORT, BaseConfig
from mashumaro.dialect import Dialect
from mashumaro.mixins.orjson import DataClassORJSONMixin

TRACE = []


class D(Dialect):
    serialization_strategy = {int: {"serialize": str}}


class Cfg(BaseConfig):
    code_generation_options = [ADD_DIALECT_SUPPORT]


@dataclass
class Parent(DataClassDictMixin):
    x: int = 1

    class Config(Cfg):
        pass


@dataclass
class Child(Parent):
    y: int = 2

    def __pre_serialize__(self):
        TRACE.append("pre Child")
        return self

    def __post_serialize__(self, d):
        TRACE.append("post Child")
        return d


@dataclass
class Holder(DataClassORJSONMixin):
    p: Parent

    class Config(Cfg):
        pass


expected = ["pre Child", "post Child"]
# history: a Parent instance goes through the entry point with the dialect first
Holder(Parent()).to_jsonb(dialect=D)
TRACE.clear()
out = Holder(Child()).to_jsonb(dialect=D)
bad = list(TRACE)
print("to_jsonb(dialect=D) after Parent :", out, "trace", bad, "expected", expected)
TRACE.clear()
print("to_dict(dialect=D)               :", Holder(Child()).to_dict(dialect=D), TRACE)
ok_dict = TRACE == expected
TRACE.clear()
print("to_jsonb()                       :", Holder(Child()).to_jsonb(), TRACE)
ok_without_dialect = TRACE == expected
TRACE.clear()
out = Holder(Child()).to_jsonb(dialect=D)
print("to_jsonb(dialect=D) once more    :", out, "trace", TRACE)
if bad != expected:
    print("VIOLATION: hooks of the Child instance skipped (and its field y "
          "dropped) for to_jsonb(dialect=D) after a Parent went first; "
          f"dict format ok={ok_dict}, no dialect ok={ok_without_dialect}, "
          f"same call later ok={TRACE == expected}")
else:
    print("ok")
