"""A subclass instance held in a field typed with its base class loses the
subclass' own fields in to_msgpack / to_jsonb / to_toml, although to_dict keeps
them.  The nested per-format method (__mashumaro_to_dict_<format>__) is only
compiled on demand for the annotated class, so ``value.to_dict_<format>()`` on
a subclass instance resolves to the inherited parent method, whereas to_dict is
compiled for every subclass."""
from dataclasses import dataclass

import msgpack
import orjson
import tomllib

import mashumaro  # noqa
from mashumaro.config import BaseConfig
from mashumaro.mixins.msgpack import DataClassMessagePackMixin
from mashumaro.mixins.orjson import DataClassORJSONMixin
from mashumaro.mixins.toml import DataClassTOMLMixin
from mashumaro.types import Discriminator


class Mixins(DataClassMessagePackMixin, DataClassORJSONMixin, DataClassTOMLMixin):
    pass


@dataclass
class Shape(Mixins):
    kind: str = "shape"

    class Config(BaseConfig):
        discriminator = Discriminator(field="kind", include_subtypes=True)


@dataclass
class Circle(Shape):
    kind: str = "circle"
    radius: int = 0


@dataclass
class Drawing(Mixins):
    shape: Shape


v = Drawing(Circle(radius=7))
basic = v.to_dict()
print("basic form          :", basic)
print("expected everywhere : {'shape': {'kind': 'circle', 'radius': 7}}")
bad = False
for name, parsed, back in (
    ("msgpack", msgpack.unpackb(v.to_msgpack()), Drawing.from_msgpack(v.to_msgpack())),
    ("orjson", orjson.loads(v.to_jsonb()), Drawing.from_json(v.to_jsonb())),
    ("toml", tomllib.loads(v.to_toml()), Drawing.from_toml(v.to_toml())),
):
    print(f"{name:8s} parsed document: {parsed}")
    print(f"{name:8s} decoded        : {back}   (expected {v})")
    bad |= parsed != basic or back != v
print("DEFECT REPRODUCED" if bad else "ok")
