"""A TypeVar with a bound (or a PEP 696 default) is decoded "as if it was
Optional[bound]": None is let through although the annotation has no None.

For an unspecialised generic dataclass with T bound to int, both `x: T` and
`List[T]` yield None, which is not an instance of the bound.
"""
from dataclasses import dataclass
from typing import Generic, List, TypeVar

import mashumaro
from mashumaro import DataClassDictMixin
from mashumaro.codecs.basic import decode

T = TypeVar("T", bound=int)


@dataclass
class G(DataClassDictMixin, Generic[T]):
    x: T
    y: List[T]


r = G.from_dict({"x": None, "y": ["1", None]})
print("G.from_dict({'x': None, 'y': ['1', None]}) ->", r)
print("decode([None], List[T]) ->", decode([None], List[T]))
print("expected: an error, int(None) is not defined (as for x: int)")
if r.x is None or None in r.y:
    print("VIOLATION: None returned for a TypeVar bound to int")
