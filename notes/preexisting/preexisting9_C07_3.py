"""A child that uses the `_: KW_ONLY` sentinel hides an inherited field that is
really called `_`: get_type_hints() reports KW_ONLY for the name, the builder
skips it, and the inherited constructor parameter is never filled from the
input (nor written by to_dict).  dataclasses keeps the field."""
from dataclasses import KW_ONLY, dataclass

import mashumaro
from mashumaro import DataClassDictMixin


@dataclass
class P(DataClassDictMixin):
    _: int = 0
    a: int = 1


@dataclass
class C(P):
    _: KW_ONLY
    b: int = 2


got = C.from_dict({"_": 5, "a": 6, "b": 7})
expected = C(5, 6, b=7)
print("observed", got, "expected", expected)
print("to_dict observed", expected.to_dict(), "expected", {"_": 5, "a": 6, "b": 7})
print("VIOLATION" if got != expected else "no violation")
