"""Generic TypedDict / NamedTuple: a type parameter is substituted only when
the member annotation IS the bare TypeVar.  Inside another type (List[T],
NotRequired[List[T]], Dict[str, T], Optional[T]) it stays unresolved, is
treated like Any and the elements are passed through unconverted.
"""
from dataclasses import dataclass
from typing import Dict, Generic, List, NamedTuple, TypedDict, TypeVar

import mashumaro
from mashumaro import DataClassDictMixin
from mashumaro.codecs.basic import decode

T = TypeVar("T")


class GTD(TypedDict, Generic[T]):
    a: T
    b: List[T]
    c: Dict[str, T]


class GNT(NamedTuple, Generic[T]):
    a: T
    b: List[T]


@dataclass
class Box(DataClassDictMixin, Generic[T]):  # control: generic dataclass
    a: T
    b: List[T]


@dataclass
class Holder(DataClassDictMixin):
    box: Box[int]
    td: GTD[int]
    nt: GNT[int]


r = Holder.from_dict(
    {
        "box": {"a": "1", "b": ["2"]},
        "td": {"a": "1", "b": ["2"], "c": {"k": "3"}},
        "nt": ["1", ["2"]],
    }
)
print("dataclass Box[int] :", r.box)
print("TypedDict GTD[int] :", r.td, " expected {'a': 1, 'b': [2], 'c': {'k': 3}}")
print("NamedTuple GNT[int]:", r.nt, " expected GNT(a=1, b=[2])")
print("codec              :", decode({"a": "1", "b": ["2"], "c": {}}, GTD[int]))
if r.td["b"] == ["2"] or r.nt.b == ["2"]:
    print("VIOLATION: List[T] members of GTD[int] / GNT[int] are not converted to int")
