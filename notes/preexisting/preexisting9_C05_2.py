"""A class with a Config based discriminator reads the tag with value[field].
For a defaultdict input that (a) inserts the key into the caller's object - the
input is modified - and (b) hides the missing tag, so MissingDiscriminatorError
is not raised (the default value is taken as the tag)."""
import collections
from dataclasses import dataclass

import mashumaro
from mashumaro import DataClassDictMixin
from mashumaro.config import BaseConfig
from mashumaro.exceptions import MissingDiscriminatorError
from mashumaro.types import Discriminator


@dataclass
class Base(DataClassDictMixin):
    class Config(BaseConfig):
        discriminator = Discriminator(field="type", include_subtypes=True)


@dataclass
class Sub(Base):
    type = "sub"
    x: int = 0


@dataclass
class Plain(DataClassDictMixin):
    x: int = 0


violation = False
d = collections.defaultdict(list, {"x": 1})
before = dict(d)
try:
    out = Base.from_dict(d)
except Exception as e:
    out = e
print("observed outcome:", repr(out))
print("observed input after the call:", dict(d))
print("expected: MissingDiscriminatorError('type') and the input left as", before)
if dict(d) != before:
    violation = True
if not isinstance(out, MissingDiscriminatorError):
    violation = True
# for comparison: an ordinary class reads with .get and leaves a defaultdict alone
d2 = collections.defaultdict(list)
Plain.from_dict(d2)
assert dict(d2) == {}
print("VIOLATION" if violation else "ok")
