"""PRE-EXISTING (unmodified library): under no_copy_collections some listed,
conversion-free collections are still copied, so "exactly the listed collection
types are passed by reference where their elements need no conversion" does not
hold in the sharing direction.

 * element type Optional[X] with conversion-free X: the inner expression is
   "value if value is not None else None", not the bare "value", so the
   no_copy shortcut is never taken;
 * a nested dataclass without ADD_DIALECT_SUPPORT ignores a run-time dialect,
   so its lists are copied although the outer call asked for no-copy.
"""
from dataclasses import dataclass
from typing import Dict, List, Optional

import mashumaro
from mashumaro import DataClassDictMixin
from mashumaro.config import ADD_DIALECT_SUPPORT, BaseConfig
from mashumaro.dialect import Dialect


class NoCopy(Dialect):
    no_copy_collections = (list, dict)


@dataclass
class A(DataClassDictMixin):
    plain: List[int]
    opt: List[Optional[int]]
    optmap: Dict[str, Optional[int]]

    class Config(BaseConfig):
        dialect = NoCopy


a = A([1], [1, None], {"k": None})
out = a.to_dict()
print("observed: plain shared =", out["plain"] is a.plain,
      "| List[Optional[int]] shared =", out["opt"] is a.opt,
      "| Dict[str, Optional[int]] shared =", out["optmap"] is a.optmap)
print("expected: all three True (list and dict are listed, no element needs conversion)")


@dataclass
class Inner(DataClassDictMixin):
    xs: List[int]


@dataclass
class Outer(DataClassDictMixin):
    xs: List[int]
    inner: Inner

    class Config(BaseConfig):
        code_generation_options = [ADD_DIALECT_SUPPORT]


o = Outer([1], Inner([2]))
out = o.to_dict(dialect=NoCopy)
print("observed: outer list shared =", out["xs"] is o.xs,
      "| nested list shared =", out["inner"]["xs"] is o.inner.xs)
print("expected: both True under to_dict(dialect=NoCopy)")
