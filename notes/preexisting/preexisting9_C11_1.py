"""A recursive union alias that is NOT the first union met in its field
recurses into the method of that first, unrelated union.

FieldContext.unpacker / .packer remember the call of the first union method
built for a field; UnionUnpackerBuilder._get_existing_method / pack_union
return it whenever `spec.owner is spec.type` (a recursion), without checking
that the remembered method belongs to the union that recurses.
"""
import datetime
from dataclasses import dataclass
from typing import Union

import mashumaro
from mashumaro import DataClassDictMixin
from mashumaro.codecs import BasicDecoder, BasicEncoder

type JSON = str | int | float | bool | dict[str, JSON] | list[JSON] | None

violation = False


def check(title, fn, expected):
    global violation
    try:
        observed = fn()
    except Exception as e:
        observed = f"RAISE {type(e).__name__}: {e}"
    bad = observed != expected
    violation |= bad
    print(f"{title}\n   observed: {observed!r}\n   expected: {expected!r}"
          f"{'   <-- VIOLATION' if bad else ''}")


data = [["2020-01-01"]]

# control: the recursive alias is the only union
check("decode list[JSON]",
      lambda: BasicDecoder(list[JSON]).decode(data), data)
# the alias is nested in a member of another union: its recursive positions
# are decoded by the OUTER union (date | list[JSON]), so a nested string that
# looks like a date becomes a date although JSON has no date member
check("decode Union[date, list[JSON]]",
      lambda: BasicDecoder(Union[datetime.date, list[JSON]]).decode(data),
      data)
check("encode Union[date, list[JSON]]",
      lambda: BasicEncoder(Union[datetime.date, list[JSON]]).encode(
          [[datetime.date(2020, 1, 1)]]),
      "RAISE (a date is not a JSON value)")


@dataclass
class A(DataClassDictMixin):
    y: Union[datetime.date, list[JSON]]


check("A.from_dict", lambda: A.from_dict({"y": data}).y, data)

print("VIOLATION" if violation else "no violation")
