"""Classes that are not importable under module.__qualname__ (functional
Enum / NamedTuple / TypedDict / make_dataclass / NewType bound to a variable
with another name) are pasted into the generated code as `module.Name`."""
import dataclasses
import enum
import typing
from dataclasses import dataclass

import mashumaro
from mashumaro import DataClassDictMixin
from mashumaro.exceptions import MissingField

print("mashumaro from", mashumaro.__file__)
E = enum.Enum("Color", "RED GREEN")
NT = typing.NamedTuple("Point", [("a", int), ("b", int)])
TD = typing.TypedDict("Movie", {"a": int})
DC = dataclasses.make_dataclass("Made", [("a", int)])
UID = typing.NewType("UserIdentifier", int)


@dataclass
class WithEnum(DataClassDictMixin):
    x: E


@dataclass
class WithNT(DataClassDictMixin):
    x: NT


@dataclass
class WithTD(DataClassDictMixin):
    x: TD


@dataclass
class WithDC(DataClassDictMixin):
    x: DC


@dataclass
class WithNewType(DataClassDictMixin):
    x: UID


violations = 0


def check(label, fn, expected):
    global violations
    try:
        observed = repr(fn())
    except (NameError, AttributeError) as e:
        observed = f"{type(e).__name__}: {e}"
        violations += 1
    except Exception as e:
        observed = f"{type(e).__name__}"
    print(f"{label}: observed {observed}; expected {expected}")


check("Enum('Color') valid input", lambda: WithEnum.from_dict({"x": 1}), "WithEnum(x=<Color.RED: 1>)")
check("NamedTuple('Point') valid input", lambda: WithNT.from_dict({"x": [1, 2]}), "WithNT(x=Point(a=1, b=2))")
check("TypedDict('Movie') missing field", lambda: WithTD.from_dict({}), "MissingField")
check("TypedDict('Movie') bad value", lambda: WithTD.from_dict({"x": 5}), "InvalidFieldValue")
check("make_dataclass('Made') missing field", lambda: WithDC.from_dict({}), "MissingField")
check("make_dataclass('Made') bad value", lambda: WithDC.from_dict({"x": 5}), "InvalidFieldValue")
check("NewType('UserIdentifier') missing field", lambda: WithNewType.from_dict({}), "MissingField")
if violations:
    print(f"VIOLATION ({violations} paths raise AttributeError of the library's making)")
