"""A registration for NoneType is honoured for the None member of a union
with three or more members, but never for a field of type None, for
Optional[X], or for any top-level field value: the builder short-circuits
None before any customization level is consulted.
"""
from dataclasses import dataclass, field
from typing import Optional, Union

import mashumaro
from mashumaro import DataClassDictMixin
from mashumaro.config import BaseConfig

NoneType = type(None)


@dataclass
class C(DataClassDictMixin):
    none: None = None
    opt: Optional[int] = None
    union3: Union[int, str, None] = None
    in_list_opt: list[Optional[int]] = field(default_factory=lambda: [None])
    in_list_union3: list[Union[int, str, None]] = field(
        default_factory=lambda: [None]
    )

    class Config(BaseConfig):
        serialization_strategy = {
            NoneType: {
                "serialize": lambda v: "null",
                "deserialize": lambda v: "NULL",
            }
        }


ser = C().to_dict()
de = C.from_dict(
    {"none": None, "opt": None, "union3": None, "in_list_opt": [None],
     "in_list_union3": [None]}
)
print("serialize   observed:", ser)
print("deserialize observed:", de)
print("expected: one answer for every None position (either all 'null'/'NULL'"
      " or all None)")
flat = [ser["none"], ser["opt"], ser["union3"], ser["in_list_opt"][0],
        ser["in_list_union3"][0]]
if len(set(map(repr, flat))) > 1:
    print("VIOLATION: the same NoneType registration applies in some "
          "positions and is bypassed in others:", flat)
