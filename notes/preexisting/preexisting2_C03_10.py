"""A dataclass without (init) fields is "decoded" from any input at all: the
dict check lives in the AttributeError handler around the field reads, and
with no fields there is nothing that could raise.
"""
from dataclasses import dataclass
from typing import List

import mashumaro
from mashumaro import DataClassDictMixin


@dataclass
class Empty(DataClassDictMixin):
    pass


@dataclass
class One(DataClassDictMixin):
    a: int = 0


@dataclass
class Holder(DataClassDictMixin):
    e: Empty
    es: List[Empty]


try:
    One.from_dict(5)
except Exception as e:
    print("One.from_dict(5) -> raised", type(e).__name__, e)
r1 = Empty.from_dict(5)
r2 = Holder.from_dict({"e": "zzz", "es": [1, None, "a"]})
print("Empty.from_dict(5) ->", r1)
print("Holder.from_dict({'e': 'zzz', 'es': [1, None, 'a']}) ->", r2)
print("expected: ValueError 'Argument for ... should be a dict instance'")
if isinstance(r1, Empty) and r2.es == [Empty()] * 3:
    print("VIOLATION: non-dict input accepted for a field-less dataclass")
