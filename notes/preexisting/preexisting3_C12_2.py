"""An Annotated / codec discriminator with a field does not make the tag key
an allowed key: with forbid_extra_keys the tagged input of a known class is
rejected with ExtraKeysError (tags given as plain / ClassVar class attributes,
the first two documented forms)."""
from dataclasses import dataclass
from typing import Annotated, ClassVar

import mashumaro
from mashumaro import DataClassDictMixin
from mashumaro.codecs import BasicDecoder
from mashumaro.config import BaseConfig
from mashumaro.types import Discriminator


@dataclass
class Base(DataClassDictMixin):
    class Config(BaseConfig):
        forbid_extra_keys = True


@dataclass
class A(Base):
    type: ClassVar[str] = "a"
    x: int = 0


@dataclass
class Owner(DataClassDictMixin):
    x: Annotated[Base, Discriminator(field="type", include_subtypes=True)]


def observe(func, data):
    try:
        return repr(func(data))
    except Exception as e:  # noqa
        ctx = e.__context__
        return f"{type(e).__name__} (context {type(ctx).__name__}: {ctx})"


violation = False
o1 = observe(Owner.from_dict, {"x": {"type": "a", "x": 1}})
print("annotated field: observed", o1)
print("annotated field: expected Owner(x=A(x=1))")
violation |= "A(x=1)" not in o1
dec = BasicDecoder(
    Annotated[Base, Discriminator(field="type", include_subtypes=True)]
)
o2 = observe(dec.decode, {"type": "a", "x": 1})
print("codec: observed", o2)
print("codec: expected A(x=1)")
violation |= "A(x=1)" not in o2
print("VIOLATION" if violation else "no violation")
