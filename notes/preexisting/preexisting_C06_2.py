# dict with non-str keys: propertyNames demands integer/enum-of-int names, JSON object keys are always strings
import sys; sys.path.insert(0, "/tmp")
import mashumaro
from dataclasses import dataclass
from enum import IntEnum
from mashumaro import DataClassDictMixin
from preexisting_C06_common import report
class E(IntEnum):
    A = 1
@dataclass
class D(DataClassDictMixin):
    a: dict[int, str]
    b: dict[E, str]
report("dict[int, str] / dict[IntEnum, str]", D, D({1: "x"}, {E.A: "y"}))
