"""PEP 646 star syntax: tuple[int, *tuple[str, ...], float].

is_unpack() only recognises typing.Unpack[...]; a star-unpacked
`*tuple[str, ...]` (types.GenericAlias with __unpacked__) is treated as an
ordinary nested tuple member.  A flat input that the annotation describes is
rejected, and a *nested* input that the annotation forbids is accepted.
"""
from typing import Tuple, Unpack

import mashumaro
from mashumaro.codecs.basic import decode

star = tuple[int, *tuple[str, ...], float]
spelled = Tuple[int, Unpack[Tuple[str, ...]], float]

flat = [1, "a", "b", 2]
print("Unpack[...] spelling, flat input :", decode(flat, spelled))
try:
    got = decode(flat, star)
    print("star spelling, flat input        :", got)
    bad_flat = got != (1, "a", "b", 2.0)
except Exception as e:
    print("star spelling, flat input        : raised", type(e).__name__, e)
    bad_flat = True
nested = decode([1, ["a", "b"], 2], star)
print("star spelling, nested input      :", nested, "(expected: an error)")
print("expected for flat input          :", (1, "a", "b", 2.0))
if bad_flat or nested == (1, ("a", "b"), 2.0):
    print("VIOLATION: *tuple[...] member handled as a nested tuple")
