"""Positional constructor arguments are ordered by typing.get_type_hints(),
which walks *every* base class, while dataclasses orders __init__ parameters by
the dataclass bases only.  An annotation of a plain (non-dataclass) base class
that a dataclass later declares as a field therefore moves that field to the
front of mashumaro's positional list and the values of two required inherited
fields are swapped silently."""
from dataclasses import dataclass
from typing import List, Optional

import mashumaro
from mashumaro import DataClassDictMixin
from mashumaro.config import ADD_DIALECT_SUPPORT, BaseConfig
from mashumaro.dialect import Dialect


class Plain:  # not a dataclass, only annotates the name
    b: int


@dataclass
class P(DataClassDictMixin):
    a: int


@dataclass
class Q(P, Plain):
    b: int  # dataclass __init__(self, a, b)


@dataclass
class R(Q):
    c: int = 0  # __init__(self, a, b, c=0); a and b are passed positionally


violation = False
got = R.from_dict({"a": 1, "b": 2})
expected = R(a=1, b=2)
print("eager, inherited positional:", "observed", got, "expected", expected)
if got != expected:
    violation = True


# the same on a single class as soon as it is compiled after @dataclass ran
# (call-time dialect, lazy_compilation, slots=True, codecs)
class D(Dialect):
    pass


@dataclass
class S(DataClassDictMixin, Plain):
    g: List[int]
    b: Optional[int]

    class Config(BaseConfig):
        code_generation_options = [ADD_DIALECT_SUPPORT]


ok = S.from_dict({"g": [8], "b": 196})
got2 = S.from_dict({"g": [8], "b": 196}, dialect=D)
print("call-time dialect:", "observed", got2, "expected", ok)
if got2 != ok:
    violation = True

print("VIOLATION" if violation else "no violation")
