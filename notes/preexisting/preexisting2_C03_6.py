"""DefaultDict[K, V]: the default_factory is spliced in as type_name(V).

For V = typing.List[int] / Optional[int] / Any the factory becomes the typing
construct itself, which cannot be called, so the rebuilt defaultdict raises
TypeError on the first missing key instead of behaving like
defaultdict(list).
"""
from dataclasses import dataclass
from typing import DefaultDict, List

import mashumaro
from mashumaro import DataClassDictMixin


@dataclass
class A(DataClassDictMixin):
    x: DefaultDict[str, List[int]]


r = A.from_dict({"x": {"a": ["1"]}})
print("decoded:", r, "default_factory =", r.x.default_factory)
try:
    v = r.x["missing"]
    print("r.x['missing'] ->", v)
except TypeError as e:
    print("r.x['missing'] -> TypeError:", e)
    print("expected: [] (default_factory list)")
    print("VIOLATION: defaultdict rebuilt with an uncallable default_factory")
