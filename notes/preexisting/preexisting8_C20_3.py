"""A PEP 695 recursive type alias (supported by the codecs and the mixins, see
tests/test_recursive_union.py) makes build_json_schema recurse without bound.
"""
from dataclasses import dataclass

import mashumaro  # noqa: F401
from mashumaro import DataClassDictMixin
from mashumaro.jsonschema import build_json_schema

type JSON = str | int | float | bool | dict[str, JSON] | list[JSON] | None


@dataclass
class Doc(DataClassDictMixin):
    body: JSON


print("serialization works:", Doc.from_dict({"body": {"a": [1, {"b": None}]}}))
violated = False
for shape in (JSON, Doc):
    try:
        print(build_json_schema(shape).to_dict())
    except RecursionError as e:
        violated = True
        print(
            f"{getattr(shape, '__name__', shape)}: observed RecursionError "
            f"({e}); expected a schema (e.g. a $ref for the recursive alias)"
        )
print("VIOLATION" if violated else "ok")
