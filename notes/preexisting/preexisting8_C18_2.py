# A subclass of a typed NamedTuple (the usual way to add methods) has an empty
# __annotations__ of its own; pack_named_tuple/unpack_named_tuple read only
# origin_type.__annotations__, so every member is treated as Any: passed by
# reference and not converted, in both directions.
from dataclasses import dataclass
from datetime import date
from typing import List, NamedTuple

import mashumaro
from mashumaro import DataClassDictMixin


class Point(NamedTuple):
    xs: List[int]
    d: date


class Point2(Point):
    def total(self):
        return sum(self.xs)


@dataclass
class A(DataClassDictMixin):
    p: Point


@dataclass
class B(DataClassDictMixin):
    p: Point2


a = A(Point([1], date(2020, 1, 1)))
b = B(Point2([1], date(2020, 1, 1)))
ra, rb = a.to_dict(), b.to_dict()
print("base class   :", ra, "shared:", ra["p"][0] is a.p.xs)
print("subclass     :", rb, "shared:", rb["p"][0] is b.p.xs, "(expected like the base class)")
src = {"p": [[1], "2020-01-01"]}
back = B.from_dict(src)
print("decode       :", back, "shared:", back.p.xs is src["p"][0], "(expected a date and no sharing)")
if rb["p"][0] is b.p.xs or back.p.xs is src["p"][0]:
    print("VIOLATION")
