"""A class whose __module__ is not (or no longer) in sys.modules, e.g. one
created by exec() in a scratch namespace: add_type_modules() silently skips it
(inspect.getmodule -> None) but the code still says `<module>.<Class>`."""
import enum
from dataclasses import dataclass

import mashumaro
from mashumaro import DataClassDictMixin

ns = {"__name__": "scratch_ns"}
exec(
    """
import enum
from dataclasses import dataclass
class Color(enum.Enum):
    RED = 1
@dataclass
class Pt:
    x: int
""",
    ns,
)
Color, Pt = ns["Color"], ns["Pt"]

violated = False


@dataclass
class A(DataClassDictMixin):
    c: Color


@dataclass
class B(DataClassDictMixin):
    p: Pt


for cls, good, bad, expected in (
    (A, {"c": 1}, {"c": 5}, "A(c=<Color.RED: 1>)"),
    (B, {"p": {"x": 1}}, {"p": {"x": "q"}}, "B(p=Pt(x=1))"),
):
    try:
        observed = repr(cls.from_dict(good))
    except Exception as e:
        cause = e
        while cause.__context__ is not None:
            cause = cause.__context__
        observed = f"{type(e).__name__} <- {type(cause).__name__}: {cause}"
        violated = True
    print(f"{cls.__name__}: expected {expected}; observed {observed}")
    try:
        cls.from_dict(bad)
        observed = "accepted"
    except Exception as e:
        observed = f"{type(e).__name__}: {e}"
        if isinstance(e, (NameError, AttributeError)):
            violated = True
    print(f"{cls.__name__} bad input: expected InvalidFieldValue; observed {observed}")
if violated:
    print("VIOLATION")
