"""omit_default renders a (non-named) tuple default with repr() into the
generated source.  A tuple holding anything whose repr is not a self-contained
literal breaks to_dict: SyntaxError when the class is created, or NameError on
the first to_dict() call, instead of PROJECT(omit_default, plain)."""
import decimal
import enum
import math
from dataclasses import dataclass
from typing import Tuple

import mashumaro
from mashumaro import DataClassDictMixin
from mashumaro.config import BaseConfig


class Color(enum.Enum):
    RED = 1


def check(name, ann, default, plain_default, other, plain_other):
    try:

        @dataclass
        class A(DataClassDictMixin):
            x: ann = default

            class Config(BaseConfig):
                omit_default = True

        observed = (A().to_dict(), A(other).to_dict())
    except BaseException as e:
        observed = f"{type(e).__name__}: {e}"
    expected = ({}, {"x": plain_other})
    bad = observed != expected
    print(f"{name}: observed={observed!r} expected={expected!r}", "VIOLATION" if bad else "")
    return bad


n = 0
n += check("tuple of Enum", Tuple[Color, ...], (Color.RED,), [1], (), [])
n += check("tuple with inf", Tuple[float, ...], (math.inf,), [math.inf], (1.0,), [1.0])
n += check("tuple with nan", Tuple[float, ...], (math.nan,), [math.nan], (1.0,), [1.0])
n += check("tuple of Decimal", Tuple[decimal.Decimal, ...], (decimal.Decimal("1"),), ["1"], (), [])
n += check("control: tuple of int", Tuple[int, ...], (1, 2), [1, 2], (3,), [3])
print("VIOLATION" if n else "no violation", n)
