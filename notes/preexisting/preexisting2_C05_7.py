# A field typed with a bound TypeVar is unpacked "as if Optional[bound]":
# a null for a required, non-optional field yields an instance holding None
# instead of InvalidFieldValue.
from dataclasses import dataclass
from typing import Generic, TypeVar
import mashumaro
from mashumaro import DataClassDictMixin
from mashumaro.exceptions import InvalidFieldValue

T = TypeVar("T", bound=int)

@dataclass
class G(Generic[T], DataClassDictMixin):
    x: T

@dataclass
class Plain(DataClassDictMixin):
    x: int

try:
    Plain.from_dict({"x": None})
except InvalidFieldValue as e:
    print("x: int      observed: InvalidFieldValue", e.field_name, repr(e.field_value))
try:
    r = G.from_dict({"x": None})
    print(f"x: T<=int   observed: returned {r!r}; expected: InvalidFieldValue('x', None)")
    print("VIOLATION")
except InvalidFieldValue as e:
    print("x: T<=int   observed: InvalidFieldValue; as expected")
