"""Type parameters of a generic dataclass are taken in order of first
appearance in __orig_bases__, not in the order given by Generic[...]
(cls.__parameters__).  class Sw(Base[V2, K2], Generic[K2, V2]) specialised as
Sw[int, Decimal] is therefore compiled as if it were Sw[Decimal, int]."""
import mashumaro
from dataclasses import dataclass
from decimal import Decimal
from typing import Generic, TypeVar
from mashumaro.codecs.basic import BasicEncoder

K = TypeVar("K")
V = TypeVar("V")
K2 = TypeVar("K2")
V2 = TypeVar("V2")


@dataclass
class Base(Generic[K, V]):
    k: K
    v: V


@dataclass
class Sw(Base[V2, K2], Generic[K2, V2]):
    pass


assert Sw.__parameters__ == (K2, V2)
# Sw[int, Decimal]: K2=int, V2=Decimal -> Base[Decimal, int] -> k: Decimal, v: int
try:
    observed = BasicEncoder(Sw[int, Decimal]).encode(Sw(Decimal("1.5"), 1))
except Exception as e:
    observed = f"{type(e).__name__}: {e}"
expected = {"k": "1.5", "v": 1}
print("observed:", observed)
print("expected:", expected)
if observed != expected or type(observed["v"]) is not int:
    print("VIOLATION")
