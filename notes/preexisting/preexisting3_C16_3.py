"""Discriminator(field="") -- the empty string is a string -- is tested by
truthiness in the unpacker builder (`if discriminator.field:`) and in the
forbid_extra_keys key set (`if discr and discr.field:`), so the tag is
ignored: the first subclass that happens to parse wins, and with
forbid_extra_keys the tag key itself is reported as an extra key."""
from dataclasses import dataclass

import mashumaro
from mashumaro import DataClassDictMixin
from mashumaro.config import BaseConfig
from mashumaro.types import Discriminator

violation = False


@dataclass
class Base(DataClassDictMixin):
    class Config(BaseConfig):
        discriminator = Discriminator(field="", include_subtypes=True)


# a class attribute called "" can only be put into the namespace directly
S1 = dataclass(type("S1", (Base,), {"": "one", "__annotations__": {"a": int}}))
S2 = dataclass(type("S2", (Base,), {"": "two", "__annotations__": {"a": int}}))
assert S2.__dict__[""] == "two"

observed = type(Base.from_dict({"": "two", "a": 1})).__name__
print(f"tag 'two' under key '': observed {observed}, expected S2")
violation |= observed != "S2"

try:
    observed = type(Base.from_dict({"": "three", "a": 1})).__name__
except Exception as e:
    observed = type(e).__name__
print(f"unknown tag: observed {observed}, expected SuitableVariantNotFoundError")
violation |= observed != "SuitableVariantNotFoundError"


# control: the same with a one-character field name works
@dataclass
class Base2(DataClassDictMixin):
    class Config(BaseConfig):
        discriminator = Discriminator(field="t", include_subtypes=True)


T1 = dataclass(type("T1", (Base2,), {"t": "one", "__annotations__": {"a": int}}))
T2 = dataclass(type("T2", (Base2,), {"t": "two", "__annotations__": {"a": int}}))
print("control:", type(Base2.from_dict({"t": "two", "a": 1})).__name__, "(expected T2)")


# forbid_extra_keys: the config discriminator key is normally allowed
@dataclass
class Base3(DataClassDictMixin):
    class Config(BaseConfig):
        discriminator = Discriminator(field="", include_subtypes=True)
        forbid_extra_keys = True


U1 = dataclass(type("U1", (Base3,), {"": "one", "__annotations__": {"a": int}}))
try:
    observed = type(U1.from_dict({"": "one", "a": 1})).__name__
except Exception as e:
    observed = f"{type(e).__name__}: {e}"
print(f"forbid_extra_keys + tag key '': observed {observed}, expected U1")
violation |= observed != "U1"

print("VIOLATION" if violation else "ok")
