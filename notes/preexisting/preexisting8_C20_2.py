"""@dataclass(slots=True) makes build_json_schema crash (or emit a
member_descriptor as "default").

Instance.fields() falls back to `cls.__dict__.get(field_name)` when the
dataclass field has no default; for a slots dataclass that entry is the slot's
member_descriptor, which is then passed to _default() as if it were the
default value.
"""
import datetime
from dataclasses import dataclass, field
from typing import List

import mashumaro  # noqa: F401
from mashumaro import DataClassDictMixin
from mashumaro.jsonschema import build_json_schema


@dataclass(slots=True)
class A(DataClassDictMixin):
    when: datetime.date


@dataclass(slots=True)
class B(DataClassDictMixin):
    items: List[int] = field(default_factory=list)


@dataclass(slots=True)
class C(DataClassDictMixin):
    n: int


print("serialization works:", A.from_dict({"when": "2020-01-02"}).to_dict())
violated = False
for cls in (A, B, C):
    try:
        d = build_json_schema(cls).to_dict()
        print(cls.__name__, "->", d)
        default = d["properties"][next(iter(d["properties"]))].get("default")
        if default is not None:
            violated = True
            print(
                f"  observed default {default!r}; expected no default at all"
            )
    except Exception as e:
        violated = True
        print(
            f"{cls.__name__}: observed {type(e).__name__}: {e}; "
            "expected an object schema with one required property"
        )
print("VIOLATION" if violated else "ok")
