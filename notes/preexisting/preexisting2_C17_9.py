"""Module-level classes are not bound at all: the code says `<module>.<Name>`
and looks the attribute up on every call.  After the name is rebound (a newer
definition, a decorator returning a wrapper, `del`) the serializer uses another
object than the annotated class, or fails with AttributeError."""
import enum
import sys
from dataclasses import dataclass

import mashumaro
from mashumaro import DataClassDictMixin


class Color(enum.Enum):
    RED = 1


@dataclass
class Pixel(DataClassDictMixin):
    c: Color


Annotated_Color = Color
print("before:", Pixel.from_dict({"c": 1}))


class Color(enum.Enum):  # e.g. re-running a notebook cell
    GREEN = 1


violated = False
obj = Pixel.from_dict({"c": 1})
print("expected after rebinding: Pixel(c=<Color.RED: 1>) (the annotated class)")
print("observed after rebinding:", obj, "- is annotated class:", type(obj.c) is Annotated_Color)
if type(obj.c) is not Annotated_Color:
    violated = True

del Color
try:
    observed = repr(Pixel.from_dict({"c": 1}))
except Exception as e:
    cause = e
    while cause.__context__ is not None:
        cause = cause.__context__
    observed = f"{type(e).__name__} <- {type(cause).__name__}: {cause}"
    violated = True
print("expected after del: Pixel(c=<Color.RED: 1>)")
print("observed after del:", observed)
if violated:
    print("VIOLATION")
