"""namedtuple-as-dict key: a field name that is a valid identifier but not
NFKC-normal (e.g. the ligature U+FB01).  to_dict writes the key exactly as
given in _fields, and from_dict reads it back when the namedtuple has no
defaults; as soon as one member has a default, the dict form is rebuilt with
NT(**fields), whose parameter names were NFKC-normalised by the compiler, so
the document produced by to_dict is rejected."""
import collections
from dataclasses import dataclass

import mashumaro
from mashumaro import DataClassDictMixin
from mashumaro.config import BaseConfig

P_nodef = collections.namedtuple("P_nodef", ["ﬁ", "b"])
P_def = collections.namedtuple("P_def", ["ﬁ", "b"], defaults=[2])
assert P_def._fields == ("ﬁ", "b")

violation = False
for P in (P_nodef, P_def):

    @dataclass
    class A(DataClassDictMixin):
        p: P

        class Config(BaseConfig):
            namedtuple_as_dict = True

    a = A(P(1, 2))
    d = a.to_dict()
    try:
        observed = A.from_dict(d)
    except Exception as e:
        observed = f"{type(e).__name__}: {e}"
    print(f"{P.__name__}: to_dict -> {d!r}; from_dict observed {observed!r}, expected {a!r}")
    if observed != a:
        violation = True
print("VIOLATION" if violation else "ok")
