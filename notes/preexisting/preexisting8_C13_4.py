"""Same root cause as preexisting8_C13_1 (a discriminated variant's unpacker is
built from the dialect-specific builder with dialect=D, so the variant's main
per-format method never appears), but with ordinary mixin classes: variants are
DataClassMessagePackMixin subclasses with ADD_DIALECT_SUPPORT.  The first
from_msgpack(dialect=D) fails, the same call after one dialect-less
from_msgpack succeeds."""
from dataclasses import dataclass
from datetime import date
from typing import Annotated, Literal

import msgpack

import mashumaro
from mashumaro.config import ADD_DIALECT_SUPPORT, BaseConfig
from mashumaro.dialect import Dialect
from mashumaro.mixins.msgpack import DataClassMessagePackMixin
from mashumaro.types import Discriminator


class OrdinalDialect(Dialect):
    serialization_strategy = {
        date: {"serialize": date.toordinal, "deserialize": date.fromordinal}
    }


class Cfg(BaseConfig):
    code_generation_options = [ADD_DIALECT_SUPPORT]


class CfgD(Cfg):
    dialect = OrdinalDialect


@dataclass
class BaseF(DataClassMessagePackMixin):
    Config = CfgD


@dataclass
class V1F(BaseF):
    kind: Literal["v1"] = "v1"
    d: date = date(2020, 1, 1)


@dataclass
class BaseA(DataClassMessagePackMixin):
    Config = Cfg


@dataclass
class V1A(BaseA):
    kind: Literal["v1"] = "v1"
    d: date = date(2020, 1, 1)


@dataclass
class BaseB(DataClassMessagePackMixin):
    Config = Cfg


@dataclass
class V1B(BaseB):
    kind: Literal["v1"] = "v1"
    d: date = date(2020, 1, 1)


@dataclass
class OuterF(DataClassMessagePackMixin):
    x: Annotated[BaseF, Discriminator(field="kind", include_subtypes=True)]
    Config = CfgD


@dataclass
class OuterA(DataClassMessagePackMixin):
    x: Annotated[BaseA, Discriminator(field="kind", include_subtypes=True)]
    Config = Cfg


@dataclass
class OuterB(DataClassMessagePackMixin):
    x: Annotated[BaseB, Discriminator(field="kind", include_subtypes=True)]
    Config = Cfg


data = msgpack.packb({"x": {"kind": "v1", "d": 737425}})
plain = msgpack.packb({"x": {"kind": "v1", "d": "2020-01-01"}})

print("expected (default dialect D)            :", OuterF.from_msgpack(data))
violation = False
try:
    got = OuterA.from_msgpack(data, dialect=OrdinalDialect)
except Exception as e:
    got = f"{e!r} <- {e.__context__!r}"
    violation = True
print("observed A: from_msgpack(dialect=D) first:", got)
OuterB.from_msgpack(plain)
try:
    got = OuterB.from_msgpack(data, dialect=OrdinalDialect)
except Exception as e:
    got = f"{e!r} <- {e.__context__!r}"
print("observed B: plain call, then dialect=D   :", got)
if violation:
    print("VIOLATION: the outcome of from_msgpack(dialect=D) depends on earlier calls")
else:
    print("ok")
