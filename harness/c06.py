"""C06 — the generated JSON Schema accepts everything the serializer produces.

Theorems (Props/C06.lean): pack_valid (mutual structural induction: for every schema of the
supported fragment, every conforming value and the default dialect, the serialized document is
VALID against schemaOf S under the Draft 2020-12 meaning of the emitted keywords), required_exact,
key_valid, ident_conf_valid, and int_keys_never_valid (witness of finding K5).

Tie:
 * document correspondence: build_json_schema(T) (definitions inlined; defaults / descriptions
   stripped) vs the document rendered from the Lean schemaOf, for every generated schema of the
   modelled grammar;
 * the statement on the implementation: for generated (schema, value): the JSON round trip of
   encode(v) — serialized with default options, by alias — is validated by the real
   `jsonschema.Draft202012Validator` against build_json_schema(T) for the Draft 2020-12 and
   OpenAPI 3.1 dialects, with definitions inlined and referenced;
 * the oracle law WireLaws (printed leaf forms are valid for their leaf schema) is sampled on
   every leaf value that occurs.
"""
from __future__ import annotations

import json
import math

from . import corelib, gen
from . import schema as S

THEOREMS = [
    "Mashu.Schema.pack_valid",
    "Mashu.Schema.packIdx_valid",
    "Mashu.Schema.packNT_valid",
    "Mashu.Schema.packFields_valid",
    "Mashu.Schema.key_valid",
    "Mashu.Schema.ident_conf_valid",
    "Mashu.Schema.required_exact",
    "Mashu.Schema.int_keys_never_valid",
]
RULE = (
    "type-directed generation (depth<=3 quick / 4 thorough) with serialization options reset to the defaults plus serialize_by_alias; one conforming value per schema "
    "(finite floats only); build_json_schema x {Draft 2020-12, OpenAPI 3.1} x {definitions inlined, all_refs}; non-trivial = the schema has a container / dataclass / union node"
)


def force_default_options(ty):
    """default serialization options, by alias where aliases exist"""
    def f(n):
        if isinstance(n, list) and n[0] == "dc":
            cfg = {k: v for k, v in n[2].items() if k in ("sort_keys", "namedtuple_as_dict")}
            cfg["serialize_by_alias"] = True
            return ["dc", n[1], cfg, n[3]]
        return n

    return S.map_ty(ty, f)


def finite(x):
    if isinstance(x, float):
        return math.isfinite(x)
    if isinstance(x, dict):
        return all(finite(k) and finite(v) for k, v in x.items())
    if isinstance(x, (list, tuple)):
        return all(finite(v) for v in x)
    return True


def strip_doc(d):
    """the part of the schema document the model describes"""
    if isinstance(d, dict):
        return {k: (sorted(v) if k == "required" and isinstance(v, list) else strip_doc(v)) for k, v in d.items() if k not in ("default", "description", "$schema")}
    if isinstance(d, list):
        return [strip_doc(v) for v in d]
    return d


def model_doc(m, reg):
    """wire values inside enum / const -> Python"""
    if isinstance(m, dict):
        out = {}
        for k, v in m.items():
            if k == "required" and isinstance(v, list):
                out[k] = sorted(v)
            elif k == "enum":
                out[k] = [S.from_v(x, reg) for x in v]
            elif k == "const":
                out[k] = S.from_v(v, reg)
            else:
                out[k] = model_doc(v, reg)
        return out
    if isinstance(m, list):
        return [model_doc(v, reg) for v in m]
    return m


def non_string_key(ty):
    """finding K5: a mapping whose key type does not serialize to a JSON string described as such"""
    for n in S.ty_nodes(ty):
        if not isinstance(n, str) and n[0] in ("map", "chain"):
            k = n[2] if n[0] == "map" else n[1]
            if k in ("int", "float", "bool", "none", "any"):
                return True
            if isinstance(k, list) and k[0] in ("enum", "lit", "tfix", "tvar", "union", "opt", "coll"):
                return True
            if isinstance(k, list) and k[0] == "leaf" and k[1] == "timedelta":
                return True
    return False


def modelled(ty):
    for n in S.ty_nodes(ty):
        if not isinstance(n, str) and n[0] == "tunp":
            return False
    return True


def variants():
    from mashumaro.jsonschema.dialects import DRAFT_2020_12, OPEN_API_3_1

    return [("draft", DRAFT_2020_12, False), ("draft+refs", DRAFT_2020_12, True), ("openapi", OPEN_API_3_1, True), ("openapi-inline", OPEN_API_3_1, False)]


def full_document(schema_obj, dialect, all_refs):
    """a self-contained document a validator can resolve references in"""
    d = schema_obj.to_dict()
    if dialect.definitions_root_pointer == "#/components/schemas" and "$defs" in d:
        defs = d.pop("$defs", {})
        d = {**d, "components": {"schemas": defs}}
    return d


def run_cases(ctx, cases, annot=False):
    import jsonschema
    from mashumaro.codecs.basic import BasicEncoder
    from mashumaro.jsonschema import build_json_schema

    lines, metas = [], []
    for ty0, value in cases:
        ty = force_default_options(ty0)
        reg = S.Reg(mixin=True)
        reg.annot = annot
        keep = False
        try:
            try:
                ann = S.realize(ty, reg)
                obj = S.from_v(value, reg)
            except RecursionError:
                raise
            except Exception:  # noqa
                ctx.bump("build_error")
                continue
            case = {"ty": ty, "value": value}
            if annot:
                case["annot"] = annot
                ctx.bump(f"wrapper cases:{annot}")
            ctx.count(case, not isinstance(ty, str), kind=f"root:{gen.tag_of(ty)}")
            try:
                doc = BasicEncoder(ann).encode(obj)
            except RecursionError:
                raise
            except Exception:  # noqa
                ctx.bump("encode_raises")
                continue
            if not finite(doc):
                ctx.bump("skipped:non-finite float")
                continue
            try:
                jdoc = json.loads(json.dumps(doc))
            except Exception:  # noqa
                ctx.bump("skipped:not JSON (non-scalar keys / Any leaf)")
                continue
            k5 = non_string_key(ty)
            k10 = corelib.has_union(ty)
            inline_doc = None
            for vname, dialect, all_refs in variants():
                try:
                    sch = build_json_schema(ann, dialect=dialect, all_refs=all_refs)
                    sdoc = full_document(sch, dialect, all_refs)
                except NotImplementedError as e:
                    ctx.bump("schema:NotImplementedError")   # C20's business (K18)
                    break
                except RecursionError:
                    raise
                except Exception as e:  # noqa
                    ctx.bump("schema:build-raises")           # C20's business
                    break
                if vname == "draft":
                    inline_doc = sdoc
                try:
                    errs = list(jsonschema.Draft202012Validator(sdoc).iter_errors(jdoc))
                except Exception as e:  # noqa
                    ctx.violation({**case, "variant": vname}, {"validator_error": f"{type(e).__name__}: {e}"[:200]}, "the schema is usable by a Draft 2020-12 validator", "validator could not use the schema", lambda f: False)
                    continue
                ctx.bump(f"validated:{vname}")
                if errs:
                    msg = errs[0].message[:200]
                    ctx.violation({**case, "variant": vname}, {"document": jdoc if len(json.dumps(jdoc)) < 600 else "...", "error": msg, "path": [str(p) for p in errs[0].absolute_path]},
                                  "the serialized document validates against build_json_schema(T)", "the generated schema rejects the serializer's own output",
                                  lambda f, _k5=k5, _k10=k10: (f["id"] == "K5" and _k5) or (f["id"] == "K10" and _k10))
            if inline_doc is not None and modelled(ty):
                lines.append({"op": "schema", "ty": ty, "nt_as_dict": False})
                metas.append((case, strip_doc(inline_doc), reg))
                keep = True
        finally:
            if not keep:
                reg.close()
    outs = ctx.model(lines)
    for i, (case, real_doc, reg) in enumerate(metas):
        try:
            if outs is None:
                continue
            m = outs[i]
            if "schema" not in m:
                ctx.disagreement(case, m, None, "schema: driver")
                continue
            try:
                md = model_doc(m["schema"], reg)
            except Exception as e:  # noqa
                ctx.disagreement(case, m["schema"], f"not realisable: {e}", "schema document")
                continue
            if json.dumps(md, sort_keys=True, default=repr) != json.dumps(real_doc, sort_keys=True, default=repr):
                ctx.disagreement(case, md, real_doc, "schema document")
        finally:
            reg.close()


def leaf_wire_law(ctx):
    """WireLaws: the printed form of each leaf kind is valid for the schema of that kind"""
    import jsonschema
    from mashumaro.codecs.basic import BasicEncoder
    from mashumaro.jsonschema import build_json_schema

    n = 0
    g = gen.G(ctx.rng, max_depth=1)
    for kind, typ in S.LEAF_TYPES.items():
        sch = build_json_schema(typ).to_dict()
        enc = BasicEncoder(typ)
        for _ in range(40):
            try:
                v = S.from_v(g.val(["leaf", kind]), None)
            except Exception:  # noqa
                continue
            doc = json.loads(json.dumps(enc.encode(v)))
            n += 1
            errs = list(jsonschema.Draft202012Validator(sch).iter_errors(doc))
            if errs:
                ctx.violation({"leaf": kind, "value": repr(v)}, {"document": doc, "error": errs[0].message[:200]}, "the printed leaf form is valid for the leaf schema (oracle law WireLaws)", "leaf form rejected by its own schema", lambda f: False)
            if kind != "timedelta" and not isinstance(doc, str):
                ctx.violation({"leaf": kind, "value": repr(v)}, {"document": doc}, "leaf kinds other than timedelta print to a string", "WireLaws.print_str does not hold", lambda f: False)
    ctx.bump("oracle_law_samples(WireLaws)", n)


K5_TAGS = {"non-string-key", "flag-combination", "same-name-definitions"}


def run_templates(ctx):
    """schema-specific shapes (real Python types): the statement on the implementation only"""
    import jsonschema
    from mashumaro.codecs.basic import BasicEncoder
    from mashumaro.jsonschema import build_json_schema

    from . import jschema_templates as JT

    tpls, mods = JT.templates(ctx.rng)
    try:
        for name, T, values, tags in tpls:
            if "non-default-options" in tags:
                continue   # the statement is about default serialization options
            for vname, dialect, all_refs in variants():
                case = {"template": name, "variant": vname}
                try:
                    sdoc = full_document(build_json_schema(T, dialect=dialect, all_refs=all_refs), dialect, all_refs)
                except RecursionError:
                    ctx.bump("template:schema-recursion")    # C20 (K8)
                    break
                except Exception:  # noqa
                    ctx.bump("template:schema-build-raises")  # C20
                    break
                for v in values:
                    ctx.count({**case, "value": repr(v)[:120]}, True, kind="template")
                    try:
                        jdoc = json.loads(json.dumps(BasicEncoder(T).encode(v)))
                    except Exception:  # noqa
                        ctx.bump("template:encode-raises")
                        continue
                    errs = list(jsonschema.Draft202012Validator(sdoc).iter_errors(jdoc))
                    if errs:
                        ctx.violation({**case, "value": repr(v)[:200]}, {"document": jdoc, "error": errs[0].message[:200]}, "the serialized document validates against build_json_schema(T)",
                                      "the generated schema rejects the serializer's own output",
                                      lambda f, _t=tags, _v=vname: (f["id"] == "K5" and bool(_t & (K5_TAGS - {"same-name-definitions"}) or ("same-name-definitions" in _t and _v in ("draft+refs", "openapi")))) or (f["id"] == "K16" and "omit" in _t) or (f["id"] == "K17" and "non-init" in _t))
    finally:
        JT.cleanup(mods)


def gen_cases(ctx, n, depth):
    cases = []
    for _ in range(n):
        g = gen.G(ctx.rng, max_depth=depth)
        ty = g.ty()
        cases.append((ty, g.val(ty)))
    return cases


def run(ctx):
    ctx.rule = RULE
    ctx.lean_check("Mashu.Props.C06", THEOREMS, extra_targets=["Mashu.Dispatch"])
    leaf_wire_law(ctx)
    run_templates(ctx)
    # timezone offsets that are not whole minutes: the serializer writes the timezone's own name, seconds included (F65)
    import datetime

    import jsonschema
    from mashumaro.codecs.basic import BasicEncoder
    from mashumaro.jsonschema import build_json_schema

    for td in (datetime.timedelta(seconds=30), datetime.timedelta(hours=1, seconds=30), datetime.timedelta(microseconds=1)):
        case = {"timezone_offset_seconds": td.total_seconds()}
        ctx.count(case, True, kind="tz-subminute")
        doc = BasicEncoder(datetime.timezone).encode(datetime.timezone(td))
        errs = list(jsonschema.Draft202012Validator(build_json_schema(datetime.timezone).to_dict()).iter_errors(doc))
        if errs:
            ctx.violation(case, {"document": doc, "error": errs[0].message[:200]}, "VALID(SCHEMA(S), encode(v))", "the serializer's output is rejected by the class's own schema", lambda f: False)
    n, depth = (1500, 3) if ctx.tier == "quick" else (25000, 4)
    done = 0
    while done < n and ctx.time_left() > 40:
        k = min(500, n - done)
        run_cases(ctx, gen_cases(ctx, k, depth))
        done += k
    # the same generator with every annotation wrapped in Annotated / NewType / TypeAliasType
    for mode in S.WRAP_MODES:
        if ctx.time_left() > 40:
            run_cases(ctx, gen_cases(ctx, 250 if ctx.tier == "quick" else 3000, depth), annot=mode)
    ctx.assumptions += [
        "validity in the theorem is the Draft 2020-12 meaning of the emitted keywords as written in Mashu.Schema.Valid (format is an annotation; uniqueItems is not modelled); "
        "on the implementation the real `jsonschema` package decides",
        "leaf printers satisfy WireLaws (sampled on every run)",
    ]


def replay(ctx, body):
    ctx.lean_check("Mashu.Props.C06", THEOREMS, extra_targets=["Mashu.Dispatch"])
    c = body["case"]
    if c and "ty" in c:
        run_cases(ctx, [(c["ty"], c["value"])], annot=c.get("annot", False))
    elif c and "leaf" in c:
        leaf_wire_law(ctx)
    elif c and "template" in c:
        run_templates(ctx)
    return ctx.finish()
