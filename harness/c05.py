"""C05 — failures surface only as the documented exceptions and name the culprit.

Theorems (Props/C05.lean): documented_only, first_bad_field, never_defaulted, exc_bases_pinned.
Tie: dataclass deserialization of valid / corrupted / arbitrary inputs (non-dicts at every
nesting level) on the implementation vs the model; the direct predicate needs no model:
outcome is an instance or one of the documented exception classes carrying a field of the
class, and the input object is left unmodified.
"""
from __future__ import annotations

from . import corelib, decode, gen
from . import schema as S

THEOREMS = ["Mashu.documented_only", "Mashu.unpackFields_documented", "Mashu.first_bad_field", "Mashu.never_defaulted", "Mashu.exc_bases_pinned"]
RULE = (
    "root schema is a dataclass (1-4 fields, nested dataclasses/containers inside, aliases, defaults, forbid_extra_keys / "
    "allow_deserialization_not_by_alias drawn at random); input = valid (33 %), per-node corrupted incl. non-dicts at every level (55 %), arbitrary (12 %); "
    "non-trivial = always (dataclass root); distinct = distinct (schema, input, entry)"
)
DOCUMENTED = {"notADict", "MissingField", "InvalidFieldValue", "ExtraKeysError", "MissingDiscriminatorError", "SuitableVariantNotFoundError"}


def field_names(ty):
    return {fd["name"] for fd, _t in ty[3]}


def judge(ctx, case, out, r, mutated, models, reg):
    ty = case["ty"]
    info = decode.classify(models, out, reg) if models else {}

    def known(f):
        ex = info.get("explained_by") or []
        return bool(info.get("impl_model_agrees")) and ((f["id"] == "K1" and ("k1" in ex or not ex)) or (f["id"] == "K2" and "k2" in ex) or (f["id"] == "K3" and "k3" in ex))

    if mutated:
        ctx.violation(case, out, "deep-equal(d_before, d_after)", "deserialization modified its input", lambda f: False)
    if "err" in out:
        e = out["err"]
        if e["kind"] not in DOCUMENTED:
            ctx.violation(case, out, "instance or documented exception", f"undocumented exception escaped: {e.get('type')}", lambda f: False)
            return
        if e["kind"] in ("MissingField", "InvalidFieldValue"):
            if e["cls"] != ty[1] or e["field"] not in field_names(ty):
                ctx.violation(case, out, "field_name / holder_class identify a field of the class", "exception does not name a field of the class", lambda f: False)
                return
    if models is None:
        return
    if not info["spec_agrees"]:
        what = "wrong culprit / outcome: differs from the first-bad-field reading"
        if "ok" in out and "err" in models["spec"]:
            what = "invalid data silently accepted (replaced by None or a default)"
        ctx.violation(case, {"impl": out, "reference": models["spec"]}, "outcome == first missing/invalid field in declaration order", what, known)
    if not info["impl_model_agrees"]:
        ctx.disagreement(case, models["impl"], out, "from_dict")


def gen_cases(ctx, n, depth):
    rng = ctx.rng
    cases = []
    for _ in range(n):
        g = gen.G(rng, max_depth=depth, features={"noninit": True})
        cfg = {}
        for k, p in (("serialize_by_alias", 0.3), ("forbid_extra_keys", 0.3), ("allow_deserialization_not_by_alias", 0.3), ("namedtuple_as_dict", 0.15)):
            if rng.random() < p:
                cfg[k] = True
        ty = g.dc_ty(1, nfields=rng.randint(1, 4), cfg=cfg)
        entry = "mixin" if rng.random() < 0.7 else "codec"
        reg = S.Reg(mixin=(entry == "mixin"))
        try:
            try:
                val = g.val(ty)
                out, _r, _v = corelib.real_pack(ty, val, reg, entry)
                packed = out.get("ok")
            except Exception:
                packed = None
        finally:
            reg.close()
        c = rng.random()
        if packed is None or c < 0.12:
            cases.append((ty, g.junk(), entry, "junk"))
        elif c < 0.40:
            cases.append((ty, packed, entry, "valid"))
        else:
            cases.append((ty, g.corrupt(packed, 0.15), entry, "corrupted"))
    return cases


CORPUS = [
    # forbid_extra_keys + non-dict (fixed F7), 'None' key (fixed F3), extra keys
    (["dc", "X1", {"forbid_extra_keys": True}, [[{"name": "a", "alias": None, "default": None, "init": True, "omit": False}, "int"]]], ["coll", "list", [["i", "1"]]], "mixin"),
    (["dc", "X2", {"forbid_extra_keys": True}, [[{"name": "a", "alias": None, "default": None, "init": True, "omit": False}, "int"]]], ["map", "dict", [[["s", "a"], ["i", "1"]], [["s", "b"], ["i", "2"]]]], "mixin"),
    (["dc", "X3", {"allow_deserialization_not_by_alias": True}, [[{"name": "a", "alias": None, "default": None, "init": True, "omit": False}, "int"]]], ["map", "dict", [[["s", "None"], ["i", "5"]], [["s", "a"], ["i", "1"]]]], "mixin"),
    (["dc", "X4", {}, [[{"name": "a", "alias": None, "default": None, "init": True, "omit": False}, ["map", "mproxy", "str", "int"]]]], ["map", "dict", []], "mixin"),
]
# unexpected keys that are not strings (the exception must carry exactly them and stay printable)
for _k in (["i", "5"], None, True, ["f", "1.5"]):
    CORPUS.append((["dc", "X5", {"forbid_extra_keys": True}, [[{"name": "a", "alias": None, "default": None, "init": True, "omit": False}, "int"]]],
                   ["map", "dict", [[["s", "a"], ["i", "1"]], [_k, ["i", "2"]]]], "mixin"))
# classes WITHOUT constructor parameters (no fields at all / only init=False members): the argument is
# checked like everywhere else (finding F42)
_NOINIT = [{"name": "n", "alias": None, "default": ["some", ["i", "1"]], "init": False, "omit": False}, "int"]
for _fs, _nm in (([], "XE"), ([_NOINIT], "XN")):
    for _e in ("mixin", "codec"):
        for _d in (["i", "5"], None, ["coll", "list", [["i", "1"]]], ["s", "abc"], ["map", "dict", []], ["map", "dict", [[["s", "z"], ["i", "1"]]]]):
            CORPUS.append((["dc", _nm, {}, _fs], _d, _e))
            CORPUS.append((["dc", _nm + "F", {"forbid_extra_keys": True}, _fs], _d, _e))


def alias_family():
    """exhaustive small family around the key lookup of one field followed by a required int field:
    type x alias x allow_deserialization_not_by_alias x default x every subset of the keys"""
    import itertools

    out = []
    for ft in ("any", "int", "str", ["opt", "int"], ["coll", "list", "int"]):
        for alias in (None, "A"):
            for nba in (False, True):
                for dflt in (None, ["some", None]) if ft == "any" or (isinstance(ft, list) and ft[0] == "opt") else (None,):
                    cfg = {"allow_deserialization_not_by_alias": True} if nba else {}
                    fa = [{"name": "a", "alias": alias, "default": dflt, "init": True, "omit": False}, ft]
                    fz = [{"name": "z", "alias": None, "default": None, "init": True, "omit": False}, "int"]
                    ty = ["dc", "XF", cfg, [fa, fz] if dflt is None else [fz, fa]]
                    val = {"any": ["s", "v"], "int": ["i", "3"], "str": ["s", "v"]}.get(ft if isinstance(ft, str) else "", ["i", "3"] if ft[0] == "opt" else ["coll", "list", [["i", "1"]]])
                    keys = ["a", "z"] + (["A"] if alias else [])
                    for r in range(len(keys) + 1):
                        for ks in itertools.combinations(keys, r):
                            d = ["map", "dict", [[["s", k], (["i", "9"] if k == "z" else val)] for k in ks]]
                            out.append((ty, d, "mixin", "alias-family"))
                            out.append((ty, d, "codec", "alias-family"))
    return out


def wrap(c):
    """a witness on a bare shape becomes the single field of a dataclass (C05 is about dataclass deserialization)"""
    ty, d, e, origin = c
    if isinstance(ty, list) and ty[0] == "dc":
        return c
    return (["dc", "XW", {}, [[{"name": "a", "alias": None, "default": None, "init": True, "omit": False}, ty]]], ["map", "dict", [[["s", "a"], d]]], "mixin", origin)


def run(ctx):
    ctx.rule = RULE
    ctx.lean_check("Mashu.Props.C05", THEOREMS, extra_targets=["Mashu.Dispatch"])
    decode.run_decode(ctx, [(t, d, e, "corpus") for t, d, e in CORPUS], judge)
    decode.run_decode(ctx, alias_family(), judge)
    for mode, cs in decode.fixed_corpus(ctx).items():
        decode.run_decode(ctx, [wrap(c) for c in cs], judge, annot=mode)
    n, depth = (3000, 3) if ctx.tier == "quick" else (50000, 4)
    done = 0
    while done < n and ctx.time_left() > 30:
        k = min(3000, n - done)
        decode.run_decode(ctx, gen_cases(ctx, k, depth), judge)
        done += k
    # the same stream with every annotation wrapped in Annotated / NewType / TypeAliasType
    for mode in S.WRAP_MODES:
        if ctx.time_left() > 30:
            decode.run_decode(ctx, gen_cases(ctx, 400 if ctx.tier == "quick" else 5000, depth), judge, annot=mode)
    # inherited members over class graphs (shared with C07): MissingField must name the first
    # constructor parameter without default that has no key — judged from dataclasses.fields alone
    from . import c07_mro

    ng = 150 if ctx.tier == "quick" else 2000
    done = 0
    while done < ng and ctx.time_left() > 20:
        k = min(150, ng - done)
        c07_mro.run_graphs(ctx, [c07_mro.gen_graph(ctx.rng) for _ in range(k)])
        done += k
    # discriminated hierarchies (shared with C12): a required member of the selected variant that has no key is a
    # MissingField naming it — on the first (cold registry) dispatch exactly as on every later one
    from . import c12

    nh = 250 if ctx.tier == "quick" else 3000
    done = 0
    while done < nh and ctx.time_left() > 20:
        c12.run_batch(ctx, [c12.gen_history(ctx.rng, ctx.tier) for _ in range(250)], 500000 + done)
        done += 250
    ctx.assumptions += ["non-mutation of the input is checked on the implementation only (vacuous in a pure model)"]


def replay(ctx, body):
    if "graph" in body["case"]:
        from . import c07_mro

        c07_mro.run_graphs(ctx, [body["case"]["graph"]])
        return ctx.finish()
    if "history" in body["case"]:
        from . import c12

        c12.run_batch(ctx, [body["case"]["history"]], 0)
        return ctx.finish()
    c = body["case"]
    decode.run_decode(ctx, [(c["ty"], c["input"], c.get("entry", "mixin"), "replay")], judge, annot=c.get("annot", False))
    return ctx.finish()
