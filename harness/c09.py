"""C09 — input keys are resolved by the documented alias rules.

Theorems (Props/C09.lean): alias_precedence_*, findKey_*, stranger_ignored, reads_only_its_keys,
extra_keys_exact, forbid_reports_extra.
Tie: classes whose fields draw their alias from every subset of the three sources (field
metadata, one or two Annotated Alias, Config.aliases) x allow_deserialization_not_by_alias x
forbid_extra_keys x presence subsets of the candidate keys {name, each source's alias, strangers,
the literal key 'None'}; the real from_dict outcome vs the model and vs an independent KEYMODEL.
"""
from __future__ import annotations

import dataclasses
import itertools
import typing

from . import corelib
from . import schema as S

THEOREMS = [
    "Mashu.alias_precedence_meta",
    "Mashu.alias_precedence_annotated",
    "Mashu.alias_precedence_config",
    "Mashu.alias_none_iff",
    "Mashu.findKey_no_alias",
    "Mashu.findKey_alias_strict",
    "Mashu.findKey_alias_wins",
    "Mashu.findKey_name_fallback",
    "Mashu.stranger_ignored",
    "Mashu.reads_only_its_keys",
    "Mashu.extra_keys_exact",
    "Mashu.forbid_reports_extra",
]
RULE = (
    "per field: alias-source subset of {metadata, Annotated Alias (one or two), Config.aliases} (16 combinations) and archetype (Any required / int required / int default / "
    "Optional[int]=None); per class 1-3 fields x (allow_deserialization_not_by_alias, forbid_extra_keys) in {F,T}^2; inputs = subsets of the candidate keys with distinct integer values; "
    "one-field classes are enumerated exhaustively over all source subsets x options x key subsets; non-trivial = some alias source set or some option on"
)

ARCH = ["any_req", "int_req", "int_def", "opt_none", "any_def"]
SRC = ["meta", "ann", "ann2", "cfg"]


def field_desc(i, sources, arch):
    name = f"f{i}"
    al = {"meta": f"M{i}", "ann": f"A{i}", "ann2": f"B{i}", "cfg": f"C{i}"}
    return {"name": name, "sources": {s: al[s] for s in sources}, "arch": arch}


def effective_alias(fd):
    """independent reading of the statement: metadata over Annotated Alias over Config.aliases"""
    s = fd["sources"]
    if "meta" in s:
        return s["meta"]
    if "ann2" in s:
        return s["ann2"]  # two Alias annotations: the documented behaviour is that the last one applies
    if "ann" in s:
        return s["ann"]
    return s.get("cfg")


def keymodel(fields, allow, forbid, present):
    """KEYMODEL(config, present keys) -> ('ok', {name: value}) | ('extra', set) | ('missing', name) | ('invalid', name)"""
    accepted = set()
    for fd in fields:
        a = effective_alias(fd)
        accepted.add(a if a is not None else fd["name"])
        if allow:
            accepted.add(fd["name"])
    if forbid:
        extra = {k for k in present if k not in accepted}
        if extra:
            return ("extra", extra)
    out = {}
    for fd in fields:
        a = effective_alias(fd)
        if a is not None:
            v = present.get(a, MISSING)
            if v is MISSING and allow:
                v = present.get(fd["name"], MISSING)
        else:
            v = present.get(fd["name"], MISSING)
        if v is MISSING:
            if fd["arch"] in ("any_req", "int_req"):
                return ("missing", fd["name"])
            out[fd["name"]] = 7 if fd["arch"] in ("int_def", "any_def") else None
        else:
            out[fd["name"]] = v
    return ("ok", out)


MISSING = object()


def build(fields, allow, forbid, idx):
    from mashumaro import DataClassDictMixin, field_options
    from mashumaro.config import BaseConfig
    from mashumaro.types import Alias

    ann, ns, aliases = {}, {}, {}
    for fd in fields:
        t = {"any_req": typing.Any, "int_req": int, "int_def": int, "opt_none": typing.Optional[int], "any_def": typing.Any}[fd["arch"]]
        extras = []
        if "ann" in fd["sources"]:
            extras.append(Alias(fd["sources"]["ann"]))
        if "ann2" in fd["sources"]:
            extras.append(Alias(fd["sources"]["ann2"]))
        if extras:
            t = typing.Annotated[(t, *extras)]
        ann[fd["name"]] = t
        kw = {}
        if "meta" in fd["sources"]:
            kw["metadata"] = field_options(alias=fd["sources"]["meta"])
        if fd["arch"] in ("int_def", "any_def"):
            kw["default"] = 7
        if fd["arch"] == "opt_none":
            kw["default"] = None
        if kw:
            ns[fd["name"]] = dataclasses.field(**kw)
        if "cfg" in fd["sources"]:
            aliases[fd["name"]] = fd["sources"]["cfg"]
    cfg = {"aliases": aliases}
    if allow:
        cfg["allow_deserialization_not_by_alias"] = True
    if forbid:
        cfg["forbid_extra_keys"] = True
    ns["Config"] = type("Config", (BaseConfig,), cfg)
    ns["__annotations__"] = ann
    cls = type(f"C09_{idx}", (DataClassDictMixin,), ns)
    cls.__module__ = __name__
    globals()[cls.__name__] = cls
    return dataclasses.dataclass(cls)


def wire_ty(fields, allow, forbid, cid):
    fs = []
    for fd in fields:
        t = {"any_req": "any", "int_req": "int", "int_def": "int", "opt_none": ["opt", "int"], "any_def": "any"}[fd["arch"]]
        src = {"meta": fd["sources"].get("meta"), "annotated": [fd["sources"][k] for k in ("ann", "ann2") if k in fd["sources"]], "config": fd["sources"].get("cfg")}
        dflt = None
        if fd["arch"] in ("int_def", "any_def"):
            dflt = ["some", ["i", "7"]]
        if fd["arch"] == "opt_none":
            dflt = ["some", None]
        fs.append([{"name": fd["name"], "alias": None, "alias_sources": src, "default": dflt, "init": True, "omit": False}, t])
    return ["dc", cid, {"allow_deserialization_not_by_alias": allow, "forbid_extra_keys": forbid}, fs]


def candidates(fields):
    ks = []
    for fd in fields:
        ks.append(fd["name"])
        ks.extend(fd["sources"].values())
    return ks


def run_batch(ctx, batch):
    """batch: list of (fields, allow, forbid, present-dict)"""
    from mashumaro.exceptions import ExtraKeysError, InvalidFieldValue, MissingField

    lines, metas = [], []
    cache = {}
    for fields, allow, forbid, present in batch:
        key = (S.jdump(fields) if hasattr(S, "jdump") else repr(fields), allow, forbid)
        if key not in cache:
            idx = len(cache) + ctx.evaluations
            try:
                cache[key] = (build(fields, allow, forbid, idx), f"C09_{idx}")
            except Exception as e:
                ctx.violation({"fields": fields, "allow": allow, "forbid": forbid}, {"build_error": repr(e)[:300]}, "class builds", "class does not build", lambda f: False)
                cache[key] = (None, None)
        cls, cid = cache[key]
        if cls is None:
            continue
        d = dict(present)
        try:
            obj = cls.from_dict(d)
            real = ("ok", {f.name: getattr(obj, f.name) for f in dataclasses.fields(obj)})
        except ExtraKeysError as e:
            real = ("extra", set(e.extra_keys))
        except MissingField as e:
            real = ("missing", e.field_name)
        except InvalidFieldValue as e:
            real = ("invalid", e.field_name)
        except Exception as e:  # noqa
            real = ("other", f"{type(e).__name__}: {e}"[:200])
        data = ["map", "dict", [[["s", k], ["i", str(v)]] for k, v in present.items()]]
        ty = wire_ty(fields, allow, forbid, cid)
        reg = S.Reg()
        reg.close()
        oracle = {"calls": [["int", ["i", str(v)], ["ok", ["i", str(v)]]] for v in set(present.values())], "eq": []}
        lines.append({"op": "unpack", "ty": ty, "value": data, "oracle": oracle, "nailed": True})
        metas.append((fields, allow, forbid, present, real, cid))
    outs = ctx.model(lines)
    for i, (fields, allow, forbid, present, real, cid) in enumerate(metas):
        case = {"fields": fields, "allow_not_by_alias": allow, "forbid_extra_keys": forbid, "input": present}
        nontriv = allow or forbid or any(fd["sources"] for fd in fields)
        ctx.count(case, nontriv, kind=f"outcome:{real[0]}")
        ctx.bump(f"nfields:{len(fields)}")
        exp = keymodel(fields, allow, forbid, present)

        def norm(r):
            if r[0] == "extra":
                return ["extra", sorted(r[1])]
            if r[0] == "ok":
                return ["ok", sorted(r[1].items())]
            return list(r)

        if norm(real) != norm(exp):
            ctx.violation(case, {"impl": norm(real), "KEYMODEL": norm(exp)}, "result/exception == KEYMODEL(config, present keys)", "field read from the wrong key / wrong extra-keys report", lambda f: False)
        if outs:
            m = outs[i]
            if "ok" in m:
                mv = ("ok", {n: (None if v is None else int(v[1])) for n, v in m["ok"][2]})
            elif "err" in m:
                e = m["err"]
                if e["kind"] == "ExtraKeysError":
                    mv = ("extra", {k[1] for k in e["keys"]})
                elif e["kind"] == "MissingField":
                    mv = ("missing", e["field"])
                elif e["kind"] == "InvalidFieldValue":
                    mv = ("invalid", e["field"])
                else:
                    mv = ("other", e)
            else:
                mv = ("driver", m)
            if norm(mv) != norm(real):
                ctx.disagreement(case, norm(mv), norm(real), "from_dict keys")
    for cls, _cid in cache.values():
        if cls is not None:
            globals().pop(cls.__name__, None)


def subsets(xs):
    for r in range(len(xs) + 1):
        yield from itertools.combinations(xs, r)


def exhaustive_one_field(ctx):
    batch = []
    for arch in ARCH:
        for srcs in subsets(SRC):
            if "ann2" in srcs and "ann" not in srcs:
                continue
            fd = field_desc(0, srcs, arch)
            cands = candidates([fd]) + ["zz", "None"]
            for allow, forbid in itertools.product((False, True), repeat=2):
                for present in subsets(cands):
                    batch.append(([fd], allow, forbid, {k: 100 + j for j, k in enumerate(present)}))
    for i in range(0, len(batch), 4000):
        run_batch(ctx, batch[i : i + 4000])
    ctx.extra["one_field_space_enumerated"] = len(batch)
    return len(batch)


def random_cases(ctx, n):
    rng = ctx.rng
    batch = []
    while len(batch) < n:
        k = rng.randint(2, 3)
        fields = []
        for i in range(k):
            srcs = [s for s in SRC if rng.random() < 0.35]
            if "ann2" in srcs and "ann" not in srcs:
                srcs.remove("ann2")
            fields.append(field_desc(i, srcs, rng.choice(ARCH)))
        fields.sort(key=lambda fd: fd["arch"] in ("int_def", "opt_none", "any_def"))
        allow, forbid = rng.random() < 0.5, rng.random() < 0.4
        cands = candidates(fields) + ["zz", "None"]
        for _ in range(8):
            present = {c: 100 + j for j, c in enumerate(cands) if rng.random() < 0.5}
            batch.append((fields, allow, forbid, present))
    run_batch(ctx, batch[:n])


def run_discriminated_forbid(ctx, n, only=None):
    """forbid_extra_keys under a class-level discriminator: the discriminator key is an accepted key of every variant
    (also of a variant WITHOUT init fields), aliases count, anything else is reported — exactly the strangers"""
    from mashumaro import DataClassDictMixin, field_options
    from mashumaro.config import BaseConfig
    from mashumaro.exceptions import ExtraKeysError
    from mashumaro.types import Discriminator

    rng = ctx.rng
    for i in range(n):
        spec = only or {"nfields": rng.choice([0, 0, 1, 2]), "aliased": rng.random() < 0.4, "strangers": rng.sample(["zz", "type_", "f0_", ""], rng.choice([0, 0, 1, 2])),
                        "present": rng.random() < 0.8, "tagfield": rng.choice(["type", "kind", "it's"]), "two_level": rng.random() < 0.4, "via": rng.choice(["base", "mid"])}
        case = {"discriminated_forbid": spec}
        ctx.count(case, True, kind=f"discr-forbid:fields={spec['nfields']}")
        tf = spec["tagfield"]
        names = []
        try:
            cfg = type("Config", (BaseConfig,), {"discriminator": Discriminator(field=tf, include_subtypes=True), "forbid_extra_keys": True})
            Base = dataclasses.dataclass(type(f"DF{i}_B", (DataClassDictMixin,), {"__annotations__": {}, "Config": cfg, "__module__": __name__}))
            ann, ns = {}, {tf: "v"}          # the tag is a plain class attribute: not a field
            for k in range(spec["nfields"]):
                ann[f"f{k}"] = int
                ns[f"f{k}"] = dataclasses.field(default=7, metadata=field_options(alias=f"F{k}") if spec["aliased"] else {})
            ns["__annotations__"] = ann
            ns["__module__"] = __name__
            parent, entry, tagkey = Base, Base, tf
            if spec.get("two_level"):
                # a class in between with a discriminator (and field) of its own: the leaf is reachable through both
                cfg2 = type("Config", (BaseConfig,), {"discriminator": Discriminator(field="sub", include_subtypes=True), "forbid_extra_keys": True})
                Mid = dataclasses.dataclass(type(f"DF{i}_M", (Base,), {"__annotations__": {}, "Config": cfg2, "__module__": __name__}))
                globals()[Mid.__name__] = Mid
                names.append(Mid.__name__)
                parent = Mid
                ns["sub"] = "v"
                if spec.get("via") == "mid":
                    entry, tagkey = Mid, "sub"
            V = dataclasses.dataclass(type(f"DF{i}_V", (parent,), ns))
            for c in (Base, V):
                globals()[c.__name__] = c
                names.append(c.__name__)
            Base = entry
            tf = tagkey
            d = {tf: "v"}
            if spec["present"]:
                for k in range(spec["nfields"]):
                    d[f"F{k}" if spec["aliased"] else f"f{k}"] = k
            for sname in spec["strangers"]:
                d[sname] = 1
            strangers = set(spec["strangers"]) - {tf}
            try:
                r = Base.from_dict(dict(d))
                got = ("ok", type(r).__name__.split("_")[-1])
            except ExtraKeysError as e:
                got = ("extra", sorted(map(str, e.extra_keys)))
            except Exception as e:  # noqa
                got = ("other", f"{type(e).__name__}: {e}"[:200])
        finally:
            for nm in names:
                globals().pop(nm, None)
        exp = ("extra", sorted(strangers)) if strangers else ("ok", "V")
        if list(got) != list(exp):
            ctx.violation(case, {"got": list(got), "input_keys": sorted(d)}, {"expected": list(exp)}, "the discriminator key is an accepted key; exactly the unknown keys are reported", lambda f: False)


def run(ctx):
    ctx.rule = RULE
    ctx.lean_check("Mashu.Props.C09", THEOREMS, extra_targets=["Mashu.Dispatch"])
    run_discriminated_forbid(ctx, 150 if ctx.tier == "quick" else 2000)
    exhaustive_one_field(ctx)
    ctx.exhaustive = False
    n = 4000 if ctx.tier == "quick" else 60000
    done = 0
    while done < n and ctx.time_left() > 30:
        k = min(4000, n - done)
        random_cases(ctx, k)
        done += k


def replay(ctx, body):
    c = body["case"]
    if "discriminated_forbid" in c:
        run_discriminated_forbid(ctx, 1, only=c["discriminated_forbid"])
        return ctx.finish()
    run_batch(ctx, [(c["fields"], c["allow_not_by_alias"], c["forbid_extra_keys"], c["input"])])
    return ctx.finish()
