"""Type-directed generators: schemas (wire types), conforming values, foreign inputs."""
from __future__ import annotations

import json
import random

from . import schema as S

SCALARS = ["int", "float", "bool", "str", "none", "any"]
LEAF_KINDS = [k for k, pool in S.LEAF_POOL.items() if pool]
HASHABLE_LEAVES = [k for k in LEAF_KINDS if k != "bytearray"]


class G:
    def __init__(self, rng: random.Random, max_depth: int = 3, width: int = 3, features=None):
        self.rng = rng
        self.max_depth = max_depth
        self.width = width
        self.n = 0
        # feature switches (all on by default)
        self.f = {
            "any": True, "union": True, "lit": True, "enum": True, "leaf": True, "nt": True, "td": True,
            "dc": True, "tuple": True, "map": True, "chain": True, "opt": True, "sets": True,
            "config": True, "alias": True, "defaults": True, "counter": True, "mproxy": True,
            "noninit": False, "omit": False, "nt_defaults": True,
        }
        if features:
            self.f.update(features)

    def cid(self, prefix):
        self.n += 1
        return f"{prefix}{self.n}"

    # ---- types -----------------------------------------------------------------------
    def hashable_ty(self, depth):
        r = self.rng
        c = r.random()
        if c < 0.35:
            return r.choice(["int", "str"])
        if c < 0.55 and self.f["leaf"]:
            return ["leaf", r.choice(HASHABLE_LEAVES)]
        if c < 0.65 and self.f["enum"]:
            return self.enum_ty()
        if c < 0.75 and self.f["tuple"] and depth < self.max_depth:
            return ["tfix", [self.hashable_ty(depth + 1) for _ in range(r.randint(1, 2))]]
        if c < 0.8 and self.f["sets"] and depth < self.max_depth:
            return ["coll", "frozenset", self.hashable_ty(depth + 1)]
        return r.choice(["int", "str", "bool", "float"])

    def key_ty(self):
        r = self.rng
        c = r.random()
        if c < 0.6:
            return "str"
        if c < 0.75:
            return "int"
        if c < 0.85 and self.f["leaf"]:
            return ["leaf", r.choice(["uuid", "date", "ipv4addr", "decimal"])]
        if c < 0.95 and self.f["enum"]:
            return self.enum_ty(strvals=True)
        return "str"

    def enum_ty(self, strvals=None):
        r = self.rng
        if strvals is None:
            strvals = r.random() < 0.5
        n = r.randint(1, 3)
        if strvals:
            vals = r.sample(["a", "b", "it's", "x y", "", "1"], n)
            members = [[f"M{i}", ["s", v]] for i, v in enumerate(vals)]
            cid = self.cid("E")   # (StrEnum members duck-type as str in union tries: not modelled)
        else:
            vals = r.sample([0, 1, 2, 5, -3, 10], n)
            members = [[f"M{i}", ["i", str(v)]] for i, v in enumerate(vals)]
            cid = self.cid("E") + ("I" if r.random() < 0.4 else "")
        return ["enum", cid, members]

    def lit_ty(self):
        r = self.rng
        n = r.randint(1, 3)
        pool = [["i", "1"], ["i", "0"], ["s", "a"], ["s", "it's\n"], True, None, ["i", "7"], ["s", ""], ["leaf", "bytes", "b'ab'"]]
        consts = []
        picked = r.sample(pool, n)
        if True in picked and (["i", "1"] in picked or ["i", "0"] in picked):
            # 1 == True: such a Literal cannot distinguish its own constants (LitOK side condition)
            picked = [c for c in picked if c is not True]
        for c in picked:
            if isinstance(c, list) and c[0] == "leaf":
                w = ["s", S.PRINTERS["bytes"](eval(c[2]))]
            else:
                w = c
            consts.append([c, w])
        return ["lit", consts]

    def scalar_ty(self):
        r = self.rng
        c = r.random()
        if c < 0.55:
            return r.choice(["int", "float", "bool", "str"])
        if c < 0.85 and self.f["leaf"]:
            return ["leaf", r.choice(LEAF_KINDS)]
        if c < 0.92 and self.f["enum"]:
            return self.enum_ty()
        if c < 0.96 and self.f["lit"]:
            return self.lit_ty()
        if self.f["any"]:
            return "any"
        return "int"

    def ty(self, depth=0):
        r = self.rng
        if depth >= self.max_depth:
            return self.scalar_ty()
        c = r.random()
        d = depth + 1
        if c < 0.30:
            return self.scalar_ty()
        if c < 0.42:
            o = r.choice(["list", "list", "deque"] + (["set", "frozenset"] if self.f["sets"] else []))
            if o in ("set", "frozenset"):
                return ["coll", o, self.hashable_ty(d)]
            return ["coll", o, self.ty(d)]
        if c < 0.52 and self.f["map"]:
            o = r.choice(["dict", "dict", "odict"] + (["mproxy"] if self.f["mproxy"] else []) + (["counter"] if self.f["counter"] else []) + (["ddict"] if self.f.get("ddict", True) else []))
            if o == "counter":
                return ["map", "counter", self.key_ty(), "int"]
            return ["map", o, self.key_ty(), self.ty(d)]
        if c < 0.55 and self.f["chain"]:
            return ["chain", self.key_ty(), self.ty(d)]
        if c < 0.66 and self.f["tuple"]:
            k = r.random()
            if k < 0.35:
                return ["tvar", self.ty(d)]
            if k < 0.8:
                return ["tfix", [self.ty(d) for _ in range(r.randint(0, self.width))]]
            return ["tunp", [self.ty(d) for _ in range(r.randint(0, 2))], self.ty(d), [self.ty(d) for _ in range(r.randint(0, 2))]]
        if c < 0.74 and self.f["opt"]:
            t = self.ty(d)
            if self.nullable(t):
                return t
            if isinstance(t, list) and t[0] == "union":
                # typing flattens Optional[Union[...]] into a union with a None member
                return ["union", t[1] + ["none"]]
            return ["opt", t]
        if c < 0.82 and self.f["union"]:
            return self.union_ty(d)
        if c < 0.87 and self.f["nt"]:
            return self.nt_ty(d)
        if c < 0.91 and self.f["td"]:
            return self.td_ty(d)
        if self.f["dc"]:
            return self.dc_ty(d)
        return self.scalar_ty()

    @staticmethod
    def nullable(t):
        if t in ("any", "none"):
            return True
        if isinstance(t, list) and t[0] == "opt":
            return True
        if isinstance(t, list) and t[0] == "union":
            return any(G.nullable(m) for m in t[1])
        if isinstance(t, list) and t[0] == "lit":
            return any(c is None for c, _ in t[1])
        return False

    def union_ty(self, d):
        r = self.rng
        n = r.randint(2, 4)
        ms = []
        keys = set()
        for _ in range(n * 3):
            if len(ms) >= n:
                break
            t = self.ty(d) if r.random() < 0.6 else r.choice(["int", "str", "float", "bool", "none"])
            # typing flattens nested unions / Optional and removes duplicates
            if isinstance(t, list) and t[0] in ("union", "opt"):
                continue
            if t == "any":
                continue
            k = json.dumps(t)
            if k in keys:
                continue
            keys.add(k)
            ms.append(t)
        if len(ms) < 2:
            ms = ["int", "str"]
        if len(ms) == 2 and "none" in ms:
            other = [m for m in ms if m != "none"][0]
            return ["opt", other]
        return ["union", ms]

    def nt_ty(self, d):
        r = self.rng
        n = r.randint(1, self.width)
        fs = [[f"n{i}", self.ty(d)] for i in range(n)]   # names disjoint from dataclass field names
        defs = []
        if self.f["nt_defaults"] and r.random() < 0.4:
            k = r.randint(1, n)
            defs = [self.val(fs[i][1]) for i in range(n - k, n)]
        return ["nt", self.cid("NT"), fs, defs, None]

    def td_ty(self, d):
        r = self.rng
        names = ["k0", "k1", "it's", "a b", "k4"]
        r.shuffle(names)
        nreq = r.randint(0, 2)
        nopt = r.randint(0 if nreq else 1, 2)
        req = [[names[i], self.ty(d)] for i in range(nreq)]
        opt = [[names[nreq + i], self.ty(d)] for i in range(nopt)]
        return ["td", self.cid("TD"), req, opt]

    def dc_ty(self, d, nfields=None, cfg=None):
        r = self.rng
        n = nfields if nfields is not None else r.randint(1, self.width + 1)
        fs = []
        seen_default = False
        aliases = ["alias_a", "al'q", "x-y", "z\\n", "k k"]
        r.shuffle(aliases)
        for i in range(n):
            t = self.ty(d)
            fd = {"name": f"f{i}", "alias": None, "default": None, "init": True, "omit": False}
            if self.f["alias"] and r.random() < 0.3:
                fd["alias"] = aliases[i % len(aliases)] + str(i)
            if self.f["defaults"] and (seen_default or r.random() < 0.35):
                seen_default = True
                if self.nullable(t) and r.random() < 0.5:
                    fd["default"] = ["some", None]
                else:
                    fd["default"] = ["some", self.val(t)]
            if self.f["noninit"] and fd["default"] is not None and r.random() < 0.2:
                fd["init"] = False
            if self.f["omit"] and r.random() < 0.15:
                fd["omit"] = True
            fs.append([fd, t])
        if cfg is None:
            cfg = {}
            if self.f["config"]:
                for k, p in (("serialize_by_alias", 0.4), ("sort_keys", 0.2), ("namedtuple_as_dict", 0.2)):
                    if r.random() < p:
                        cfg[k] = True
        return ["dc", self.cid("DC"), cfg, fs]

    # ---- conforming values -----------------------------------------------------------
    def val(self, t):
        r = self.rng
        if isinstance(t, str):
            if t == "any":
                return r.choice([None, True, ["i", "3"], ["s", "any"], ["f", "2.5"], ["coll", "list", [["i", "1"], ["s", "q"]]], ["map", "dict", [[["s", "k"], ["i", "1"]]]]])
            if t == "none":
                return None
            if t == "bool":
                return r.choice([True, False])
            if t == "int":
                return ["i", str(r.choice(S.INT_POOL))]
            if t == "float":
                return ["f", repr(r.choice(S.FLOAT_POOL))]
            if t == "str":
                return ["s", r.choice(S.STR_POOL)]
        tag = t[0]
        if tag == "leaf":
            return ["leaf", t[1], repr(r.choice(S.LEAF_POOL[t[1]]))]
        if tag == "enum":
            return ["enum", t[1], r.choice(t[2])[0]]
        if tag == "lit":
            return r.choice(t[1])[0]
        if tag == "opt":
            return None if r.random() < 0.3 else self.val(t[1])
        if tag == "union":
            return self.val(r.choice(t[1]))
        if tag == "coll":
            n = r.choice([0, 1, 2, 3])
            items = [self.val(t[2]) for _ in range(n)]
            if t[1] in ("set", "frozenset"):
                items = _dedup(items)
            return ["coll", t[1], items]
        if tag == "map":
            n = r.choice([0, 1, 2, 3])
            pairs = []
            ks = _dedup([self.val(t[2]) for _ in range(n)])
            for k in ks:
                pairs.append([k, self.val(t[3])])
            return ["map", t[1], pairs]
        if tag == "chain":
            maps = []
            for _ in range(r.randint(1, 2)):
                ks = _dedup([self.val(t[1]) for _ in range(r.randint(0, 2))])
                maps.append(["map", "dict", [[k, self.val(t[2])] for k in ks]])
            return ["coll", "chainmap", maps]
        if tag == "tvar":
            return ["coll", "tuple", [self.val(t[1]) for _ in range(r.choice([0, 1, 2, 3]))]]
        if tag == "tfix":
            return ["coll", "tuple", [self.val(x) for x in t[1]]]
        if tag == "tunp":
            return ["coll", "tuple", [self.val(x) for x in t[1]] + [self.val(t[2]) for _ in range(r.choice([0, 1, 2]))] + [self.val(x) for x in t[3]]]
        if tag == "nt":
            return ["nt", t[1], [self.val(x) for _n, x in t[2]]]
        if tag == "td":
            pairs = [[["s", n], self.val(x)] for n, x in t[2]]
            for n, x in t[3]:
                if r.random() < 0.6:
                    pairs.append([["s", n], self.val(x)])
            return ["map", "dict", pairs]
        if tag == "dc":
            out = []
            for fd, x in t[3]:
                if not fd.get("init", True):
                    out.append([fd["name"], fd["default"][1]])
                elif fd["default"] is not None and r.random() < 0.35:
                    out.append([fd["name"], fd["default"][1]])
                else:
                    out.append([fd["name"], self.val(x)])
            return ["inst", t[1], out]
        raise ValueError(t)

    # ---- foreign inputs --------------------------------------------------------------
    def junk(self, depth=0):
        r = self.rng
        c = r.random()
        if depth > 2 or c < 0.6:
            return r.choice([None, True, False, ["i", "0"], ["i", "1"], ["i", "-5"], ["f", "1.5"], ["f", "2.0"], ["s", ""], ["s", "abc"], ["s", "1"], ["s", "2024-11-12"], ["s", "UTC"], ["s", "true"], ["s", "1.5"]])
        if c < 0.8:
            return ["coll", "list", [self.junk(depth + 1) for _ in range(r.randint(0, 3))]]
        return ["map", "dict", [[["s", k], self.junk(depth + 1)] for k in r.sample(["a", "f0", "f1", "k0", "x"], r.randint(0, 3))]]

    def corrupt(self, v, p=0.15):
        """per-node corruption of a packed (basic-form) value"""
        r = self.rng
        if r.random() < p:
            c = r.random()
            # scalar confusion: a look-alike of another scalar class
            if v is True or v is False:
                if c < 0.6:
                    return ["i", "1" if v else "0"]
            elif isinstance(v, list) and v[0] == "i" and c < 0.6:
                return r.choice([True, False, ["f", v[1] + ".0"], ["s", v[1]]])
            elif isinstance(v, list) and v[0] == "f" and c < 0.6:
                return r.choice([["i", "1"], ["s", v[1]], True])
            elif isinstance(v, list) and v[0] == "s" and c < 0.5:
                return r.choice([["i", "12"], ["s", v[1] + "x"], ["coll", "list", [v]], True, ["f", "1.5"]])
            c = r.random()
            if c < 0.4:
                return self.junk(1)
            if c < 0.55:
                return None
            if isinstance(v, list) and v[0] == "coll" and c < 0.8:
                items = list(v[2])
                if items and r.random() < 0.5:
                    items.pop(r.randrange(len(items)))
                else:
                    items.insert(r.randint(0, len(items)), self.junk(1))
                return ["coll", v[1], items]
            if isinstance(v, list) and v[0] == "map" and c < 0.9:
                pairs = list(v[2])
                if pairs and r.random() < 0.5:
                    pairs.pop(r.randrange(len(pairs)))
                else:
                    pairs.append([["s", r.choice(["extra", "f0", "None", "zz"])], self.junk(1)])
                return ["map", v[1], pairs]
            if isinstance(v, list) and v[0] == "i":
                return r.choice([["s", v[1]], ["f", v[1] + ".0"], True])
            if isinstance(v, list) and v[0] == "s":
                return r.choice([["i", "12"], ["s", v[1] + "x"], ["coll", "list", [v]]])
            return self.junk(1)
        if v is None or v is True or v is False:
            return v
        if v[0] == "coll":
            return ["coll", v[1], [self.corrupt(e, p) for e in v[2]]]
        if v[0] == "map":
            return ["map", v[1], [[k, self.corrupt(x, p)] for k, x in v[2]]]
        return v


def _dedup(items):
    seen = set()
    out = []
    for i in items:
        k = json.dumps(i, sort_keys=True)
        if k not in seen:
            seen.add(k)
            out.append(i)
    return out


def depth_of(t) -> int:
    if isinstance(t, str):
        return 0
    subs = [s for s in S.ty_nodes(t)][1:]
    # approximate: count nesting by recursion
    def d(x):
        if isinstance(x, str):
            return 0
        tag = x[0]
        if tag in ("leaf", "enum", "lit"):
            return 0
        kids = []
        if tag in ("opt", "tvar"):
            kids = [x[1]]
        elif tag in ("union", "tfix"):
            kids = x[1]
        elif tag == "coll":
            kids = [x[2]]
        elif tag == "map":
            kids = [x[2], x[3]]
        elif tag == "chain":
            kids = [x[1], x[2]]
        elif tag == "tunp":
            kids = [*x[1], x[2], *x[3]]
        elif tag == "nt":
            kids = [t for _n, t in x[2]]
        elif tag == "td":
            kids = [t for _n, t in x[2]] + [t for _n, t in x[3]]
        elif tag == "dc":
            kids = [t for _f, t in x[3]]
        return 1 + max([d(k) for k in kids], default=0)
    return d(t)


def tag_of(t) -> str:
    return t if isinstance(t, str) else (t[0] if t[0] not in ("coll", "map", "leaf") else f"{t[0]}:{t[1]}")
