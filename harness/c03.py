"""C03 — deserialization follows the documented coercions and is well typed.

Theorem: Mashu.unpack_conf (type soundness: whatever `unpack` returns conforms to the
annotation with the canonical classes; all inputs; structural induction).
Tie: real decode vs the model's `unpack` on arbitrary JSON-like inputs, both directions of
definedness; the real result is checked by an independent Python `conforms`.
"""
from __future__ import annotations

from . import corelib, decode
from . import schema as S

THEOREMS = ["Mashu.unpack_conf", "Mashu.unpacker_order_pinned"]
RULE = (
    "schema drawn from the grammar; input = serializer output of a conforming value (33 %), the same with per-node corruptions "
    "(wrong scalar type, None, str-for-list, short/long tuple, missing/extra keys, non-dict) (55 %), or arbitrary JSON-like data (12 %); "
    "non-trivial = schema has a container/dataclass/union/leaf node; distinct = distinct (schema, input, entry)"
)


def judge(ctx, case, out, r, mutated, models, reg):
    ty = case["ty"]
    info = decode.classify(models, out, reg) if models else {}

    def known(f):
        ex = info.get("explained_by") or []
        return info.get("impl_model_agrees") and ((f["id"] == "K1" and "k1" in ex) or (f["id"] == "K2" and "k2" in ex) or (f["id"] == "K3" and "k3" in ex) or (f["id"] == "K1" and len(ex) == 0 and not info.get("spec_agrees")))

    if "ok" in out:
        # well-typedness, by an independent reading of the annotation
        if not corelib.py_conforms(ty, r, reg):
            ctx.violation(case, out, "CONFORMS(S, decode(d))", "decoded value does not conform to its annotation", known)
            return
    if models is None:
        return
    if not info["spec_agrees"]:
        ctx.violation(case, {"impl": out, "reference": models["spec"]}, "decode(d) == REF_DECODE(S, d), same definedness", "decode differs from the documented reading of the type hints", known)
    if not info["impl_model_agrees"]:
        ctx.disagreement(case, models["impl"], out, "unpack")


# a NamedTuple with defaults read from a MAPPING (namedtuple_as_dict): a missing key selects the default of
# that member only, later keys are still read (finding F45)
_NTD = ["nt", "ND", [["a", "int"], ["b", "int"], ["c", ["opt", "str"]]], [["i", "5"], None], None]
_HND = ["dc", "HND", {"namedtuple_as_dict": True}, [[{"name": "p", "alias": None, "default": None, "init": True, "omit": False}, _NTD]]]


def _hnd(inner):
    return ["map", "dict", [[["s", "p"], inner]]]


NT_DICT_CORPUS = [(_HND, _hnd(["map", "dict", [[["s", k], v] for k, v in kv]]), e, "corpus") for e in ("mixin", "codec") for kv in (
    [("a", ["i", "1"])],
    [("a", ["i", "1"]), ("c", ["s", "z"])],
    [("a", ["s", "1"]), ("b", ["s", "2"]), ("c", ["s", "z"])],
    [("b", ["i", "2"])],
    [],
    [("a", ["i", "1"]), ("b", ["s", "x"])],
)] + [(_HND, _hnd(["coll", "list", [["i", "1"], ["i", "2"]]]), "mixin", "corpus")]


def _fd(name, default=None):
    return {"name": name, "alias": None, "default": default, "init": True, "omit": False}


# nullable fields: an explicit null wins over a falsy non-None default (0, "", False); a null ELEMENT of a
# variadic tuple inside a nullable field stays a null
NULLABLE_CORPUS = [
    (["dc", "NF1", {}, [[_fd("a", ["some", ["i", "0"]]), ["opt", "int"]], [_fd("b", ["some", ["s", ""]]), ["opt", "str"]], [_fd("c", ["some", False]), ["opt", "bool"]]]],
     ["map", "dict", [[["s", "a"], None], [["s", "b"], None], [["s", "c"], None]]], e, "corpus") for e in ("mixin", "codec")
] + [
    (["dc", "NF2", {}, [[_fd("t"), ["opt", ["tvar", ["opt", "str"]]]], [_fd("u", ["some", None]), ["opt", ["tvar", ["opt", "int"]]]]]],
     ["map", "dict", [[["s", "t"], ["coll", "list", [None, ["s", "a"]]]], [["s", "u"], ["coll", "list", [["i", "1"], None]]]]], e, "corpus") for e in ("mixin", "codec")
]


def generic_templates():
    """handwritten shapes the wire language cannot spell: generic NamedTuple / TypedDict / dataclass whose type
    parameter sits INSIDE a member annotation.  name -> (annotation, input, expected value)"""
    import datetime
    import sys
    import types
    import typing

    # (defined in a module of their own, without `from __future__ import annotations`)
    m = types.ModuleType("c03_generic_templates")
    sys.modules[m.__name__] = m
    exec(compile(
        "import typing\n"
        "T = typing.TypeVar('T')\n"
        "class GN(typing.NamedTuple, typing.Generic[T]):\n    x: T\n    xs: typing.List[T]\n"
        "class GT(typing.TypedDict, typing.Generic[T]):\n    x: T\n    xs: typing.Dict[str, typing.List[T]]\n"
        "import dataclasses\n"
        "S = typing.TypeVar('S')\n"
        "@dataclasses.dataclass\nclass GBase(typing.Generic[T, S]):\n    x: T\n    y: S\n"
        "@dataclasses.dataclass\nclass GChild(GBase[S, T], typing.Generic[T, S]):\n    pass\n"
        "type RJ = int | list[RJ]\n"
        "class RTD(typing.TypedDict):\n    a: RJ\n",
        "<c03 templates>", "exec", dont_inherit=True), m.__dict__)   # (exec of a string would inherit this module's __future__ flags)
    GN, GT = m.GN, m.GT
    GChild = m.GChild
    d = datetime.date(2020, 1, 2)
    return {
        "generic NamedTuple, List[T] member, T=date": (GN[datetime.date], ["2020-01-02", ["2020-01-02"]], GN(d, [d])),
        "generic NamedTuple, List[T] member, T=List[int]": (GN[typing.List[int]], [["1"], [["2", 3]]], GN([1], [[2, 3]])),
        "generic TypedDict, Dict[str, List[T]] member, T=date": (GT[datetime.date], {"x": "2020-01-02", "xs": {"k": ["2020-01-02"]}}, {"x": d, "xs": {"k": [d]}}),
        "List of generic NamedTuple": (typing.List[GN[int]], [["1", ["2"]]], [GN(1, [2])]),
        # GChild[int, str]: T=int, S=str -> GBase[str, int] -> x: str, y: int (the arguments follow Generic[T, S])
        "generic dataclass re-ordering its parent's parameters": (GChild[int, str], {"x": "5", "y": "7"}, GChild(x="5", y=7)),
        # a recursive union alias at an indexed position: the recursion decodes the element at hand
        "recursive union alias as a tuple member": (typing.Tuple[m.RJ, int], [[[1], [2]], 3], ([[1], [2]], 3)),
        "recursive union alias as a TypedDict member": (m.RTD, {"a": [[1], [2, [3]]]}, {"a": [[1], [2, [3]]]}),
    }


def run_generic_templates(ctx, only=None):
    from mashumaro.codecs.basic import BasicDecoder

    for name, (ann, data, want) in generic_templates().items():
        if only is not None and name != only:
            continue
        case = {"template": name}
        ctx.count(case, True, kind="template")
        try:
            got = BasicDecoder(ann).decode(data)
        except Exception as e:  # noqa
            ctx.violation(case, {"error": f"{type(e).__name__}: {e}"[:300]}, "decode returns", "decode failed where the reference reading is defined", lambda f: False)
            continue
        if got != want or repr(got) != repr(want):
            ctx.violation(case, {"decoded": repr(got)[:300]}, {"reference": repr(want)[:300]}, "an element below a bound type parameter is not converted to the parameter's type", lambda f: False)


def run(ctx):
    ctx.rule = RULE
    ctx.lean_check("Mashu.Props.C03", THEOREMS, extra_targets=["Mashu.Dispatch"])
    run_generic_templates(ctx)
    for mode, cs in decode.fixed_corpus(ctx).items():
        decode.run_decode(ctx, cs, judge, annot=mode)
    decode.run_decode(ctx, NT_DICT_CORPUS, judge)
    decode.run_decode(ctx, NULLABLE_CORPUS, judge)
    decode.run_decode(ctx, [(["leaf", "timezone"], ["s", x], "codec", "corpus") for x in ("UTC", "UTC\n", "UTC+03:00\n", " UTC", "UTC+03:00", "UTC-00:30 ")], judge)
    n, depth = (3000, 3) if ctx.tier == "quick" else (50000, 4)
    done = 0
    while done < n and ctx.time_left() > 30:
        k = min(3000, n - done)
        decode.run_decode(ctx, decode.gen_decode_cases(ctx, k, depth), judge)
        done += k
    # the same stream with every annotation wrapped in Annotated / NewType / TypeAliasType
    for mode in S.WRAP_MODES:
        if ctx.time_left() > 30:
            decode.run_decode(ctx, decode.gen_decode_cases(ctx, 500 if ctx.tier == "quick" else 6000, depth), judge, annot=mode)
    ctx.assumptions += [
        "builtin constructors int()/float()/str()/bool() and stdlib leaf parsers are the oracle (graph computed by the harness on every node of the input, never through mashumaro)",
    ]


def replay(ctx, body):
    c = body["case"]
    if "template" in c:
        run_generic_templates(ctx, only=c["template"])
        return ctx.finish()
    decode.run_decode(ctx, [(c["ty"], c["input"], c.get("entry", "codec"), "replay")], judge, annot=c.get("annot", False))
    return ctx.finish()
