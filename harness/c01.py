"""C01 — basic-form round trip is the identity.

Theorems: Mashu.Tz.tz_roundtrip (parse_timezone ∘ tzname = id on every whole-minute offset),
Mashu.roundtrip (structural induction, fragment), tuple index arithmetic lemmas.
Tie: decode(encode(v)) on the implementation and on the model; exhaustive timezone table.
"""
from __future__ import annotations

import datetime

from . import corelib, gen
from . import schema as S

THEOREMS = ["Mashu.Tz.tz_roundtrip", "Mashu.Tz.tz_roundtrip_table", "Mashu.Tz.utc_pattern_pinned", "Mashu.Tz.tz_fullmatch_pinned", "Mashu.roundtrip"]
RULE = (
    "type-directed generation without key-dropping options (no omit / init=False, aliases only together with serialize_by_alias); one conforming "
    "value per schema from per-leaf pools (negative / sub-hour offsets, aware datetimes, negative timedeltas, big ints, quote-bearing strings); "
    "non-trivial = schema has a container/dataclass/leaf node; the 2879 whole-minute timezone offsets are enumerated exhaustively"
)


def fix_aliases(ty, rng):
    def f(n):
        if isinstance(n, list) and n[0] == "dc":
            if any(fd.get("alias") for fd, _t in n[3]):
                cfg = dict(n[2])
                if rng.random() < 0.8:
                    cfg["serialize_by_alias"] = True
                else:
                    cfg["allow_deserialization_not_by_alias"] = True
                    cfg.pop("serialize_by_alias", None)
                return ["dc", n[1], cfg, n[3]]
        return n

    return S.map_ty(ty, f)


def _dc_in_union(ty):
    return any((not isinstance(n, str)) and n[0] == "union" and any((not isinstance(mem, str)) and mem[0] == "dc" for mem in n[1]) for n in S.ty_nodes(ty))


def union_family(ty, info):
    """known family: the outcome of a union depends on member order and duck typing
    (K10 permissive packers, K2 structured member before exact scalar, K12 sequence
    unpackers accepting mappings/strings).  Signature: schema has a union and the executable
    model in implementation mode reproduces the implementation's result."""
    return corelib.has_union(ty) and (info.get("impl_model_agrees") or _dc_in_union(ty))


def run_stream(ctx, cases, annot=False):
    lines, metas = [], []
    for ty, value, entry in cases:
        reg = S.Reg(mixin=(entry == "mixin"))
        reg.annot = annot
        try:
            out, r, viter = corelib.real_pack(ty, value, reg, entry)
            back = None
            if "ok" in out:
                back, rb, _mut = corelib.real_unpack(ty, out["ok"], reg, entry)
            o1 = S.build_oracle(ty, [viter], reg, "pack", getattr(reg, "objmap", None))
            printed = [c[2][1] for c in o1["calls"] if c[2][0] == "ok"]
            extra = [out["ok"]] if "ok" in out else []
            o2 = S.build_oracle(ty, printed + extra, reg, "unpack")
            oracle = {"calls": o1["calls"] + o2["calls"], "eq": o1["eq"] + o2["eq"], "enums": o1["enums"]}
            lines.append({"op": "roundtrip", "ty": ty, "value": viter, "oracle": oracle, "nailed": entry == "mixin"})
            metas.append((ty, viter, entry, out, back, reg))
        finally:
            reg.close()
    outs = ctx.model(lines)
    for i, (ty, value, entry, out, back, reg) in enumerate(metas):
        case = {"ty": ty, "value": value, "entry": entry}
        if annot:
            case["annot"] = annot
            ctx.bump("annotated-wrapper cases")
        ctx.count(case, not isinstance(ty, str), kind=f"root:{gen.tag_of(ty)}")
        ctx.bump(f"depth:{gen.depth_of(ty)}")
        m = outs[i] if outs else None
        info = {}
        if "build_error" in out:
            ctx.bump("build_error")
            ctx.violation(case, out, "class / codec builds", "schema does not build", lambda f: False)
            continue
        if m is not None and m.get("inconclusive"):
            m = None
        if m is not None:
            if "packed" in m:
                a1 = corelib.compare({"ok": m["packed"]}, out, reg)[0]
                a2 = back is not None and corelib.compare(m["back"], back, reg)[0]
                info["impl_model_agrees"] = a1 and a2
            else:
                info["impl_model_agrees"] = corelib.compare(m, out, reg)[0]
        excluded = corelib.ambiguous_union(ty)
        if excluded:
            ctx.bump("excluded:wire-ambiguous-union")
        # direct predicate: decode(encode(v)) == v with the same concrete classes
        ok = "ok" in out and back is not None and "ok" in back and S.same(back["ok"], S.canon(S.from_v(value, reg), reg))
        if not ok and not excluded:
            ctx.violation(case, {"encoded": out, "decoded": back}, "decode(encode(v)) == v, same concrete classes", "round trip is not the identity", lambda f: f["id"] == "K12" and union_family(ty, info))
        if m is not None and not info.get("impl_model_agrees", True):
            if _dc_in_union(ty):
                # a dataclass member of a union is tried on values of other members by ATTRIBUTE access (duck typing on
                # same-named fields, constant Tuple[()] members): the permissive packers of finding K10, outside what the
                # model's dataclass packer (an instance of that class) reproduces
                ctx.bump("union with a dataclass member: duck-typed packing outside the model")
            else:
                ctx.disagreement(case, m, {"encoded": out, "decoded": back}, "roundtrip")


def tz_exhaustive(ctx):
    """the real parse_timezone against the real tzname on every offset a timezone can carry"""
    from mashumaro.core.helpers import parse_timezone

    bad = 0
    for m in range(-1439, 1440):
        tz = datetime.timezone(datetime.timedelta(minutes=m))
        name = tz.tzname(None)
        try:
            back = parse_timezone(name)
        except Exception as e:  # noqa
            back = repr(e)
        ctx.evaluations += 1
        if back != tz:
            bad += 1
            ctx.violation({"offset_minutes": m, "tzname": name}, {"parsed": repr(back)}, f"parse_timezone({name!r}) == timezone(minutes={m})", "timezone offset does not round trip", lambda f: False)
    ctx.bump("tz_offsets_enumerated", 2879)
    # malformed / boundary strings: model (Tz.parseTz) vs implementation
    import itertools

    strs = ["UTC", "UTC\n", "utc", "UTC+00:00", "UTC-00:00", "UTC+24:00", "UTC-23:59", "UTC+23:60", "UTC+2:00", "UTC+02:0", "UTC 02:00", "UTC+02:00 ", "UTC+02:00\n", "UTC+29:59", "UTC+30:00", "UTC+0२:00", "", "UTC+02-00"]
    for s, h, mm in itertools.product("+-", ("00", "05", "12", "23", "24", "29"), ("00", "01", "30", "59")):
        strs.append(f"UTC{s}{h}:{mm}")
    lines = [{"op": "tzparse", "s": s} for s in strs]
    outs = ctx.model(lines)
    for s, o in zip(strs, outs or []):
        try:
            tz = parse_timezone(s)
            real = int(tz.utcoffset(None).total_seconds() // 60)
        except Exception:
            real = None
        ctx.evaluations += 1
        if o.get("minutes") != real:
            ctx.disagreement({"tz_string": s}, o, {"minutes": real}, "parse_timezone")


def gen_cases(ctx, n, depth):
    cases = []
    for _ in range(n):
        g = gen.G(ctx.rng, max_depth=depth, features={"omit": False, "noninit": False})
        ty = fix_aliases(g.ty(), ctx.rng)
        entry = "codec"
        if isinstance(ty, list) and ty[0] == "dc" and ctx.rng.random() < 0.6:
            entry = "mixin"
        cases.append((ty, g.val(ty), entry))
    return cases


def run(ctx):
    ctx.rule = RULE
    ctx.lean_check("Mashu.Props.C01", THEOREMS, extra_targets=["Mashu.Dispatch"])
    tz_exhaustive(ctx)
    from . import decode

    for mode, cs in decode.fixed_corpus(ctx, key="value").items():
        run_stream(ctx, [(t, v, e) for t, v, e, _o in cs], annot=mode)
    n, depth = (2500, 3) if ctx.tier == "quick" else (40000, 4)
    done = 0
    while done < n and ctx.time_left() > 30:
        k = min(2500, n - done)
        run_stream(ctx, gen_cases(ctx, k, depth))
        done += k
    # the same generator with every annotation wrapped in Annotated[..., metadata]
    for mode in S.WRAP_MODES:
        if ctx.time_left() > 30:
            run_stream(ctx, gen_cases(ctx, (500 if ctx.tier == "quick" else 6000) // (1 if mode is True else 2), depth), annot=mode)
    ctx.exhaustive = False
    ctx.assumptions += [
        "stdlib leaf printers/parsers are mutually inverse on the lossless leaves (OracleLaws.leaf_rt); sampled on the leaf pools on every run",
        "unions two of whose members can have the same JSON-level class are excluded from the predicate (the statement's exclusion), decided structurally by harness/corelib.ambiguous_union",
    ]


def replay(ctx, body):
    case = body["case"]
    if "tzname" in case or "tz_string" in case:
        tz_exhaustive(ctx)
    else:
        run_stream(ctx, [(case["ty"], case["value"], case.get("entry", "codec"))], annot=case.get("annot", False))
    return ctx.finish()
