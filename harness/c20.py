"""C20 — schema generation is total, well formed and closed.

Theorems (Props/C20.lean): schema_wellformed (mutual structural induction over the whole type
grammar; required ⊆ properties at every nesting: required_subset_props), default_total (the
`default` of a field exists under EVERY owner Config — the clause repaired by F8).

Tie / decided on the implementation, for generated (schema, class Config) x builder options and
for the schema-specific templates:
 * build_json_schema does not raise (totality) — over Config options omit_none / omit_default /
   serialize_by_alias / aliases / sort_keys / namedtuple_as_dict / a Config.dialect carrying them;
 * the document is valid against the Draft 2020-12 metaschema (jsonschema check_schema);
 * every `$ref` starts with the configured prefix and names a collected definition;
 * a JSONSchemaBuilder used for a sequence of builds accumulates definitions consistently: the
   definitions after the sequence contain those of each single build, unchanged, and rebuilding a
   type returns the same schema;
 * JSONSchema.from_dict(doc).to_dict() == doc;
 * the inlined document equals the one rendered from the Lean model (same stream as C06).
"""
from __future__ import annotations

import json

from . import c06, gen
from . import schema as S

THEOREMS = [
    "Mashu.Schema.schema_wellformed",
    "Mashu.Schema.required_subset_props",
    "Mashu.Schema.default_total",
]
RULE = (
    "type-directed generation (depth<=3 quick / 4 thorough) with random class Config options (omit_none, omit_default, serialize_by_alias, sort_keys, namedtuple_as_dict, "
    "aliases) kept as generated x dialect {Draft 2020-12, OpenAPI 3.1} x all_refs x ref_prefix {default, '#/definitions', 'https://e.x/s/'}; builder sequences of 2-4 types; "
    "plus the schema-specific templates; non-trivial = the schema has a dataclass / named tuple / TypedDict node"
)

PREFIXES = [None, "#/definitions", "https://example.org/schemas/"]


FORCE: dict = {}     # replay: {"via": value of the recorded case (or None)}


def refs_in(doc, acc=None):
    if acc is None:
        acc = []
    if isinstance(doc, dict):
        for k, v in doc.items():
            if k == "$ref" and isinstance(v, str):
                acc.append(v)
            else:
                refs_in(v, acc)
    elif isinstance(doc, list):
        for v in doc:
            refs_in(v, acc)
    return acc


def check_built(ctx, case, sch, prefix_effective, defs, tags=frozenset()):
    import jsonschema
    from mashumaro.jsonschema.models import JSONSchema

    doc = sch.to_dict()
    try:
        jsonschema.Draft202012Validator.check_schema(doc)
    except Exception as e:  # noqa
        ctx.violation(case, {"metaschema_error": str(e)[:300]}, "the document is valid against the Draft 2020-12 metaschema", "generated schema violates the metaschema", lambda f: False)
    for r in refs_in(doc):
        if not r.startswith(prefix_effective + "/"):
            ctx.violation(case, {"ref": r}, {"prefix": prefix_effective}, "a $ref does not start with the configured prefix", lambda f: False)
        elif r[len(prefix_effective) + 1:] not in defs:
            ctx.violation(case, {"ref": r, "definitions": sorted(defs)[:10]}, "every $ref names a collected definition", "dangling $ref", lambda f: False)
    try:
        back = JSONSchema.from_dict(doc).to_dict()
    except Exception as e:  # noqa
        ctx.violation(case, {"from_dict": f"{type(e).__name__}: {e}"[:300]}, "JSONSchema.from_dict(doc) succeeds", "the schema document does not survive from_dict", lambda f: False)
        return doc
    if json.dumps(back, sort_keys=True, default=repr) != json.dumps(doc, sort_keys=True, default=repr):
        ctx.violation(case, {"after_round_trip": back if len(json.dumps(back, default=repr)) < 800 else "..."}, {"document": doc if len(json.dumps(doc, default=repr)) < 800 else "..."},
                      "JSONSchema.from_dict(doc).to_dict() != doc", lambda f: False)
    return doc


def build_checked(ctx, case, T, dialect, all_refs, prefix, tags=frozenset()):
    from mashumaro.jsonschema import build_json_schema

    try:
        kw = {"dialect": dialect, "all_refs": all_refs}
        if prefix is not None:
            kw["ref_prefix"] = prefix
        via = case.get("via")
        if via:
            # the same request made with a caller-supplied Context (fresh, no ref_prefix of its own) built for the
            # SAME or for the OTHER dialect: the per-call dialect / prefix decide, as they do without a Context
            from mashumaro.jsonschema.models import Context

            other = [d for d in dialects() if d is not dialect][0]
            kw["context"] = Context(dialect=other) if via == "context-other-dialect" else Context(dialect=dialect)
        sch = build_json_schema(T, **kw)
    except RecursionError:
        ctx.violation(case, {"error": "RecursionError"}, "build_json_schema succeeds", "schema generation recursed without bound", lambda f, _t=tags: f["id"] == "K8" and "self-reference" in _t)
        return None
    except NotImplementedError as e:
        ctx.violation(case, {"error": f"NotImplementedError: {e}"[:200]}, "build_json_schema succeeds for every supported type", "schema generation does not support a type the serializer supports",
                      lambda f, _t=tags: f["id"] == "K18" and "pattern" in _t)
        return None
    except Exception as e:  # noqa
        ctx.violation(case, {"error": f"{type(e).__name__}: {e}"[:300]}, "build_json_schema succeeds", "schema generation crashed", lambda f: False)
        return None
    eff = (prefix.rstrip("/") if prefix is not None else dialect.definitions_root_pointer)
    defs = sch.definitions or {}
    return check_built(ctx, case, sch, eff, defs, tags)


def dialects():
    from mashumaro.jsonschema.dialects import DRAFT_2020_12, OPEN_API_3_1

    return [DRAFT_2020_12, OPEN_API_3_1]


def has_pattern(ty):
    return any((not isinstance(n, str)) and n[0] == "leaf" and n[1] == "pattern" for n in S.ty_nodes(ty))


def run_cases(ctx, cases, annot=False):
    from mashumaro.jsonschema import JSONSchemaBuilder

    lines, metas = [], []
    rng = ctx.rng
    built = []
    for ty in cases:
        reg = S.Reg(mixin=True)
        reg.annot = annot
        keep = False
        try:
            try:
                ann = S.realize(ty, reg)
            except RecursionError:
                raise
            except Exception:  # noqa
                ctx.bump("build_error")
                continue
            tags = {"pattern"} if has_pattern(ty) else set()
            nontrivial = any((not isinstance(n, str)) and n[0] in ("dc", "nt", "td") for n in S.ty_nodes(ty))
            inline_doc = None
            for dialect in dialects():
                for all_refs in (False, True):
                    prefix = rng.choice(PREFIXES)
                    case = {"ty": ty, "dialect": type(dialect).__name__, "all_refs": all_refs, "ref_prefix": prefix}
                    if annot:
                        case["annot"] = annot
                    r = rng.random()
                    if "via" in FORCE:
                        if FORCE["via"]:
                            case["via"] = FORCE["via"]
                    elif r < 0.3:
                        case["via"] = "context-other-dialect" if r < 0.2 else "context"
                    ctx.count(case, nontrivial, kind=f"all_refs:{all_refs}" + (":" + case["via"] if "via" in case else ""))
                    doc = build_checked(ctx, case, ann, dialect, all_refs, prefix, tags)
                    if doc is not None and not all_refs and inline_doc is None:
                        inline_doc = doc
            # builder sequences
            if built and rng.random() < 0.5:
                prev = rng.sample(built, min(len(built), rng.randint(1, 3)))
                seq = [t for t, _r in prev] + [ann]
                for dialect in dialects():
                    b = JSONSchemaBuilder(dialect=dialect, all_refs=True)
                    case = {"ty": ty, "builder_sequence": len(seq), "dialect": type(dialect).__name__}
                    if annot:
                        case["annot"] = annot
                    try:
                        firsts = [b.build(t).to_dict() for t in seq]
                        defs1 = dict(b.context.definitions)
                        again = [b.build(t).to_dict() for t in seq]
                        defs2 = dict(b.context.definitions)
                    except (RecursionError, NotImplementedError):
                        continue
                    except Exception as e:  # noqa
                        ctx.violation(case, {"error": f"{type(e).__name__}: {e}"[:200]}, "a builder can be used for several builds", "builder crashed on a sequence of builds", lambda f: False)
                        continue
                    ctx.bump("builder_sequences")
                    if firsts != again or {k: v.to_dict() for k, v in defs1.items()} != {k: v.to_dict() for k, v in defs2.items()}:
                        ctx.violation(case, {"second_pass_differs": True}, "rebuilding the same types with one builder changes nothing", "builder results depend on what was built before", lambda f: False)
                    for t in seq:
                        single = JSONSchemaBuilder(dialect=dialect, all_refs=True)
                        try:
                            single.build(t)
                        except Exception:  # noqa
                            continue
                        for name, s_ in single.context.definitions.items():
                            if name not in defs1:
                                ctx.violation(case, {"missing_definition": name}, "definitions accumulate over builds", "a definition collected by a single build is missing after the sequence", lambda f: False)
                            elif defs1[name].to_dict() != s_.to_dict():
                                ctx.violation(case, {"definition": name, "sequence": defs1[name].to_dict(), "single": s_.to_dict()}, "a definition is the same whether built alone or in a sequence",
                                              "definition depends on the build history", lambda f: f["id"] == "K5")
            built.append((ann, reg))
            if len(built) > 6:
                _t, r0 = built.pop(0)
                r0.close()
            keep = True
            if inline_doc is not None and c06.modelled(ty):
                lines.append({"op": "schema", "ty": ty, "nt_as_dict": False})
                metas.append(({"ty": ty}, c06.strip_doc(inline_doc), reg))
        finally:
            if not keep:
                reg.close()
    outs = ctx.model(lines)
    for i, (case, real_doc, reg) in enumerate(metas):
        if outs is None:
            break
        m = outs[i]
        try:
            md = c06.model_doc(m["schema"], reg)
        except Exception as e:  # noqa
            ctx.disagreement(case, m, f"{e}", "schema document")
            continue
        if json.dumps(md, sort_keys=True, default=repr) != json.dumps(real_doc, sort_keys=True, default=repr):
            ctx.disagreement(case, md, real_doc, "schema document")
    for _t, r in built:
        r.close()


def run_templates(ctx):
    from . import jschema_templates as JT

    tpls, mods = JT.templates(ctx.rng)
    try:
        for name, T, values, tags in tpls:
            for dialect in dialects():
                for all_refs in (False, True):
                    for prefix in (None, "#/definitions"):
                        case = {"template": name, "dialect": type(dialect).__name__, "all_refs": all_refs, "ref_prefix": prefix}
                        ctx.count(case, True, kind="template")
                        build_checked(ctx, case, T, dialect, all_refs, prefix, tags)
        # history independence of defaults across classes (one process, many builds)
        from mashumaro.jsonschema import build_json_schema

        byname = {n: T for n, T, _v, _t in tpls}
        T = byname.get("equal defaults that serialize differently")
        if T is not None:
            doc = build_json_schema(T).to_dict()
            want = [{"v": "1.0"}, {"v": "1.00"}, {"v": 1}, {"v": True}]
            got = []
            for item in doc.get("prefixItems", []):
                props = item.get("properties", {})
                got.append({k: p.get("default") for k, p in props.items()})
            ok = len(got) == 4 and all(json.dumps(a) == json.dumps(b) for a, b in zip(got, want))
            ctx.count({"template": "equal defaults"}, True, kind="template")
            if not ok:
                ctx.violation({"template": "equal defaults that serialize differently"}, {"defaults": got}, {"defaults": want}, "defaults that compare equal but serialize differently are conflated", lambda f: False)
    finally:
        JT.cleanup(mods)


def gen_types(ctx, n, depth):
    out = []
    for _ in range(n):
        g = gen.G(ctx.rng, max_depth=depth, features={"omit": False, "noninit": False})
        ty = g.ty()
        # random serialization options on every class (they must not matter for totality)
        def f(node, rng=ctx.rng):
            if isinstance(node, list) and node[0] == "dc":
                cfg = dict(node[2])
                for k, p in (("omit_none", 0.3), ("omit_default", 0.3), ("serialize_by_alias", 0.4)):
                    if rng.random() < p:
                        cfg[k] = True
                return ["dc", node[1], cfg, node[3]]
            return node

        out.append(S.map_ty(ty, f))
    return out


def run(ctx):
    ctx.rule = RULE
    ctx.lean_check("Mashu.Props.C20", THEOREMS, extra_targets=["Mashu.Dispatch"])
    run_templates(ctx)
    # repaired defects first: their witnesses must keep passing
    for f in ctx.known:
        w = f.get("witness") or {}
        if f.get("status") == "fixed" and isinstance(w, dict) and "ty" in w:
            ctx.bump("corpus(fixed findings)")
            run_cases(ctx, [w["ty"]], annot=w.get("annot", False))
    n, depth = (900, 3) if ctx.tier == "quick" else (15000, 4)
    done = 0
    while done < n and ctx.time_left() > 40:
        k = min(300, n - done)
        run_cases(ctx, gen_types(ctx, k, depth))
        done += k
    for mode in S.WRAP_MODES:
        if ctx.time_left() > 40:
            ctx.bump(f"wrapper cases:{mode}", 150 if ctx.tier == "quick" else 2000)
            run_cases(ctx, gen_types(ctx, 150 if ctx.tier == "quick" else 2000, depth), annot=mode)


def replay(ctx, body):
    ctx.lean_check("Mashu.Props.C20", THEOREMS, extra_targets=["Mashu.Dispatch"])
    c = body["case"]
    if c and "template" in c:
        run_templates(ctx)
    elif c and "ty" in c:
        FORCE["via"] = c.get("via")
        run_cases(ctx, [c["ty"]], annot=c.get("annot", False))
    return ctx.finish()
