"""Shared decode stream for C03 / C05 / C11: arbitrary inputs through the implementation,
the model in implementation mode and the model in reference modes (fixK1/K2/K3)."""
from __future__ import annotations

from . import corelib, gen
from . import schema as S

# fixK3 is the behaviour of /repo since fix F17 (NamedTuple defaults apply only to missing items); the Lean default is true
MODES = [("impl", {}), ("k1", {"fixK1": True}), ("k2", {"fixK2": True}), ("spec", {"fixK1": True, "fixK2": True})]


def fixed_corpus(ctx, key="input"):
    """witnesses of repaired findings of this property (those shaped like a decode / encode case), grouped by
    wrapper mode: {annot: [(ty, data, entry, "corpus")]}; they run first on every run"""
    out = {}
    n = 0
    for f in ctx.known:
        w = f.get("witness") or {}
        if f.get("status") == "fixed" and isinstance(w, dict) and "ty" in w and key in w:
            out.setdefault(w.get("annot", False), []).append((w["ty"], w[key], w.get("entry", "codec"), "corpus"))
            n += 1
    if n:
        ctx.bump("corpus(fixed findings)", n)
    return out


def run_decode(ctx, cases, judge, annot=False):
    """cases: (ty, data, entry, origin) ; judge(ctx, case, real, models, reg, extra).
    `annot`: wrap every annotation in Annotated / NewType / TypeAliasType (schema.realize)"""
    lines, metas = [], []
    for ty, data, entry, origin in cases:
        if any(isinstance(n, list) and len(n) == 3 and n[0] == "coll" and n[1] == "chainmap" and any(not (isinstance(mp, list) and mp and mp[0] == "map") for mp in n[2]) for n in S.v_nodes(data) if n is not None):
            ctx.bump("input skipped: ChainMap over a non-mapping (not JSON-like data)")
            continue
        reg = S.Reg(mixin=(entry == "mixin"))
        reg.annot = annot
        try:
            try:
                S.realize(ty, reg)
            except Exception as e:
                ctx.bump("build_error")
                ctx.violation({"ty": ty, "entry": entry}, {"build_error": repr(e)[:300]}, "schema builds", "schema does not build", lambda f: False)
                continue
            try:
                data = S.norm_v(data, reg)
            except Exception:
                # the corrupted input is not a Python value at all (e.g. a list inside a frozenset): not an input
                ctx.bump("input skipped: not realisable as a Python value")
                continue
            try:
                pass
            except Exception as e:
                ctx.bump("build_error")
                ctx.violation({"ty": ty, "entry": entry}, {"build_error": repr(e)[:300]}, "schema builds", "schema does not build", lambda f: False)
                continue
            out, r, mutated = corelib.real_unpack(ty, data, reg, entry)
            data = getattr(reg, "last_input_iter", data)   # sets listed in the iteration order of the real input object
            oracle = S.build_oracle(ty, [data], reg, "unpack")
            for _name, flags in MODES:
                lines.append({"op": "unpack", "ty": ty, "value": data, "oracle": oracle, "nailed": entry == "mixin", **flags})
            metas.append((ty, data, entry, origin, out, r, mutated, reg))
        finally:
            reg.close()
    outs = ctx.model(lines)
    k = len(MODES)
    for i, (ty, data, entry, origin, out, r, mutated, reg) in enumerate(metas):
        models = None
        if outs:
            models = {name: outs[k * i + j] for j, (name, _f) in enumerate(MODES)}
            if any(m.get("inconclusive") for m in models.values()):
                models = None
        case = {"ty": ty, "input": data, "entry": entry}
        if annot:
            case["annot"] = annot
            ctx.bump(f"wrapper cases:{annot}")
        outcome = "ok" if "ok" in out else ("build_error" if "build_error" in out else "err:" + out["err"]["kind"])
        ctx.count(case, not isinstance(ty, str), kind=f"outcome:{outcome}")
        ctx.bump(f"origin:{origin}")
        ctx.bump(f"root:{gen.tag_of(ty)}")
        judge(ctx, case, out, r, mutated, models, reg)


def classify(models, real, reg):
    """which reference switch (if any) explains a difference between implementation and spec"""
    if models is None:
        return None
    agree = {n: corelib.compare(m, real, reg)[0] for n, m in models.items()}
    info = {"impl_model_agrees": agree["impl"], "spec_agrees": agree["spec"]}
    # a finding Kx explains the difference if switching only Kx in the model already yields the spec result
    import json

    spec = json.dumps(models["spec"], sort_keys=True)
    info["explained_by"] = [n for n in ("k1", "k2") if json.dumps(models[n], sort_keys=True) == spec and not agree["spec"]]
    return info


def gen_decode_cases(ctx, n, depth, features=None, corrupt_p=0.2):
    cases = []
    rng = ctx.rng
    for _ in range(n):
        g = gen.G(rng, max_depth=depth, features=features)
        ty = g.ty()
        entry = "codec"
        if isinstance(ty, list) and ty[0] == "dc" and rng.random() < 0.6:
            entry = "mixin"
        c = rng.random()
        reg = S.Reg(mixin=(entry == "mixin"))
        try:
            try:
                val = g.val(ty)
                out, _r, _v = corelib.real_pack(ty, val, reg, entry)
                packed = out.get("ok")
            except Exception:
                packed = None
        finally:
            reg.close()
        if packed is None or c < 0.12:
            cases.append((ty, g.junk(), entry, "junk"))
        elif c < 0.45:
            cases.append((ty, packed, entry, "valid"))
        else:
            cases.append((ty, g.corrupt(packed, corrupt_p), entry, "corrupted"))
    return cases
