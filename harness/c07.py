"""C07 — absent keys take defaults, present keys always win.

Theorems (Props/C07.lean, C05.lean): args_reach_right_param (every field layout: the generated
constructor call binds each value to its own parameter), assemble_pos_prefix, assemble_disjoint,
absent_takes_default, noninit_never_read, never_defaulted (= present wins).
Tie: generated layouts (required / default / default_factory / kw_only / init=False / InitVar /
ClassVar, single class or 2-3 inheritance levels with re-declared fields), ALL 2^n subsets of the
keys; the real from_dict result vs the expectation computed from the stdlib's own view of the
class (dataclasses.fields), freshness of factory results, and the positional/keyword split of
the generated call (captured source) vs the model's `assemble`.
Inherited members over arbitrary class graphs: harness/c07_mro.py (theorems Mashu.Mro.*).
"""
from __future__ import annotations

import contextlib
import dataclasses
import io
import itertools
import re
import typing

THEOREMS = [
    "Mashu.Args.args_reach_right_param",
    "Mashu.Args.assemble_pos_prefix",
    "Mashu.Args.assemble_disjoint",
    "Mashu.absent_takes_default",
    "Mashu.noninit_never_read",
    "Mashu.never_defaulted",
    "Mashu.Mro.collect_eq_spec",
    "Mashu.Mro.builder_view_eq_dataclasses",
    "Mashu.Mro.walk_pinned",
    "Mashu.Mro.nearest_first_walk_differs",
]
RULE = (
    "layout = 1-3 class levels declaring 1-5 fields in total from kinds {required, default, default_factory} x kw_only x init=False (+ InitVar and ClassVar members), "
    "a level may re-declare an inherited field with another default status; for each layout every subset of the field names (plus names of non-constructor members) is used as the key set; "
    "non-trivial = layout has at least two of the kinds or inheritance; distinct = distinct (layout, key subset)"
)

NAMES = ["a", "b", "c", "d", "e"]


def gen_layout(rng):
    nlev = rng.choice([1, 1, 2, 3])
    levels = []
    declared = []
    total = rng.randint(1, 5)
    names = list(NAMES[:total])
    for lv in range(nlev):
        fields = []
        own = [n for n in names if n not in declared and rng.random() < 0.7] if lv < nlev - 1 else [n for n in names if n not in declared]
        redecl = [n for n in declared if rng.random() < 0.3] if lv > 0 else []
        for n in own + redecl:
            kind = rng.choice(["req", "req", "def", "fac", "opt0", "optstr", "optnone", "anydef", "optfac"])
            fields.append({"name": n, "kind": kind, "kw_only": rng.random() < 0.25, "init": True})
            if rng.random() < 0.25:
                fields[-1]["alias"] = "A_" + n          # the key differs from the parameter name
            if kind in ("def", "fac") and rng.random() < 0.15:
                fields[-1]["init"] = False
        declared += own
        levels.append({"fields": fields, "initvar": rng.random() < 0.15, "classvar": rng.random() < 0.2})
    if rng.random() < 0.5:
        levels[-1]["allow_by_name"] = True              # allow_deserialization_not_by_alias
    return levels


def build(levels, idx, debug=False):
    """real classes; a non-kw_only required field after a defaulted one is made kw_only (dataclass rule)"""
    from mashumaro import DataClassDictMixin
    from mashumaro.config import BaseConfig

    base = DataClassDictMixin
    cls = None
    for li, lv in enumerate(levels):
        forced_kw = set()

        def make_ns():
            ann, ns = {}, {}
            for f in lv["fields"]:
                ann[f["name"]] = {"fac": typing.List[int], "opt0": typing.Optional[int], "optstr": typing.Optional[str], "optnone": typing.Optional[int], "anydef": typing.Any, "optfac": typing.Optional[typing.List[int]]}.get(f["kind"], int)
                kw = {}
                if f["kind"] in ("def", "anydef"):
                    kw["default"] = 7
                elif f["kind"] in ("fac", "optfac"):
                    kw["default_factory"] = list     # (optfac: a NULLABLE member whose default comes from a factory)
                elif f["kind"] == "opt0":
                    kw["default"] = 0          # falsy, non-None default of a nullable field
                elif f["kind"] == "optstr":
                    kw["default"] = ""
                elif f["kind"] == "optnone":
                    kw["default"] = None
                if f["kw_only"] or f["name"] in forced_kw:
                    kw["kw_only"] = True
                if not f["init"]:
                    kw["init"] = False
                if f.get("alias"):
                    kw["metadata"] = {"alias": f["alias"]}
                ns[f["name"]] = dataclasses.field(**kw)   # fresh Field objects on every attempt
            if lv["initvar"]:
                ann[f"iv{li}"] = dataclasses.InitVar[int]
                ns[f"iv{li}"] = dataclasses.field(default=0, kw_only=True)
            if lv["classvar"]:
                ann[f"cv{li}"] = typing.ClassVar[int]
                ns[f"cv{li}"] = 99
            if li == len(levels) - 1 and debug:
                ns["Config"] = type("Config", (BaseConfig,), {"debug": True, "allow_deserialization_not_by_alias": bool(lv.get("allow_by_name"))})
            ns["__annotations__"] = ann
            return ns

        for attempt in range(6):
            c = type(f"C07_{idx}_{li}", (base,), make_ns())
            c.__module__ = __name__
            try:
                cls = dataclasses.dataclass(c)
                break
            except TypeError as e:
                # "non-default argument 'x' follows default argument": make x keyword-only
                m = re.search(r"non-default argument '(\w+)'", str(e))
                if not m or m.group(1) not in {f["name"] for f in lv["fields"]}:
                    raise
                forced_kw.add(m.group(1))
        else:
            raise TypeError("could not build layout")
        for f in lv["fields"]:
            if f["name"] in forced_kw:
                f["kw_only"] = True
        globals()[cls.__name__] = cls
        base = cls
    return cls


def stdlib_view(cls):
    """the class as dataclasses sees it: fields in order with default status"""
    out = []
    for f in dataclasses.fields(cls):
        has_def = f.default is not dataclasses.MISSING or f.default_factory is not dataclasses.MISSING
        nullable = f.default is None or typing.get_origin(f.type) is typing.Union
        out.append({"name": f.name, "has_default": has_def, "factory": f.default_factory is not dataclasses.MISSING, "kw_only": bool(f.kw_only), "init": bool(f.init),
                    "default": (None if not has_def or f.default is dataclasses.MISSING else f.default), "nullable": nullable, "is_str": f.type == typing.Optional[str], "alias": f.metadata.get("alias")})
    return out


def expected(view, present):
    from mashumaro.exceptions import MissingField  # noqa

    res = {}
    for f in view:
        if f["init"] and f["name"] in present:
            res[f["name"]] = present[f["name"]]
        elif f["has_default"]:
            res[f["name"]] = [] if f["factory"] else f["default"]
        elif f["init"]:
            return ("missing", f["name"])
    return ("ok", res)


def run_layouts(ctx, layouts):
    from mashumaro.exceptions import MissingField

    lines, metas = [], []
    for levels in layouts:
        idx = ctx.evaluations
        try:
            buf = io.StringIO()
            with contextlib.redirect_stdout(buf):
                cls = build(levels, idx, debug=True)
            src = buf.getvalue()
        except Exception as e:
            if "non-default argument" in str(e) or "could not build layout" in str(e):
                ctx.bump("layout_rejected_by_dataclasses")   # not a mashumaro matter
                continue
            ctx.violation({"layout": levels}, {"build_error": f"{type(e).__name__}: {e}"[:300]}, "class builds", "class does not build", lambda f: False)
            continue
        view = stdlib_view(cls)
        init_names = [f["name"] for f in view if f["init"]]
        other = [f["name"] for f in view if not f["init"]] + [f"iv{i}" for i in range(3)] + [f"cv{i}" for i in range(3)]
        # the generated constructor call
        call = None
        for m in re.finditer(r"return (?:cls\.__post_deserialize__\()?cls\((.*?)\)\)?\s*$", src, re.M):
            call = m.group(1)
        for subset in itertools.chain.from_iterable(itertools.combinations(init_names, r) for r in range(len(init_names) + 1)):
            present = {}
            for n in subset:
                fv = next(f for f in view if f["name"] == n)
                if fv["nullable"] and ctx.rng.random() < 0.5:
                    present[n] = None          # an explicit null always overrides the default
                elif fv["is_str"]:
                    present[n] = "s%d" % len(present)
                else:
                    present[n] = [1, 2] if fv["factory"] else 100 + len(present)
            stray = {n: 555 for n in other if ctx.rng.random() < 0.3}
            # an aliased member is read under its alias (or, when allowed, under either name)
            allow = bool(levels[-1].get("allow_by_name"))
            keyed = {}
            for n, v in present.items():
                al = next(f for f in view if f["name"] == n)["alias"]
                keyed[al if al and (not allow or ctx.rng.random() < 0.5) else n] = v
            d = {**keyed, **stray}
            case = {"layout": levels, "keys": sorted(d)}
            nontriv = len(levels) > 1 or len({f["kind"] for lv in levels for f in lv["fields"]}) > 1
            ctx.count(case, nontriv, kind=f"levels:{len(levels)}")
            exp = expected(view, present)
            try:
                o1 = cls.from_dict(dict(d))
                o2 = cls.from_dict(dict(d))
                real = ("ok", {f["name"]: getattr(o1, f["name"]) for f in view})
                # factory results are fresh objects
                for f in view:
                    if f["factory"] and f["name"] not in present:
                        if getattr(o1, f["name"]) is getattr(o2, f["name"]):
                            ctx.violation(case, {"field": f["name"]}, "two results never share a factory-made object", "default_factory result shared between instances", lambda f: False)
            except MissingField as e:
                real = ("missing", e.field_name)
            except Exception as e:  # noqa
                real = ("other", f"{type(e).__name__}: {e}"[:200])
            if list(real) != list(exp):
                ctx.violation(case, {"impl": list(real), "expected": list(exp)}, "field == converted input if key present else default; members that are not constructor parameters never read", "wrong field value / default handling", lambda f: False)
        # model: assembly and binding for this layout with every defaulted field present.
        # What the builder sees of kw_only: the mixin is compiled in __init_subclass__, before
        # @dataclass has processed the class, so fields declared by the last level still carry
        # kw_only=MISSING unless it was given explicitly; inherited fields are processed ones.
        last_declared = {}
        for f in levels[-1]["fields"]:
            last_declared[f["name"]] = True if f["kw_only"] else None
        # fields the harness itself turned keyword-only while building
        real_kw = {f["name"]: f["kw_only"] for f in view}

        def lay(mode):
            out = []
            for f in view:
                if mode == "mixin" and f["name"] in last_declared:
                    seen = True if (last_declared[f["name"]] or (real_kw[f["name"]] and last_declared[f["name"]] is None and False)) else None
                    # a field re-created by the harness with kw_only=True (dataclass ordering rule) is explicit too
                    if real_kw[f["name"]]:
                        seen = True
                else:
                    seen = f["kw_only"]
                out.append({"name": f["name"], "has_default": f["has_default"], "kw_only": f["kw_only"], "init": f["init"], "kw_seen": seen})
            return out

        present_all = [f["name"] for f in view if f["init"] and f["has_default"]]
        lines.append({"op": "args", "layout": lay("mixin"), "present": present_all})
        metas.append((levels, "mixin", call))
        # codec path: the class is a finished dataclass when BasicDecoder compiles it
        try:
            from mashumaro.codecs.basic import BasicDecoder

            buf2 = io.StringIO()
            with contextlib.redirect_stdout(buf2):
                dec = BasicDecoder(cls)
            call2 = None
            for m in re.finditer(r"return (?:cls\.__post_deserialize__\()?cls\((.*?)\)\)?\s*$", buf2.getvalue(), re.M):
                call2 = m.group(1)
            full = {f["name"]: ([1] if f["factory"] else ("z" if f["is_str"] else 5)) for f in view if f["init"]}
            o = dec.decode({(next(f for f in view if f["name"] == k)["alias"] or k): v for k, v in full.items()})
            if any(getattr(o, k) != v for k, v in full.items()):
                ctx.violation({"layout": levels, "entry": "codec"}, {"decoded": repr(o)}, "codec decode binds every value to its own field", "wrong binding through the codec", lambda f: False)
            lines.append({"op": "args", "layout": lay("codec"), "present": present_all})
            metas.append((levels, "codec", call2))
        except Exception as e:  # noqa
            ctx.violation({"layout": levels, "entry": "codec"}, {"error": f"{type(e).__name__}: {e}"[:200]}, "codec builds and decodes", "codec failed on this layout", lambda f: False)
        for li in range(len(levels)):
            globals().pop(f"C07_{idx}_{li}", None)
    outs = ctx.model(lines)
    for (levels, entry, call), m in zip(metas, outs or []):
        case = {"layout": levels, "entry": entry}
        if m.get("bind") is None:
            ctx.disagreement(case, m, "constructor call accepted", "bind")
            continue
        if any(k != v for k, v in m["bind"]):
            ctx.disagreement(case, m, "identity binding", "bind")
        if call is not None:
            args = [a.strip() for a in call.split(",") if a.strip()]
            pos = [a[2:] for a in args if a.startswith("__")]
            kw = [a.split("=")[0] for a in args if "=" in a]
            if pos != m["pos"] or kw != m["kw"]:
                ctx.disagreement(case, {"pos": m["pos"], "kw": m["kw"]}, {"pos": pos, "kw": kw, "call": call}, "generated constructor call")
            ctx.bump(f"generated_calls_compared:{entry}")


def run(ctx):
    ctx.rule = RULE
    ctx.lean_check("Mashu.Props.C07", THEOREMS, extra_targets=["Mashu.Dispatch"])
    n = 1500 if ctx.tier == "quick" else 20000
    done = 0
    while done < n and ctx.time_left() > 30:
        k = min(250, n - done)
        run_layouts(ctx, [gen_layout(ctx.rng) for _ in range(k)])
        done += k
    from . import c07_mro

    corpus = [f["witness"]["graph"] for f in ctx.known if f.get("status") == "fixed" and "graph" in (f.get("witness") or {})]
    if corpus:
        ctx.bump("corpus(fixed findings)", len(corpus))
        c07_mro.run_graphs(ctx, corpus)
    ng = 400 if ctx.tier == "quick" else 6000
    done = 0
    while done < ng and ctx.time_left() > 20:
        k = min(200, ng - done)
        c07_mro.run_graphs(ctx, [c07_mro.gen_graph(ctx.rng) for _ in range(k)])
        done += k
    ctx.assumptions += [
        "the dataclass __init__ (parameter binding, default application, a fresh factory call per instance) is the stdlib's; the expectation is computed from dataclasses.fields of the very class",
    ]


def replay(ctx, body):
    if "graph" in body["case"]:
        from . import c07_mro

        c07_mro.run_graphs(ctx, [body["case"]["graph"]])
        return ctx.finish()
    run_layouts(ctx, [body["case"]["layout"]])
    return ctx.finish()
