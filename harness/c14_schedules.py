"""C14, threads: deterministic schedules (support for the PARTIAL part of the property).

A thread making the FIRST call is parked in the middle of the compilation it triggers (the k-th read
of a field's metadata mapping by the code builder, k = 1..K), a second thread then makes its own
first call to completion, then the first thread resumes.  Every result must be the one a single
thread gets.  This explores, reproducibly, the interleavings "T2 runs entirely inside T1's
compilation at point k" for several class shapes; it is a search, not a proof.
"""
from __future__ import annotations

import sys
import threading
import types

_HEAD = '''
from dataclasses import dataclass, field
from typing import Annotated, List, Optional
from mashumaro import DataClassDictMixin
from mashumaro.config import BaseConfig
from mashumaro.types import Discriminator

class LazyCfg(BaseConfig):
    lazy_compilation = True
'''

SCENARIOS = {
    # an Annotated discriminator over plain classes: the variant is compiled inside the first decode
    "annotated-discriminator": (_HEAD + '''
@dataclass
class Base:
    kind: str = "base"

@dataclass
class Variant(Base):
    kind: str = "variant"
    extra: int = field(default=0, metadata=Meta())

@dataclass
class UsesBase(DataClassDictMixin):
    b: Base

@dataclass
class Holder(DataClassDictMixin):
    x: Annotated[Base, Discriminator(field="kind", include_subtypes=True)]
''', "Holder", {"x": {"kind": "variant", "extra": 7}}),
    # a class-level discriminator whose variant compiles lazily
    "config-discriminator-lazy-variant": (_HEAD + '''
@dataclass
class Root(DataClassDictMixin):
    class Config(BaseConfig):
        discriminator = Discriminator(field="kind", include_subtypes=True)

@dataclass
class Mid(Root):
    kind: str = "mid"
    a: int = 0

@dataclass
class Leaf(Mid):
    kind: str = "leaf"
    extra: int = field(default=0, metadata=Meta())
    Config = LazyCfg

Holder = Root
''', "Holder", {"kind": "leaf", "a": 3, "extra": 7}),
    # a lazily compiled class with a lazily compiled nested class
    "lazy-nested": (_HEAD + '''
@dataclass
class Inner(DataClassDictMixin):
    v: int = field(default=0, metadata=Meta())
    Config = LazyCfg

@dataclass
class Holder(DataClassDictMixin):
    i: Inner
    xs: List[Inner] = field(default_factory=list, metadata=Meta())
    Config = LazyCfg
''', "Holder", {"i": {"v": 7}, "xs": [{"v": 1}, {"v": 2}]}),
    # a class postponed by a forward reference (resolved before the first call)
    "postponed": (_HEAD + '''
@dataclass
class Holder(DataClassDictMixin):
    later: Optional["Later"] = field(default=None, metadata=Meta())
    n: int = 0

@dataclass
class Later(DataClassDictMixin):
    v: int = field(default=0, metadata=Meta())
''', "Holder", {"later": {"v": 7}, "n": 1}),
}


def run_schedules(ctx, max_k):
    state = {"armed": False, "k": 0, "count": 0}
    reached, release = threading.Event(), threading.Event()

    class Meta(dict):
        def get(self, key, default=None):
            if state["armed"] and threading.current_thread().name == "T1":
                state["count"] += 1
                if state["count"] == state["k"]:
                    reached.set()
                    release.wait(10)
            return super().get(key, default)

    made = []

    def family(src, tag):
        m = types.ModuleType(f"c14sched_{tag}_{len(made)}")
        sys.modules[m.__name__] = m
        made.append(m.__name__)
        m.Meta = Meta
        exec(compile(src, m.__name__, "exec"), m.__dict__)  # noqa: S102 - fixed text
        return m

    def call(holder, data, out, key):
        try:
            o = holder.from_dict(data)
            out[key] = [repr(o), repr(o.to_dict())]
        except BaseException as e:  # noqa
            out[key] = f"raised {type(e).__name__}: {str(e)[:120]}"

    try:
        for name, (src, hname, data) in SCENARIOS.items():
            ref = {}
            m = family(src, name[:4])
            call(getattr(m, hname), data, ref, "first")
            call(getattr(m, hname), data, ref, "second")
            modname = m.__name__
            norm = lambda s, mn=modname: s if not isinstance(s, list) else [x.replace(mn, "M") for x in s]  # noqa: E731
            expected = norm(ref["first"])
            if norm(ref["second"]) != expected:
                ctx.violation({"schedule": name, "k": 0}, {"first": ref["first"], "second": ref["second"]}, "the second call gives what the first gave", "single-threaded repeat differs", lambda f: False)
                continue
            for k in range(1, max_k + 1):
                m = family(src, name[:4])
                H = getattr(m, hname)
                out = {}
                reached.clear()
                release.clear()
                state.update(armed=True, k=k, count=0)
                t1 = threading.Thread(target=call, args=(H, data, out, "T1"), name="T1")
                t1.start()
                parked = reached.wait(3)
                t2 = threading.Thread(target=call, args=(H, data, out, "T2"), name="T2")
                t2.start()
                t2.join(10)
                release.set()
                t1.join(10)
                state["armed"] = False
                case = {"schedule": name, "k": k}
                ctx.count(case, parked, kind=f"thread-schedule:{name}")
                if not parked:
                    ctx.bump("schedule point not reached (fewer metadata reads)")
                mn = m.__name__
                got = {key: ([x.replace(mn, "M") for x in v] if isinstance(v, list) else v) for key, v in out.items()}
                if got.get("T1") != expected or got.get("T2") != expected:
                    ctx.violation(case, {"threads": got}, {"single_thread": expected}, "a first call made while another thread is inside the compilation gives another result", lambda f: False)
    finally:
        for mn in made:
            sys.modules.pop(mn, None)
