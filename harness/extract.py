"""Tie 1: finite tables translated from /repo's current source into lean/Mashu/Generated.lean.

Only literal tables, no logic.  The file is rewritten only when its content changes, so an
unchanged source keeps `lake build` a no-op."""
from __future__ import annotations

import ast
import inspect
from pathlib import Path

from . import core


def lean_str(s: str) -> str:
    out = ['"']
    for ch in s:
        o = ord(ch)
        if ch == '"':
            out.append('\\"')
        elif ch == "\\":
            out.append("\\\\")
        elif ch == "\n":
            out.append("\\n")
        elif ch == "\t":
            out.append("\\t")
        elif o < 32 or o == 127:
            out.append("\\x%02x" % o)
        else:
            out.append(ch)
    out.append('"')
    return "".join(out)


def lean_list(items, f=lean_str) -> str:
    return "[" + ", ".join(f(i) for i in items) + "]"


def _subst_annotated_recursive() -> bool:
    """in helpers.substitute_type_params, the `if is_annotated(typ):` branch calls substitute_type_params again"""
    import ast

    tree = ast.parse((core.REPO / "mashumaro/core/meta/helpers.py").read_text())
    for fn in ast.walk(tree):
        if isinstance(fn, ast.FunctionDef) and fn.name == "substitute_type_params":
            for st in fn.body:
                if isinstance(st, ast.If) and "is_annotated" in ast.unparse(st.test):
                    return any(isinstance(c, ast.Call) and isinstance(c.func, ast.Name) and c.func.id == "substitute_type_params" for b in st.body for c in ast.walk(b))
    return False


def _src(path: str) -> str:
    return (core.REPO / path).read_text()


def _find_for_tuple(tree: ast.AST, func_name: str, iter_var: str) -> list | None:
    """elements of the tuple literal iterated by `for <iter_var> in (...)` inside func_name"""
    for node in ast.walk(tree):
        if isinstance(node, ast.FunctionDef) and node.name == func_name:
            for sub in ast.walk(node):
                if isinstance(sub, ast.For) and isinstance(sub.target, ast.Name) and sub.target.id == iter_var and isinstance(sub.iter, ast.Tuple):
                    return sub.iter.elts
    return None


def tables() -> dict:
    """All extracted tables as Python data (also used by the harness for cross-checks)."""
    t: dict = {}
    # --- Dialect.merge keys and Dialect options -------------------------------------
    dtree = ast.parse(_src("mashumaro/dialect.py"))
    elts = _find_for_tuple(dtree, "merge", "key")
    t["mergeKeys"] = [e.value for e in elts] if elts else []
    opts = []
    for node in ast.walk(dtree):
        if isinstance(node, ast.ClassDef) and node.name == "Dialect":
            for st in node.body:
                if isinstance(st, ast.AnnAssign) and isinstance(st.target, ast.Name):
                    opts.append(st.target.id)
    t["dialectOptions"] = [o for o in opts if o != "serialization_strategy"]
    # --- option lookup order --------------------------------------------------------
    btree = ast.parse(_src("mashumaro/core/meta/code/builder.py"))
    elts = _find_for_tuple(btree, "get_dialect_or_config_option", "ns")
    order = []
    for e in elts or []:
        s = ast.unparse(e)
        order.append(
            {"self.dialect": "callDialect", "self.get_config(cls).dialect": "configDialect", "self.get_config(cls)": "config", "self.default_dialect": "defaultDialect"}.get(s, "unknown:" + s)
        )
    t["optionLookupOrder"] = order
    # --- strategy source order ------------------------------------------------------
    srcs = []
    rest = []
    unparse_map = {
        "self.dialect.serialization_strategy.get(ftype)": "callDialect",
        "default_dialect.serialization_strategy.get(ftype)": "configDialect",
        "self.get_config().serialization_strategy.get(ftype)": "config",
        "self.default_dialect.serialization_strategy.get(ftype)": "defaultDialect",
    }
    for node in ast.walk(btree):
        if isinstance(node, ast.FunctionDef) and node.name == "iter_serialization_strategies":
            for sub in ast.walk(node):
                if isinstance(sub, ast.Yield):
                    srcs.append((sub.lineno, sub.col_offset, "fieldStrategy"))
                elif isinstance(sub, ast.YieldFrom):
                    srcs.append((sub.lineno, sub.col_offset, "<rest>"))
        if isinstance(node, ast.FunctionDef) and node.name.endswith("__iter_serialization_strategies"):
            for sub in ast.walk(node):
                if isinstance(sub, ast.Yield):
                    s = ast.unparse(sub.value)
                    rest.append((sub.lineno, sub.col_offset, unparse_map.get(s, "unknown:" + s)))
    out = []
    for _l, _c, s in sorted(srcs):
        if s == "<rest>":
            out.extend(x for _l2, _c2, x in sorted(rest))
        else:
            out.append(s)
    t["strategySourceOrder"] = out
    # --- type key order (pack.py / unpack.py) ---------------------------------------
    for fname, fn, key in (("mashumaro/core/meta/types/pack.py", "get_overridden_serialization_method", "typeKeyOrderPack"), ("mashumaro/core/meta/types/unpack.py", "get_overridden_deserialization_method", "typeKeyOrderUnpack")):
        tree = ast.parse(_src(fname))
        keys = []
        for node in ast.walk(tree):
            if isinstance(node, ast.FunctionDef) and node.name == fn:
                for st in ast.walk(node):
                    if isinstance(st, ast.Assign) and ast.unparse(st.targets[0]) == "checking_types" and isinstance(st.value, ast.List):
                        keys = [ast.unparse(e).replace("spec.", "") for e in st.value.elts]
                    if isinstance(st, ast.Call) and ast.unparse(st.func) == "checking_types.insert":
                        pos = ast.literal_eval(st.args[0])
                        keys.insert(pos, ast.unparse(st.args[1]).replace("spec.", ""))
        t[key] = keys
    # --- regex texts -----------------------------------------------------------------
    import mashumaro.core.helpers as H
    import mashumaro.jsonschema.schema as JS

    t["utcPatternCore"] = H.UTC_OFFSET_PATTERN
    t["utcPatternSchema"] = JS.UTC_OFFSET_PATTERN
    # --- registries -------------------------------------------------------------------
    from mashumaro.core.meta.types.pack import PackerRegistry
    from mashumaro.core.meta.types.unpack import UnpackerRegistry

    t["packerOrder"] = [f.__name__ for f in PackerRegistry._registry]
    t["unpackerOrder"] = [f.__name__ for f in UnpackerRegistry._registry]
    t["schemaCreatorOrder"] = [f.__name__ for f in JS.Registry._registry]
    # --- exception hierarchy ------------------------------------------------------------
    import mashumaro.exceptions as X

    bases = []
    for n in ("MissingField", "InvalidFieldValue", "ExtraKeysError", "MissingDiscriminatorError", "SuitableVariantNotFoundError"):
        c = getattr(X, n)
        bases.append((n, [b.__name__ for b in c.__mro__[1:] if b.__module__ == "builtins" and b.__name__ not in ("object", "BaseException")]))
    t["excBases"] = bases
    # --- simple types ------------------------------------------------------------------
    import mashumaro.core.meta.code.builder as B

    t["simpleTypes"] = [getattr(x, "__name__", repr(x)) for x in B.SIMPLE_TYPES]
    # --- format dialects ----------------------------------------------------------------
    fds = []
    for modname, cname in (("mashumaro.mixins.orjson", "OrjsonDialect"), ("mashumaro.mixins.msgpack", "MessagePackDialect"), ("mashumaro.mixins.toml", "TOMLDialect")):
        try:
            m = __import__(modname, fromlist=[cname])
            d = getattr(m, cname)
        except Exception:
            continue
        from mashumaro.core.const import Sentinel
        from mashumaro.helper import pass_through

        strat = []
        for k, v in d.serialization_strategy.items():
            if v is pass_through:
                strat.append((k.__name__, "pass", "pass"))
            elif isinstance(v, dict):
                s = v.get("serialize")
                de = v.get("deserialize")
                strat.append((k.__name__, "pass" if s is pass_through else ("none" if s is None else "fn"), "pass" if de is pass_through else ("none" if de is None else "fn")))
        fds.append(
            {
                "name": cname,
                "noCopy": [c.__name__ for c in (d.no_copy_collections if d.no_copy_collections is not Sentinel.MISSING else ())],
                "omitNone": (d.omit_none is True),
                "strategy": strat,
            }
        )
    t["formatDialects"] = fds
    from . import splice

    t["spliceSites"] = splice.sites()
    # --- dialect cache creation guard (C13) ----------------------------------------------
    # `with self.indent(f"if not '{cache_name}' in cls.__dict__:")` in add_pack_method / add_unpack_method:
    # the guard must look at the class's OWN namespace
    guards = []
    for node in ast.walk(btree):
        if isinstance(node, ast.FunctionDef) and node.name in ("add_pack_method", "add_unpack_method"):
            for sub in ast.walk(node):
                if isinstance(sub, ast.JoinedStr):
                    text = "".join(v.value if isinstance(v, ast.Constant) else "{}" for v in sub.values)
                    if "cls." in text and text.lstrip().startswith("if") and text.rstrip().endswith(":"):
                        guards.append((node.name, text))
    # --- lazy compilation (C14): stub condition, baked arguments, forwarded flags ------------
    import re as _re

    def _fn(name):
        for node in ast.walk(btree):
            if isinstance(node, ast.FunctionDef) and node.name == name:
                return node
        return None

    def _stub_conds(name):
        fn = _fn(name)
        for st in (fn.body if fn else []):
            if isinstance(st, ast.If) and isinstance(st.test, ast.BoolOp) and isinstance(st.test.op, ast.And):
                calls = [ast.unparse(x) for x in ast.walk(st) if isinstance(x, ast.Call)]
                if any("_lines_lazy" in c for c in calls):
                    return [ast.unparse(v) for v in st.test.values]
        return []

    def _stub_kwargs(name):
        fn = _fn(name)
        text = ""
        fwd = False
        for sub in ast.walk(fn) if fn else []:
            if isinstance(sub, ast.Call) and ast.unparse(sub.func) == "self.add_line":
                a = sub.args[0]
                if isinstance(a, ast.JoinedStr):
                    tx = "".join(v.value if isinstance(v, ast.Constant) else "{}" for v in a.values)
                elif isinstance(a, ast.Constant):
                    tx = str(a.value)
                else:
                    tx = ""
                if tx.startswith("CodeBuilder("):
                    text = tx
            if isinstance(sub, ast.Call) and ast.unparse(sub.func) in ("self.get_unpack_method_flags", "self.get_pack_method_flags"):
                for kw in sub.keywords:
                    if kw.arg in ("pass_decoder", "pass_encoder") and isinstance(kw.value, ast.Constant) and kw.value.value is True:
                        fwd = True
        return _re.findall(r"(\w+)=", text), fwd, ("allow_postponed_evaluation=False" in text)

    def _reraise_disj(name):
        fn = _fn(name)
        for sub in ast.walk(fn) if fn else []:
            if isinstance(sub, ast.ExceptHandler) and sub.type is not None and ast.unparse(sub.type) == "UnresolvedTypeReferenceError":
                for st in sub.body:
                    if isinstance(st, ast.If) and any(isinstance(x, ast.Raise) for x in st.body):
                        if isinstance(st.test, ast.BoolOp) and isinstance(st.test.op, ast.Or):
                            return [ast.unparse(v) for v in st.test.values]
                        return [ast.unparse(st.test)]
        return []

    t["lazyReraiseUnpack"] = _reraise_disj("_add_unpack_method_lines")
    t["lazyReraisePack"] = _reraise_disj("_add_pack_method_lines")
    t["lazyStubCondsUnpack"] = _stub_conds("_add_unpack_method_lines")
    t["lazyStubCondsPack"] = _stub_conds("_add_pack_method_lines")
    t["lazyKwargsUnpack"], fu, du = _stub_kwargs("_add_unpack_method_lines_lazy")
    t["lazyKwargsPack"], fp, dp = _stub_kwargs("_add_pack_method_lines_lazy")
    t["lazyForwardCoder"] = bool(fu and fp)
    t["lazyStubAllowPostponed"] = not (du and dp)
    t["cacheGuards"] = guards
    # walk direction of CodeBuilder.dataclass_fields: evaluate the iterable of its ancestor loop
    # on a sample MRO [0 (the class itself), 1 (nearest), 2, 3 (farthest)]
    walk = None
    for node in ast.walk(ast.parse(_src("mashumaro/core/meta/code/builder.py"))):
        if isinstance(node, ast.FunctionDef) and node.name == "dataclass_fields":
            for sub in ast.walk(node):
                if isinstance(sub, ast.For) and "__mro__" in ast.unparse(sub.iter):
                    expr = ast.unparse(sub.iter).replace("self.cls.__mro__", "S").replace("cls.__mro__", "S")
                    try:
                        walk = [int(x) for x in eval(expr, {"S": (0, 1, 2, 3), "reversed": reversed, "list": list, "tuple": tuple})]  # noqa: S307 - expression from /repo's own source, names restricted
                    except Exception:  # noqa
                        walk = None
                    break
    # SubtypeUnpackerBuilder._get_variants_attr: is the registry attribute name built from the format name?
    per_format = False
    for node in ast.walk(ast.parse(_src("mashumaro/core/meta/types/unpack.py"))):
        if isinstance(node, ast.ClassDef) and node.name == "SubtypeUnpackerBuilder":
            for sub in ast.walk(node):
                if isinstance(sub, ast.Assign) and any(isinstance(x, ast.Attribute) and x.attr == "_variants_attr" for x in sub.targets):
                    per_format = "format_name" in ast.unparse(sub.value)
    t["subtypeRegistryPerFormat"] = per_format
    # order of the two writes of the rescan loop (DiscriminatedUnionUnpackerBuilder._add_body)
    after_build = False
    for node in ast.walk(ast.parse(_src("mashumaro/core/meta/types/unpack.py"))):
        if isinstance(node, ast.FunctionDef) and node.name == "_add_body" and "_add_build_variant_unpacker" in ast.unparse(node):
            calls = [(sub.lineno, sub.func.attr) for sub in ast.walk(node) if isinstance(sub, ast.Call) and isinstance(sub.func, ast.Attribute)
                     and sub.func.attr in ("_add_register_variant_tags", "_add_build_variant_unpacker")]
            regs = [ln for ln, a in calls if a == "_add_register_variant_tags"]
            builds = [ln for ln, a in calls if a == "_add_build_variant_unpacker"]
            if regs and builds:
                after_build = min(builds) < min(regs)
            break
    t["variantRegisteredAfterBuild"] = after_build
    # parse_timezone: does the pattern have to match the WHOLE string (fullmatch) or may `$` stop before a trailing newline?
    t["substAnnotatedRecursive"] = _subst_annotated_recursive()
    # helpers.resolve_type_params: are the arguments of C[...] matched with the class's own parameter list?
    t["typeParamsFollowOwnList"] = False
    for node in ast.walk(ast.parse(_src("mashumaro/core/meta/helpers.py"))):
        if isinstance(node, ast.FunctionDef) and node.name == "resolve_type_params":
            t["typeParamsFollowOwnList"] = "__parameters__" in ast.unparse(node)
    # unpack.py, dispatcher of a discriminated union: is only the LOOKUP of the variant's unpacker inside the
    # `try … except (KeyError, AttributeError)` (the call being made after it), or lookup and call together?
    usrc = _src("mashumaro/core/meta/types/unpack.py")
    t["dispatchGuardsLookupOnly"] = False
    k = usrc.find('lines.indent("except (KeyError, AttributeError):")')
    if k > 0:
        j = usrc.rfind('with lines.indent("try:"):', 0, k)
        seg = usrc[j:k]
        t["dispatchGuardsLookupOnly"] = "variant_unpacker = " in seg and "return " not in seg and 'return variant_unpacker' in usrc[k:]
    # builder._add_pack_method_lines: the on-demand per-format method hands an instance of another class over
    # to a method compiled for that class (`if self.__class__ is not _method_owner:` + lazy compilation)
    bsrc = _src("mashumaro/core/meta/code/builder.py")
    t["packOwnerGuard"] = False
    t["packOwnerGuardPlain"] = False
    for node in ast.walk(ast.parse(bsrc)):
        if isinstance(node, ast.FunctionDef) and node.name == "_add_pack_method_lines":
            for w in ast.walk(node):
                if isinstance(w, ast.With) and "self.__class__ is not _method_owner" in ast.unparse(w.items[0].context_expr):
                    t["packOwnerGuard"] = any("_add_pack_method_lines_lazy" in ast.unparse(b) for b in w.body)
            # ... and is the guard emitted for the dict format of a class that is not a mixin subclass (a plain
            # dataclass, whose to_dict method is compiled on demand as well)?
            for w in ast.walk(node):
                if isinstance(w, ast.If) and any(isinstance(x, ast.With) and "_method_owner" in ast.unparse(x.items[0].context_expr) for x in w.body):
                    t["packOwnerGuardPlain"] = t["packOwnerGuard"] and "is_dataclass_dict_mixin_subclass" in ast.unparse(w.test)
    t["tzParseFullMatch"] = False
    for node in ast.walk(ast.parse(_src("mashumaro/core/helpers.py"))):
        if isinstance(node, ast.FunctionDef) and node.name == "parse_timezone":
            src = ast.unparse(node)
            t["tzParseFullMatch"] = ".fullmatch(" in src or "\\Z" in _src("mashumaro/core/helpers.py")
    t["mroWalkSample"] = walk if walk is not None else []
    t["mroFarthestFirst"] = bool(walk) and walk == sorted(walk, reverse=True)
    t["cacheGuardOwnDict"] = len(guards) == 2 and all(g[1] == "if not '{}' in cls.__dict__:" for g in guards)
    return t


def render(t: dict) -> str:
    L = []
    L.append("/- GENERATED by harness/extract.py from /repo's working tree — do not edit. -/")
    L.append("namespace Mashu.Generated")
    L.append("")
    for k in ("mergeKeys", "dialectOptions", "optionLookupOrder", "strategySourceOrder", "typeKeyOrderPack", "typeKeyOrderUnpack", "packerOrder", "unpackerOrder", "schemaCreatorOrder", "simpleTypes"):
        L.append(f"def {k} : List String := {lean_list(t[k])}")
    L.append(f"def utcPatternCore : String := {lean_str(t['utcPatternCore'])}")
    L.append(f"def utcPatternSchema : String := {lean_str(t['utcPatternSchema'])}")
    L.append("def excBases : List (String × List String) := " + lean_list(t["excBases"], lambda p: f"({lean_str(p[0])}, {lean_list(p[1])})"))
    L.append("")
    L.append("structure FormatDialect where")
    L.append("  name : String")
    L.append("  noCopy : List String")
    L.append("  omitNone : Bool")
    L.append("  strategy : List (String × String × String)   -- (type, serialize, deserialize): pass | fn | none")
    L.append("")
    L.append(
        "def formatDialects : List FormatDialect := "
        + lean_list(
            t["formatDialects"],
            lambda d: "{ name := %s, noCopy := %s, omitNone := %s, strategy := %s }"
            % (lean_str(d["name"]), lean_list(d["noCopy"]), "true" if d["omitNone"] else "false", lean_list(d["strategy"], lambda s: f"({lean_str(s[0])}, {lean_str(s[1])}, {lean_str(s[2])})")),
        )
    )
    L.append("")
    L.append("/-- A place where a schema-supplied string is spliced into generated source text. -/")
    L.append("structure SpliceSite where")
    L.append("  file : String")
    L.append("  line : Nat")
    L.append("  var : String          -- the spliced expression")
    L.append("  conv : String         -- \"repr\" (via !r / repr()) or \"raw\"")
    L.append("  quoted : Bool         -- raw text placed between quote characters")
    L.append("")
    L.append(
        "def spliceSites : List SpliceSite := "
        + lean_list(t["spliceSites"], lambda s: "{ file := %s, line := %d, var := %s, conv := %s, quoted := %s }" % (lean_str(s["file"]), s["line"], lean_str(s["var"]), lean_str(s["conv"]), "true" if s["quoted"] else "false"))
    )
    L.append("")
    for k in ("lazyStubCondsUnpack", "lazyStubCondsPack", "lazyReraiseUnpack", "lazyReraisePack", "lazyKwargsUnpack", "lazyKwargsPack"):
        L.append(f"def {k} : List String := {lean_list(t[k])}")
    L.append("def lazyForwardCoder : Bool := " + ("true" if t["lazyForwardCoder"] else "false"))
    L.append("def lazyStubAllowPostponed : Bool := " + ("true" if t["lazyStubAllowPostponed"] else "false"))
    L.append("/-- the dialect caches are created under `if not '<cache>' in cls.__dict__:` (own namespace only) -/")
    L.append("def cacheGuardOwnDict : Bool := " + ("true" if t["cacheGuardOwnDict"] else "false"))
    L.append("def cacheGuards : List (String × String) := " + lean_list(t["cacheGuards"], lambda g: f"({lean_str(g[0])}, {lean_str(g[1])})"))
    L.append("/-- `dataclass_fields` walks `cls.__mro__` from the farthest ancestor to the nearest, skipping the class itself -/")
    L.append("def mroFarthestFirst : Bool := " + ("true" if t["mroFarthestFirst"] else "false"))
    L.append("def mroWalkSample : List Nat := [" + ", ".join(str(x) for x in t["mroWalkSample"]) + "]")
    L.append("/-- `SubtypeUnpackerBuilder._get_variants_attr` builds the registry attribute name from the format name -/")
    L.append("def subtypeRegistryPerFormat : Bool := " + ("true" if t["subtypeRegistryPerFormat"] else "false"))
    L.append("/-- in the rescan loop of a discriminated union the variant's unpacker is built BEFORE its tag is registered -/")
    L.append("def variantRegisteredAfterBuild : Bool := " + ("true" if t["variantRegisteredAfterBuild"] else "false"))
    L.append("def tzParseFullMatch : Bool := " + ("true" if t["tzParseFullMatch"] else "false"))
    L.append("/-- helpers.substitute_type_params: does the Annotated branch substitute inside the wrapped type (recursive call)? -/")
    L.append("def substAnnotatedRecursive : Bool := " + ("true" if t["substAnnotatedRecursive"] else "false"))
    L.append("/-- builder._add_pack_method_lines: an instance of another class is packed by a method compiled for its own class -/")
    L.append("def dispatchGuardsLookupOnly : Bool := " + ("true" if t["dispatchGuardsLookupOnly"] else "false"))
    L.append("def typeParamsFollowOwnList : Bool := " + ("true" if t["typeParamsFollowOwnList"] else "false"))
    L.append("def packOwnerGuard : Bool := " + ("true" if t["packOwnerGuard"] else "false"))
    L.append("def packOwnerGuardPlain : Bool := " + ("true" if t["packOwnerGuardPlain"] else "false"))
    L.append("")
    L.append("end Mashu.Generated")
    return "\n".join(L) + "\n"


def write_generated(ctx=None) -> dict:
    t = tables()
    text = render(t)
    p = core.LEAN_DIR / "Mashu" / "Generated.lean"
    if not p.exists() or p.read_text() != text:
        p.write_text(text)
    if ctx is not None:
        ctx.extra["generated_tables"] = {k: (v if k != "spliceSites" else len(v)) for k, v in t.items()}
        ctx.tables = t
    return t
