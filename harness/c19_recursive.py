"""C19 templates: recursive union aliases (PEP 695 `type Tree = Leaf | list[Tree] | dict[str, Tree]`).

The statement on the implementation: every Leaf instance inside a nested value gets its
__pre_serialize__ / __post_serialize__ exactly once each, in order, and the context argument
reaches every one of them unchanged — at every depth of the recursion, through the mixin methods
of every format and through Encoder objects.  Values are drawn with depth <= 4.
"""
from __future__ import annotations

import sys
import types

_SRC = '''
from dataclasses import dataclass, field
from typing import Any, Optional
from mashumaro.config import BaseConfig, ADD_SERIALIZATION_CONTEXT
LOG = []

@dataclass
class Leaf(MIXIN):
    n: int = 0
    class Config(BaseConfig):
        code_generation_options = [ADD_SERIALIZATION_CONTEXT]
    def __pre_serialize__(self, context=None):
        LOG.append(("pre", self.n, context))
        return self
    def __post_serialize__(self, d, context=None):
        LOG.append(("post", self.n, context))
        return d

type Tree = Leaf | list[Tree] | dict[str, Tree]

@dataclass
class Holder(MIXIN):
    t: Tree
    u: Optional[Tree] = None
    class Config(BaseConfig):
        code_generation_options = [ADD_SERIALIZATION_CONTEXT]
'''


def _world(mixin, idx):
    m = types.ModuleType(f"c19rec_{idx}")
    sys.modules[m.__name__] = m
    m.MIXIN = mixin
    exec(compile(_SRC, m.__name__, "exec"), m.__dict__)  # noqa: S102 - fixed text
    return m


def _draw(rng, mod, depth, counter):
    r = rng.random()
    if depth <= 0 or r < 0.35:
        counter[0] += 1
        return mod.Leaf(counter[0])
    if r < 0.7:
        return [_draw(rng, mod, depth - 1, counter) for _ in range(rng.randint(0, 3))]
    return {f"k{i}": _draw(rng, mod, depth - 1, counter) for i in range(rng.randint(0, 3))}


def _leaves(v, out):
    if isinstance(v, list):
        for x in v:
            _leaves(x, out)
    elif isinstance(v, dict):
        for x in v.values():
            _leaves(x, out)
    elif v is not None:
        out.append(v.n)
    return out


def run_recursive(ctx, n):
    from mashumaro import DataClassDictMixin

    mixins = [("dict", DataClassDictMixin, "to_dict")]
    try:
        from mashumaro.mixins.orjson import DataClassORJSONMixin

        mixins.append(("orjson", DataClassORJSONMixin, "to_jsonb"))
    except Exception:  # noqa
        pass
    try:
        from mashumaro.mixins.msgpack import DataClassMessagePackMixin

        mixins.append(("msgpack", DataClassMessagePackMixin, "to_msgpack"))
    except Exception:  # noqa
        pass
    rng = ctx.rng
    made = []
    try:
        for i in range(n):
            name, mixin, meth = mixins[i % len(mixins)]
            try:
                mod = _world(mixin, f"{ctx.seed}_{i}")
            except Exception as e:  # noqa
                ctx.violation({"recursive_alias": name}, {"error": f"{type(e).__name__}: {e}"[:200]}, "classes over a recursive union alias build", "build failed", lambda f: False)
                continue
            made.append(mod.__name__)
            counter = [0]
            t = _draw(rng, mod, rng.randint(0, 4), counter)
            u = _draw(rng, mod, rng.randint(0, 3), counter) if rng.random() < 0.5 else None
            h = mod.Holder(t, u)
            context = {"marker": i}
            case = {"recursive_alias": name, "method": meth, "shape": repr(t)[:300], "u": repr(u)[:200]}
            ctx.count(case, counter[0] > 1, kind=f"recursive-alias:{name}")
            want = []
            for k in _leaves(t, []) + (_leaves(u, []) if u is not None else []):
                want += [("pre", k), ("post", k)]
            for entry in (meth, "to_dict"):
                del mod.LOG[:]
                try:
                    getattr(h, entry)(context=context)
                except Exception as e:  # noqa
                    ctx.violation({**case, "entry": entry}, {"error": f"{type(e).__name__}: {e}"[:200]}, "serialization succeeds", "serialization through a recursive union failed", lambda f: False)
                    continue
                got = [(a, b) for a, b, _c in mod.LOG]
                if got != want:
                    ctx.violation({**case, "entry": entry}, {"trace": got[:40]}, {"expected": want[:40]}, "hooks of the leaves of a recursive union: not once each / wrong order", lambda f: False)
                elif any(c is not context for _a, _b, c in mod.LOG):
                    bad = [(a, b) for a, b, c in mod.LOG if c is not context]
                    ctx.violation({**case, "entry": entry}, {"hooks_without_context": bad[:20]}, "the context argument reaches every nested opted-in instance unchanged", "context lost inside a recursive union", lambda f: False)
    finally:
        for mname in made:
            sys.modules.pop(mname, None)
