"""Shared infrastructure of the mashumaro verification harness.

Everything here is plumbing: locating /repo's working tree, building and auditing the
Lean development, talking to the executable model (Driver.lean) through a line protocol,
recording coverage, deciding the verdict and writing evidence / replay files.
"""
from __future__ import annotations

import hashlib
import json
import os
import random
import re
import subprocess
import sys
import time
from pathlib import Path

VERIF = Path(__file__).resolve().parent.parent
REPO = Path(os.environ.get("MASHU_REPO", "/repo")).resolve()
LEAN_DIR = VERIF / "lean"
EVIDENCE_DIR = VERIF / "evidence"
REPLAY_DIR = EVIDENCE_DIR / "replay"
KNOWN_FINDINGS = VERIF / "known_findings.json"
ALLOWED_AXIOMS = {"propext", "Classical.choice", "Quot.sound"}
VENV_PY = "/venv/bin/python"

TRUSTED_BASE = [
    "Lean 4.33.0 kernel (type checking of every theorem; leanchecker re-check in the thorough tier)",
    "axioms allowed in property theorems: propext, Classical.choice, Quot.sound (audited by #print axioms on every run); no sorry/admit/native_decide/bv_decide/own axioms (grep audit on every run)",
    "harness/extract.py: translator of finite tables from /repo's source into lean/Mashu/Generated.lean",
    "harness/*.py correspondence check: runs the executable Lean model (Driver.lean) and the implementation on the same cases and diffs canonical results",
    "Python builtins / stdlib leaf printers and parsers, dataclasses.__init__, CPython exec and attribute lookup are modelled as oracle parameters, not verified",
]


class Infra(Exception):
    """Infrastructure failure (exit status 2, never a verdict)."""


def import_repo():
    """Put /repo's working tree first on sys.path and make sure it is what gets imported."""
    root = str(REPO)
    if sys.path[0] != root:
        sys.path.insert(0, root)
    pydeps = VERIF / ".pydeps"
    if pydeps.is_dir() and str(pydeps) not in sys.path:
        sys.path.append(str(pydeps))
    import mashumaro  # noqa

    f = Path(mashumaro.__file__).resolve()
    if not str(f).startswith(root + os.sep):
        raise Infra(f"mashumaro imported from {f}, expected under {root}")
    return mashumaro


def repo_head() -> str:
    try:
        return subprocess.run(
            ["git", "-C", str(REPO), "rev-parse", "HEAD"], capture_output=True, text=True
        ).stdout.strip()
    except Exception:
        return "unknown"


# ----------------------------------------------------------------------------------------
# Lean side
# ----------------------------------------------------------------------------------------

_FORBIDDEN = re.compile(
    r"\bsorry\b|\badmit\b|^\s*axiom\s|native_decide|bv_decide|implemented_by|\bunsafe\s|maxHeartbeats\s+0\b"
)


def _strip_comments(src: str) -> str:
    # remove /- ... -/ (nested) and -- comments
    out = []
    i = 0
    depth = 0
    n = len(src)
    in_str = False
    while i < n:
        if depth == 0 and not in_str and src.startswith("--", i):
            j = src.find("\n", i)
            if j < 0:
                break
            i = j
            continue
        if not in_str and src.startswith("/-", i):
            depth += 1
            i += 2
            continue
        if depth > 0 and src.startswith("-/", i):
            depth -= 1
            i += 2
            continue
        if depth > 0:
            if src[i] == "\n":
                out.append("\n")
            i += 1
            continue
        c = src[i]
        if c == '"':
            # string literal (keep but without content so that words inside do not match)
            j = i + 1
            while j < n and src[j] != '"':
                if src[j] == "\\":
                    j += 1
                j += 1
            out.append('""')
            i = j + 1
            continue
        out.append(c)
        i += 1
    return "".join(out)


def grep_audit() -> list[str]:
    """Forbidden tokens outside comments/strings in every .lean file of the development."""
    hits = []
    for p in sorted(LEAN_DIR.rglob("*.lean")):
        if ".lake" in p.parts:
            continue
        code = _strip_comments(p.read_text())
        for ln, line in enumerate(code.splitlines(), 1):
            if _FORBIDDEN.search(line):
                hits.append(f"{p.relative_to(LEAN_DIR)}:{ln}: {line.strip()[:120]}")
    return hits


def lake_build(targets: list[str], timeout: int = 1500) -> tuple[bool, str]:
    cmd = ["lake", "build", *targets]
    try:
        r = subprocess.run(cmd, cwd=LEAN_DIR, capture_output=True, text=True, timeout=timeout)
    except subprocess.TimeoutExpired:
        raise Infra("lake build timed out")
    return r.returncode == 0, (r.stdout + r.stderr)


def failing_decls(log: str) -> list[str]:
    """Names of files/lines reported as errors by lake build."""
    out = []
    for m in re.finditer(r"error: ([^\n]*?\.lean):(\d+):(\d+): ([^\n]*)", log):
        out.append(f"{m.group(1)}:{m.group(2)}: {m.group(4)[:160]}")
    if not out:
        for m in re.finditer(r"error: ([^\n]*)", log):
            out.append(m.group(1)[:200])
    return out[:20]


def lean_axioms(module: str, theorems: list[str]) -> dict[str, list[str] | None]:
    """`#print axioms` for each theorem (None = theorem missing / does not check)."""
    src = [f"import {module}"]
    for t in theorems:
        src.append(f"#print axioms {t}")
    tmp = LEAN_DIR / f".audit_{module.replace('.', '_')}_{os.getpid()}.lean"
    tmp.write_text("\n".join(src) + "\n")
    try:
        r = subprocess.run(
            ["lake", "env", "lean", str(tmp.name)], cwd=LEAN_DIR, capture_output=True, text=True, timeout=600
        )
    finally:
        try:
            tmp.unlink()
        except OSError:
            pass
    text = r.stdout + r.stderr
    res: dict[str, list[str] | None] = {t: None for t in theorems}
    # outputs:  'thm' depends on axioms: [a, b]   |   'thm' does not depend on any axioms
    flat = re.sub(r"\s+", " ", text)
    for t in theorems:
        m = re.search(r"'" + re.escape(t) + r"' depends on axioms: \[([^\]]*)\]", flat)
        if m:
            res[t] = [a.strip() for a in m.group(1).split(",") if a.strip()]
            continue
        if re.search(r"'" + re.escape(t) + r"' does not depend on any axioms", flat):
            res[t] = []
    return res


class Driver:
    """Line protocol to the executable Lean model: one JSON per line in, one per line out."""

    def __init__(self):
        self.ok = True

    def run(self, lines: list[str], timeout: int = 1200) -> list[str] | None:
        if not lines:
            return []
        data = "\n".join(lines) + "\n"
        try:
            r = subprocess.run(
                ["lake", "env", "lean", "--run", "Driver.lean"],
                cwd=LEAN_DIR,
                input=data,
                capture_output=True,
                text=True,
                timeout=timeout,
            )
        except subprocess.TimeoutExpired:
            raise Infra("model driver timed out")
        if r.returncode != 0:
            self.ok = False
            self.err = (r.stdout[-2000:] + r.stderr[-4000:])
            return None
        out = r.stdout.splitlines()
        if len(out) != len(lines):
            self.ok = False
            self.err = f"driver returned {len(out)} lines for {len(lines)} cases\n" + r.stderr[-2000:]
            return None
        return out


# ----------------------------------------------------------------------------------------
# Known findings
# ----------------------------------------------------------------------------------------


def load_known_findings(prop: str) -> list[dict]:
    if not KNOWN_FINDINGS.exists():
        return []
    data = json.loads(KNOWN_FINDINGS.read_text())
    return [e for e in data if e.get("property") == prop]


# ----------------------------------------------------------------------------------------
# The run context
# ----------------------------------------------------------------------------------------


def jhash(obj) -> str:
    return hashlib.sha1(json.dumps(obj, sort_keys=True, default=repr).encode()).hexdigest()


class Ctx:
    def __init__(self, prop: str, tier: str, seed: int):
        self.prop = prop
        self.tier = tier
        self.seed = seed
        self.t0 = time.time()
        self.rng = random.Random(f"{prop}:{seed}")
        self.evaluations = 0
        self.distinct: set[str] = set()
        self.samples: list = []
        self.hist: dict[str, int] = {}
        self.violations: list[dict] = []  # genuine, unlisted
        self.known_hits: dict[str, int] = {}  # finding id -> count
        self.disagreements: list[dict] = []  # model vs implementation
        self.broken: list[dict] = []  # broken obligations (build/audit)
        self.obligations: list[str] = []
        self.discharged: list[str] = []
        self.notes: list[str] = []
        self.extra: dict = {}
        self.assumptions: list[str] = []
        self.lean_ok = True
        self.driver = Driver()
        self.known = load_known_findings(prop)
        self.exhaustive = False
        self.rule = ""
        self.deadline = None

    # -- counters -------------------------------------------------------------
    def wrapped(self, mode):
        """context manager: every annotation realised inside is wrapped (schema.realize) and every case
        reported inside carries {"annot": mode}, so that its replay re-creates the wrappers"""
        import contextlib

        from . import schema as S

        @contextlib.contextmanager
        def cm():
            old, olde = S.DEFAULT_ANNOT, getattr(self, "case_extra", None)
            S.DEFAULT_ANNOT = mode
            self.case_extra = {**(olde or {}), "annot": mode} if mode else olde
            try:
                yield
            finally:
                S.DEFAULT_ANNOT = old
                self.case_extra = olde

        return cm()

    def count(self, case, nontrivial: bool = True, kind: str | None = None):
        if getattr(self, "case_extra", None) and isinstance(case, dict):
            case = {**case, **self.case_extra}
            self.bump(f"wrapper cases:{self.case_extra.get('annot')}")
        self.evaluations += 1
        if nontrivial:
            self.distinct.add(jhash(case))
        if kind:
            self.hist[kind] = self.hist.get(kind, 0) + 1
        if len(self.samples) < 3 or (self.evaluations in (10, 100, 1000) and len(self.samples) < 6):
            self.samples.append(case)

    def bump(self, kind: str, n: int = 1):
        self.hist[kind] = self.hist.get(kind, 0) + n

    def time_left(self) -> float:
        if self.deadline is None:
            return 1e9
        return self.deadline - time.time()

    # -- verdict pieces ------------------------------------------------------
    def violation(self, case, observed, required, what: str = "", signature_of=None):
        """Report a concrete failing input.  `signature_of(finding)`->bool decides whether a
        known finding covers it."""
        for f in self.known:
            if f.get("status") != "open":
                continue
            try:
                if signature_of is not None and signature_of(f):
                    self.known_hits[f["id"]] = self.known_hits.get(f["id"], 0) + 1
                    return False
            except Exception:
                pass
        if getattr(self, "case_extra", None) and isinstance(case, dict):
            case = {**case, **self.case_extra}
        if len(self.violations) < 25:
            self.violations.append(
                {"case": case, "observed": observed, "required": required, "what": what}
            )
        else:
            self.bump("violations_not_recorded")
        return True

    def disagreement(self, case, model, impl, stream: str):
        if getattr(self, "case_extra", None) and isinstance(case, dict):
            case = {**case, **self.case_extra}
        if len(self.disagreements) < 25:
            self.disagreements.append({"case": case, "model": model, "impl": impl, "stream": stream})
        else:
            self.bump("disagreements_not_recorded")

    def obligation(self, name: str, ok: bool, detail: str = ""):
        self.obligations.append(name)
        if ok:
            self.discharged.append(name)
        else:
            self.broken.append({"obligation": name, "detail": detail[:2000]})

    # -- Lean ----------------------------------------------------------------
    def lean_check(self, module: str, theorems: list[str], extra_targets: list[str] = ()):  # noqa
        """Build the property's proof module (and the driver's model modules), audit axioms."""
        hits = grep_audit()
        self.obligation("grep-audit: no sorry/admit/axiom/native_decide/bv_decide/implemented_by/unsafe", not hits, "\n".join(hits))
        ok, log = lake_build([module, *extra_targets])
        self.lean_ok = ok
        if not ok:
            self.extra["lake_build_errors"] = failing_decls(log)
            self.obligation(f"lake build {module}", False, "\n".join(failing_decls(log)) or log[-1500:])
            # even when the whole module does not build, single theorems may be missing only
            for t in theorems:
                self.obligation(f"theorem {t}", False, "module does not build")
            # the executable model (the driver's modules) does not import the proof modules: when it still
            # builds it keeps running, so that the search for a concrete failing input has the
            # specification side to compare the implementation with
            if extra_targets:
                ok2, _log2 = lake_build(list(extra_targets))
                self.lean_ok = ok2
                self.extra["model_runs_although_proofs_broken"] = ok2
            return False
        self.obligation(f"lake build {module}", True)
        ax = lean_axioms(module, theorems)
        allok = True
        for t in theorems:
            a = ax.get(t)
            if a is None:
                self.obligation(f"theorem {t}", False, "theorem not found in the built module")
                allok = False
            elif not set(a) <= ALLOWED_AXIOMS:
                self.obligation(f"theorem {t}", False, f"non-standard axioms: {a}")
                allok = False
            else:
                self.obligation(f"theorem {t}", True)
        self.extra["axioms"] = {t: ax.get(t) for t in theorems}
        return allok

    def model(self, lines: list[dict]) -> list[dict] | None:
        """Run cases through the Lean driver; None when the model cannot be run."""
        if not self.lean_ok:
            return None
        out = self.driver.run([json.dumps(x, ensure_ascii=True) for x in lines])
        if out is None:
            self.obligation("model driver runs", False, getattr(self.driver, "err", ""))
            return None
        res = []
        for o in out:
            try:
                r = json.loads(o)
            except Exception:
                r = {"unparsable": o[:500]}
            if isinstance(r, dict) and r.get("inconclusive"):
                self.bump("model_inconclusive(oracle table incomplete)")
            res.append(r)
        self.bump("model_cases", len(res))
        return res

    # -- finish --------------------------------------------------------------
    def finish(self) -> int:
        wall = time.time() - self.t0
        REPLAY_DIR.mkdir(parents=True, exist_ok=True)
        lines = []
        status = 0
        head = repo_head()
        for f in self.known:
            if f.get("status") == "open" and self.known_hits.get(f["id"], 0) > 0:
                lines.append(f"KNOWN-FINDING: property={self.prop} {f['id']}: {f['what']}")
        if self.violations:
            status = 1
            v = self.violations[0]
            rp = self._write_replay("failing-input", v, head)
            lines.append(f"VIOLATION property={self.prop} replay={rp}")
            for v2 in self.violations[1:5]:
                self._write_replay("failing-input", v2, head)
        elif self.broken or self.disagreements:
            status = 1
            payload = {
                "case": (self.disagreements[0]["case"] if self.disagreements else None),
                "observed": (self.disagreements[0] if self.disagreements else None),
                "required": "proof obligations discharged and model == implementation on every case",
                "what": "proof obligation or correspondence no longer checks; no failing input found on the implementation",
                "broken": {"obligations": self.broken, "correspondence": self.disagreements[:5]},
            }
            rp = self._write_replay("no-failing-input-found", payload, head)
            lines.append(f"VIOLATION property={self.prop} replay={rp} no-failing-input-found")
        ev = {
            "property_id": self.prop,
            "tier": self.tier,
            "seed": self.seed,
            "level": "proof",
            "coverage": {
                "obligations": len(self.obligations),
                "discharged": len(self.discharged),
                "checker_cmd": f"cd lean && lake build Mashu.Props.{self.prop} && lake env lean <audit: #print axioms ...>",
                "trusted_base": TRUSTED_BASE,
                "obligation_names": self.obligations,
                "broken_obligations": self.broken,
                "evaluations": self.evaluations,
                "distinct_nontrivial": len(self.distinct),
                "rule": self.rule,
                "samples": self.samples[:6],
                "exhaustive": self.exhaustive,
                "input_distribution": dict(sorted(self.hist.items())),
                "correspondence_disagreements": len(self.disagreements),
                "known_finding_hits": self.known_hits,
                "notes": self.notes,
                **self.extra,
            },
            "assumptions": self.assumptions,
            "wall_s": round(wall, 2),
            "violations": len(self.violations),
        }
        EVIDENCE_DIR.mkdir(exist_ok=True)
        # a replay of one recorded case is not a run of the check: it leaves the evidence of the last run alone
        name = f"{self.prop}.json" if not getattr(self, "is_replay", False) else f"replay/last-replay-{self.prop}.json"
        (EVIDENCE_DIR / "replay").mkdir(exist_ok=True)
        (EVIDENCE_DIR / name).write_text(json.dumps(ev, indent=1, default=repr) + "\n")
        if os.environ.get("VERIF_DEBUG"):
            for v in self.violations[:8]:
                print("DBG-VIOL", json.dumps(v, default=repr)[:int(os.environ.get("VERIF_DEBUG_LEN", "1500"))], file=sys.stderr)
            for d in self.disagreements[:8]:
                print("DBG-DISAGREE", json.dumps(d, default=repr)[:int(os.environ.get("VERIF_DEBUG_LEN", "1500"))], file=sys.stderr)
        for ln in lines:
            print(ln)
        print(
            f"[{self.prop}] tier={self.tier} seed={self.seed} obligations={len(self.discharged)}/{len(self.obligations)} "
            f"cases={self.evaluations} distinct={len(self.distinct)} disagreements={len(self.disagreements)} "
            f"violations={len(self.violations)} known={sum(self.known_hits.values())} wall={wall:.1f}s -> exit {status}"
        )
        return status

    def _write_replay(self, kind: str, v: dict, head: str) -> str:
        body = {
            "property": self.prop,
            "kind": kind,
            "case": v.get("case"),
            "observed": v.get("observed"),
            "required": v.get("required"),
            "what": v.get("what"),
            "broken": v.get("broken"),
            "seed": self.seed,
            "tier": self.tier,
            "repo_head": head,
            "cmd": f"python3 run.py {self.prop} --replay <this file>",
        }
        h = jhash(body["case"] if body["case"] is not None else body)[:12]
        p = REPLAY_DIR / f"{self.prop}-{h}.json"
        p.write_text(json.dumps(body, indent=1, default=repr) + "\n")
        return str(p.relative_to(VERIF))
