"""C11 — union, Optional and Literal resolution is deterministic and never swallows data.

Theorems (Props/C11.lean): union_impl_eq_spec_outside (the generated union function equals the
statement's reading except in the events K1 and K2), k1_witness / k2_witness, union_exact_scalar(_spec),
union_result_is_member, literal_listed_constant, pack_union_scalar_member.
Tie: unions over scalars, leaves, containers, dataclasses, literals, enums, Optional-of-union, at the
root, inside containers and as dataclass fields; decode of per-member inputs, corrupted inputs and
garbage; encode of member values; implementation vs the model (implementation mode) and vs the
reference reading (REF_UNION_DECODE / encode_member = the model with the switches on).
"""
from __future__ import annotations

from . import c02, corelib, decode, gen
from . import schema as S

THEOREMS = [
    "Mashu.union_impl_eq_spec_outside",
    "Mashu.union_exact_scalar",
    "Mashu.union_exact_scalar_spec",
    "Mashu.union_result_is_member",
    "Mashu.literal_listed_constant",
    "Mashu.pack_union_scalar_member",
    "Mashu.k1_witness",
    "Mashu.k2_witness",
]
RULE = (
    "schema contains at least one union or literal: union of 2-4 members drawn from scalars (incl. None), leaves, enums, literals, containers, named tuples, dataclasses, "
    "at the root, inside a container or as a dataclass field; decode inputs: serializer output of a value of each member, the same corrupted, arbitrary data; "
    "encode inputs: one conforming value per member; non-trivial = always (a union/literal is present)"
)


def union_schema(g: gen.G, rng):
    c = rng.random()
    u = g.union_ty(1) if rng.random() < 0.8 else g.lit_ty()
    if c < 0.45:
        return u
    if c < 0.6:
        return ["coll", "list", u]
    if c < 0.7:
        return ["map", "dict", "str", u]
    if c < 0.8:
        return ["tfix", [u, "int"]]
    fd = lambda n: {"name": n, "alias": None, "default": None, "init": True, "omit": False}  # noqa
    return ["dc", g.cid("DC"), {}, [[fd("u"), u], [fd("z"), "int"]]]


def judge_decode(ctx, case, out, r, mutated, models, reg):
    ty = case["ty"]
    info = decode.classify(models, out, reg) if models else {}

    def known(f):
        ex = info.get("explained_by") or []
        if not info.get("impl_model_agrees"):
            return False
        return (f["id"] == "K1" and ("k1" in ex or not ex)) or (f["id"] == "K2" and "k2" in ex) or (f["id"] == "K3" and "k3" in ex)

    if "ok" in out and not corelib.py_conforms(ty, r, reg):
        ctx.violation(case, out, "result conforms to a member of the union", "decoded value is not an instance of any member", known)
        return
    if models is None:
        return
    if not info["spec_agrees"]:
        ctx.violation(case, {"impl": out, "REF_UNION_DECODE": models["spec"]}, "decode_U(d) == REF_UNION_DECODE(U, d) incl. the raise case", "union / literal resolution differs from the statement", known)
    if not info["impl_model_agrees"]:
        ctx.disagreement(case, models["impl"], out, "union decode")


def gen_cases(ctx, n):
    rng = ctx.rng
    dec, enc = [], []
    for _ in range(n):
        g = gen.G(rng, max_depth=3, features={"any": False})
        ty = union_schema(g, rng)
        entry = "mixin" if (isinstance(ty, list) and ty[0] == "dc" and rng.random() < 0.6) else "codec"
        val = g.val(ty)
        enc.append((ty, val, entry))
        reg = S.Reg(mixin=(entry == "mixin"))
        try:
            try:
                out, _r, _v = corelib.real_pack(ty, val, reg, entry)
                packed = out.get("ok")
            except Exception:
                packed = None
        finally:
            reg.close()
        c = rng.random()
        if packed is None or c < 0.2:
            dec.append((ty, g.junk(), entry, "junk"))
        elif c < 0.6:
            dec.append((ty, packed, entry, "valid"))
        else:
            dec.append((ty, g.corrupt(packed, 0.25), entry, "corrupted"))
    return dec, enc


CORPUS_DEC = [
    (["union", ["int", "none", ["leaf", "date"]]], ["s", "garbage"], "codec", "corpus"),
    (["union", [["leaf", "date"], "str"]], ["s", "2024-11-12"], "codec", "corpus"),
    (["union", ["int", "float", "none"]], ["s", "a"], "codec", "corpus"),
    (["union", ["int", "str"]], True, "codec", "corpus"),
    (["union", ["bool", "int"]], ["i", "1"], "codec", "corpus"),
    (["lit", [[["i", "1"], ["i", "1"]], [["s", "a"], ["s", "a"]]]], True, "codec", "corpus"),
    (["union", [["coll", "list", "int"], ["map", "dict", "str", "int"]]], ["map", "dict", [[["s", "1"], ["i", "2"]]]], "codec", "corpus"),
]


def run(ctx):
    ctx.rule = RULE
    ctx.lean_check("Mashu.Props.C11", THEOREMS, extra_targets=["Mashu.Dispatch"])
    decode.run_decode(ctx, CORPUS_DEC, judge_decode)
    from . import c03

    decode.run_decode(ctx, c03.NULLABLE_CORPUS, judge_decode)   # Optional positions: nulls of fields and of tuple elements
    for mode, cs in decode.fixed_corpus(ctx).items():
        decode.run_decode(ctx, cs, judge_decode, annot=mode)
    n = 2000 if ctx.tier == "quick" else 30000
    done = 0
    while done < n and ctx.time_left() > 40:
        k = min(2000, n - done)
        dec, enc = gen_cases(ctx, k)
        decode.run_decode(ctx, dec, judge_decode)
        if ctx.time_left() > 60:
            for mode in S.WRAP_MODES:
                dec2, enc2 = gen_cases(ctx, max(100, k // 8))
                decode.run_decode(ctx, dec2, judge_decode, annot=mode)
                c02.run_stream(ctx, enc2, annot=mode)
        c02.run_stream(ctx, enc)   # encode_U(v) == encode_member(v): the C02 stream on union schemas (K10 classified there)
        done += k


def replay(ctx, body):
    c = body["case"]
    if "input" in c:
        decode.run_decode(ctx, [(c["ty"], c["input"], c.get("entry", "codec"), "replay")], judge_decode, annot=c.get("annot", False))
    else:
        c02.run_stream(ctx, [(c["ty"], c["value"], c.get("entry", "codec"))], annot=c.get("annot", False))
    return ctx.finish()
