"""C15 — all entry points agree.

Theorems (Props/C15.lean): pack_le / entrypoints_agree (whatever the mixin path returns the
codec path returns, union-free grammar, every input), unpack_eqv / entrypoints_agree_decode
(whole grammar incl. unions: same value or exceptions of the same class), elementwise_list,
elementwise_list_ident, elementwise_optional, nested_field.

Tie: for generated (schema, value): the real results of every entry point — mixin method,
BasicEncoder/BasicDecoder object, one-shot encode/decode, JSON codec, and the type nested in
List / Dict value / Tuple item / Optional / a field of a mixin outer class / a field of a plain
outer class — must coincide (metamorphic, model-free); the executable model is run for the two
entry points on the same case and compared with the corresponding real result; afterwards
further codecs and a subclass are created and the first codec / class must still give the very
same answer.
"""
from __future__ import annotations

import dataclasses
import json
import typing

from . import corelib, gen
from . import schema as S

THEOREMS = [
    "Mashu.pack_le",
    "Mashu.entrypoints_agree",
    "Mashu.pack_eq_conf",
    "Mashu.entrypoints_equal",
    "Mashu.unpack_eqv",
    "Mashu.unionWalk_eq",
    "Mashu.entrypoints_agree_decode",
    "Mashu.elementwise_list",
    "Mashu.elementwise_list_ident",
    "Mashu.elementwise_optional",
    "Mashu.nested_field",
]
RULE = (
    "type-directed generation as for C01/C02 (depth<=3 quick / 4 thorough); per (schema, conforming value): encode through 9 entry points and decode the "
    "basic form (and corrupted variants of it) through 9 entry points; equality of all successful results, agreement on success/failure; "
    "then creation of further codecs, of a subclass and of a second dialect-less codec, and re-evaluation of the first ones; "
    "non-trivial = schema is not a bare scalar"
)

_made = []



def _unionable(ann):
    """typing.Optional / Union need hashable members (an Annotated with unhashable metadata is not)"""
    try:
        typing.Optional[ann]
        return True
    except TypeError:
        return False

def mk_outer(ann, mixin, idx):
    from mashumaro import DataClassDictMixin

    name = f"Outer15_{idx}_{'m' if mixin else 'p'}"
    c = type(name, (DataClassDictMixin,) if mixin else (), {"__annotations__": {"f": ann, "g": int}})
    c.__module__ = __name__
    globals()[name] = c
    _made.append(name)
    return dataclasses.dataclass(c)


def cleanup():
    for n in _made:
        globals().pop(n, None)
    _made.clear()


def outcome(fn):
    try:
        return ("ok", fn())
    except RecursionError:
        raise
    except Exception as e:  # noqa
        return ("err", type(e).__name__, str(e)[:120])


def encode_points(ann, obj, is_mixin, idx):
    """name -> thunk producing the serialized form of `obj` through that entry point"""
    from mashumaro.codecs import basic
    from mashumaro.codecs.basic import BasicEncoder
    from mashumaro.codecs.json import JSONEncoder

    pts = {}
    enc0 = BasicEncoder(ann)
    pts["encoder"] = lambda: enc0.encode(obj)
    pts["oneshot"] = lambda: basic.encode(obj, ann)
    if is_mixin:
        pts["mixin"] = lambda: obj.to_dict()
    pts["list"] = lambda: BasicEncoder(typing.List[ann]).encode([obj])[0]
    pts["dictval"] = lambda: BasicEncoder(typing.Dict[str, ann]).encode({"k": obj})["k"]
    pts["tuple"] = lambda: BasicEncoder(typing.Tuple[ann, int]).encode((obj, 1))[0]
    if obj is not None and _unionable(ann):
        pts["optional"] = lambda: BasicEncoder(typing.Optional[ann]).encode(obj)
    Om, Op = mk_outer(ann, True, idx), mk_outer(ann, False, idx)
    pts["field_mixin"] = lambda: Om(obj, 1).to_dict()["f"]
    pts["field_plain"] = lambda: BasicEncoder(Op).encode(Op(obj, 1))["f"]
    pts["json"] = lambda: json.loads(JSONEncoder(ann).encode(obj))
    return pts, enc0


def decode_points(ann, data, is_mixin, idx):
    from mashumaro.codecs import basic
    from mashumaro.codecs.basic import BasicDecoder
    from mashumaro.codecs.json import JSONDecoder

    pts = {}
    dec0 = BasicDecoder(ann)
    pts["decoder"] = lambda: dec0.decode(data)
    pts["oneshot"] = lambda: basic.decode(data, ann)
    if is_mixin:
        pts["mixin"] = lambda: ann.from_dict(data)
    pts["list"] = lambda: BasicDecoder(typing.List[ann]).decode([data])[0]
    pts["dictval"] = lambda: BasicDecoder(typing.Dict[str, ann]).decode({"k": data})["k"]
    pts["tuple"] = lambda: BasicDecoder(typing.Tuple[ann, int]).decode([data, 1])[0]
    if data is not None and _unionable(ann):
        pts["optional"] = lambda: BasicDecoder(typing.Optional[ann]).decode(data)
    Om, Op = mk_outer(ann, True, f"{idx}d"), mk_outer(ann, False, f"{idx}d")
    pts["field_mixin"] = lambda: Om.from_dict({"f": data, "g": 1}).f
    pts["field_plain"] = lambda: BasicDecoder(Op).decode({"f": data, "g": 1}).f
    return pts, dec0


def jsonable(x):
    try:
        json.dumps(x)
        return True
    except Exception:
        return False


def nullable_top(ty):
    return ty in ("any", "none") or (isinstance(ty, list) and ty[0] in ("opt",)) or (isinstance(ty, list) and ty[0] == "union" and any(nullable_top(m) for m in ty[1]))


def k10_signature(ty, info):
    """finding K10 seen through two entry points: the union packer tries members in order and a
    permissive earlier dataclass member serializes an instance of a later member class by
    attribute access (codec path), while the mixin path calls the instance's own method"""
    return corelib.has_union(ty) and info.get("impl_model_agrees") and not info.get("spec_agrees")


class Pending:
    def __init__(self):
        self.items = []

    def add(self, case, observed, required, what, key):
        self.items.append((case, observed, required, what, key))


def run_cases(ctx, cases):
    lines, metas = [], []
    pending = Pending()
    for idx, (ty, value, mode) in enumerate(cases):
        reg = S.Reg(mixin=True)
        try:
            try:
                ann = S.realize(ty, reg)
                obj = S.from_v(value, reg)
            except RecursionError:
                raise
            except Exception as e:  # noqa
                ctx.bump("build_error")
                continue
            is_mixin = isinstance(ty, list) and ty[0] == "dc"
            case = {"ty": ty, "value": value, "mode": mode}
            ctx.count(case, not isinstance(ty, str), kind=f"root:{gen.tag_of(ty)}")
            uid = ctx.evaluations
            # ---------------- encode ----------------
            pts, enc0 = encode_points(ann, obj, is_mixin, uid)
            res = {k: outcome(f) for k, f in pts.items()}
            base = res["encoder"]
            for k, r in res.items():
                if k == "json":
                    if base[0] == "ok" and jsonable(base[1]) and r[0] == "ok":
                        if json.loads(json.dumps(base[1])) != r[1]:
                            ctx.violation(case, {"entry": k, "got": repr(r[1])[:300]}, {"encoder": repr(base[1])[:300]}, "JSON codec document differs from the basic codec's", lambda f: False)
                    continue
                if k == "optional" and (nullable_top(ty) or (isinstance(ty, list) and ty[0] == "union")):
                    continue  # Optional[Union[...]] is a different (flattened) union
                if r[0] != base[0]:
                    pending.add(case, {"entry": k, "got": r[:2] if r[0] == "err" else "ok"}, {"encoder": base[:2] if base[0] == "err" else "ok"}, f"entry point '{k}' and the Encoder object disagree on success", len(metas))
                elif r[0] == "ok" and not S.same(S.canon(r[1], reg), S.canon(base[1], reg)):
                    pending.add(case, {"entry": k, "got": S.canon(r[1], reg)}, {"encoder": S.canon(base[1], reg)}, f"entry point '{k}' serializes differently from the Encoder object", len(metas))
            ctx.bump("encode_points", len(res))
            # ---------------- decode ----------------
            dres = None
            if base[0] == "ok":
                data = base[1]
                if mode == "corrupt":
                    g = gen.G(ctx.rng, max_depth=2)
                    try:
                        data = S.from_v(S.norm_v(g.corrupt(S.canon(base[1], reg), 0.25), reg), reg)
                    except Exception:  # noqa
                        data = base[1]
                dpts, dec0 = decode_points(ann, data, is_mixin, uid)
                dres = {k: outcome(f) for k, f in dpts.items()}
                dbase = dres["decoder"]
                for k, r in dres.items():
                    if k == "optional" and (data is None or nullable_top(ty) or (isinstance(ty, list) and ty[0] == "union")):
                        continue
                    if r[0] != dbase[0]:
                        ctx.violation({**case, "data": S.canon(data, reg)}, {"entry": k, "got": r[:2] if r[0] == "err" else "ok"}, {"decoder": dbase[:2] if dbase[0] == "err" else "ok"}, f"entry point '{k}' and the Decoder object disagree on success", lambda f: False)
                    elif r[0] == "ok" and not S.same(S.canon(r[1], reg), S.canon(dbase[1], reg)):
                        ctx.violation({**case, "data": S.canon(data, reg)}, {"entry": k, "got": S.canon(r[1], reg)}, {"decoder": S.canon(dbase[1], reg)}, f"entry point '{k}' deserializes differently from the Decoder object", lambda f: False)
                ctx.bump("decode_points", len(dres))
                ctx.bump("decode_ok" if dbase[0] == "ok" else "decode_raises")
            # ---------------- creating codecs / subclasses is inert ----------------
            from mashumaro.codecs.basic import BasicDecoder, BasicEncoder

            try:
                BasicEncoder(typing.List[typing.Optional[ann]] if _unionable(ann) else typing.List[ann])
                BasicDecoder(typing.Dict[str, typing.List[ann]])
                if is_mixin:
                    sub = type(f"Sub15_{uid}", (ann,), {"__annotations__": {"zz": int}, "zz": 0})
                    sub.__module__ = __name__
                    dataclasses.dataclass(sub)
            except Exception:  # noqa
                pass
            again = outcome(lambda: enc0.encode(obj))
            if again[0] != base[0] or (again[0] == "ok" and not S.same(S.canon(again[1], reg), S.canon(base[1], reg))):
                ctx.violation(case, {"second_call": again[:2]}, {"first_call": base[:2]}, "an existing Encoder changed its behaviour after other codecs / a subclass were created", lambda f: False)
            if is_mixin and "mixin" in res:
                again = outcome(lambda: obj.to_dict())
                if again[0] != res["mixin"][0] or (again[0] == "ok" and not S.same(S.canon(again[1], reg), S.canon(res["mixin"][1], reg))):
                    ctx.violation(case, {"second_call": again[:2]}, {"first_call": res["mixin"][:2]}, "to_dict changed its behaviour after codecs / a subclass were created", lambda f: False)
            # ---------------- model, both entry points ----------------
            objmap = {}
            viter = S.canon(obj, reg, iter_order=True, objmap=objmap)
            oracle = S.build_oracle(ty, [viter], reg, "pack", objmap)
            b = {"op": "pack", "ty": ty, "value": viter, "oracle": oracle}
            lines.append({**b, "nailed": True})
            lines.append({**b, "nailed": False})
            lines.append({**b, "nailed": False, "fixK10": True})
            metas.append((case, {"mixin": res.get("mixin") or res["field_mixin"], "codec": base}, reg, is_mixin))
            reg = None
        finally:
            if reg is not None:
                reg.close()
            cleanup()
    outs = ctx.model(lines)
    infos = {}
    for i, (case, real, reg, is_mixin) in enumerate(metas):
        if outs is None:
            break
        rc = real["codec"]
        real_out = {"ok": S.canon(rc[1], reg)} if rc[0] == "ok" else {"err": {"kind": "py", "py": rc[1]}}
        infos[i] = {"impl_model_agrees": corelib.compare(outs[3 * i + 1], real_out, reg)[0], "spec_agrees": corelib.compare(outs[3 * i + 2], real_out, reg)[0]}
    for case, observed, required, what, key in pending.items:
        info = infos.get(key, {})
        ctx.violation(case, observed, required, what, lambda f, _i=info, _t=case["ty"]: f["id"] == "K10" and k10_signature(_t, _i))
    for i, (case, real, reg, is_mixin) in enumerate(metas):
        try:
            if outs is None:
                continue
            mn, mc = outs[3 * i], outs[3 * i + 1]
            if "ok" in mn and "ok" in mc and mn["ok"] != mc["ok"] and not corelib.has_union(case["ty"]):
                ctx.disagreement(case, {"nailed": mn, "codec": mc}, None, "model: entry points differ (contradicts pack_le)")
            rc = real["codec"]
            real_out = {"ok": S.canon(rc[1], reg)} if rc[0] == "ok" else {"err": {"kind": "py", "py": rc[1]}}
            ok, why = corelib.compare(mc, real_out, reg)
            if not ok and not (rc[0] == "err"):
                ctx.disagreement(case, mc, real_out, f"pack/codec: {why}")
            if is_mixin:
                rm = real["mixin"]
                real_out = {"ok": S.canon(rm[1], reg)} if rm[0] == "ok" else {"err": {"kind": "py", "py": rm[1]}}
                ok, why = corelib.compare(mn, real_out, reg)
                if not ok and "err" in mn and corelib.has_union(case["ty"]):
                    # mixin path dispatching on the runtime class of a union member instance: outside the model (Pack.lean)
                    ctx.bump("model:nailed-runtime-dispatch-not-modelled")
                    ok = True
                if not ok and not (rm[0] == "err"):
                    ctx.disagreement(case, mn, real_out, f"pack/mixin: {why}")
        finally:
            reg.close()


def run_namesakes(ctx, n):
    """two distinct classes with the same class name in different modules (and generic
    specialisations over them) inside one shape: a composite codec must equal the element codecs"""
    import datetime
    import sys
    import types

    from mashumaro import DataClassDictMixin
    from mashumaro.codecs.basic import BasicDecoder, BasicEncoder

    T = typing.TypeVar("T")
    for i in range(n):
        rng = ctx.rng
        mixin = rng.random() < 0.5
        mods = []
        try:
            classes = []
            for j, fields in enumerate(({"street": str, "zip": int}, {"street": str, "zip": int, "country": str, "since": datetime.date})):
                m = types.ModuleType(f"ns15_{i}_{j}")
                sys.modules[m.__name__] = m
                mods.append(m.__name__)
                c = type("Addr", (DataClassDictMixin,) if mixin else (), {"__annotations__": dict(fields)})
                c.__module__ = m.__name__
                setattr(m, "Addr", c)
                classes.append(dataclasses.dataclass(c))
            A, B = classes
            if rng.random() < 0.5:
                A, B = B, A
            gm = types.ModuleType(f"ns15_{i}_g")
            sys.modules[gm.__name__] = gm
            mods.append(gm.__name__)
            G = types.new_class("G", (DataClassDictMixin, typing.Generic[T]) if mixin else (typing.Generic[T],), {}, lambda ns: ns.update({"__annotations__": {"x": T, "n": int}, "__module__": gm.__name__}))
            G.__module__ = gm.__name__
            gm.G = G
            G = dataclasses.dataclass(G)

            def inst(c):
                kw = {"street": rng.choice(["a", "b"]), "zip": rng.randrange(5)}
                if "country" in c.__annotations__:
                    kw.update(country="NL", since=datetime.date(2024, 2, 29))
                return c(**kw)

            a, b = inst(A), inst(B)
            shapes = {
                "Tuple[A,B]": (typing.Tuple[A, B], (a, b), [(A, a), (B, b)]),
                "Tuple[G[A],G[B]]": (typing.Tuple[G[A], G[B]], (G(a, 1), G(b, 2)), [(G[A], G(a, 1)), (G[B], G(b, 2))]),
                "Dict[str,Tuple[A,B]]": None,
            }
            for name, sh in shapes.items():
                if sh is None:
                    continue
                shape, value, parts = sh
                case = {"namesakes": name, "mixin": mixin, "order": [c.__module__ for c in (A, B)]}
                ctx.count(case, True, kind="namesakes")
                got = outcome(lambda: BasicEncoder(shape).encode(value))
                want = outcome(lambda: [BasicEncoder(t).encode(v) for t, v in parts])
                if got[0] != want[0] or (got[0] == "ok" and list(got[1]) != want[1]):
                    ctx.violation(case, {"composite": repr(got[1])[:400]}, {"elementwise": repr(want[1])[:400]}, "a codec for a composite shape differs from the element codecs applied elementwise (same-named classes)", lambda f: False)
                    continue
                if got[0] == "ok":
                    back = outcome(lambda: BasicDecoder(shape).decode(got[1]))
                    wback = outcome(lambda: tuple(BasicDecoder(t).decode(d) for (t, _v), d in zip(parts, got[1])))
                    if back[0] != wback[0] or (back[0] == "ok" and tuple(back[1]) != wback[1]):
                        ctx.violation(case, {"composite": repr(back[1])[:400]}, {"elementwise": repr(wback[1])[:400]}, "a decoder for a composite shape differs from the element decoders applied elementwise (same-named classes)", lambda f: False)
            # an outer class holding both, through the mixin and through an Encoder
            Om = mk_outer(A, True, f"ns{i}")
            Om2 = type(f"Order15_{i}", (DataClassDictMixin,), {"__annotations__": {"a": A, "b": B, "ga": G[A], "gb": G[B]}})
            Om2.__module__ = __name__
            globals()[Om2.__name__] = Om2
            _made.append(Om2.__name__)
            Om2 = dataclasses.dataclass(Om2)
            o = Om2(a, b, G(a, 1), G(b, 2))
            case = {"namesakes": "Order(a:A,b:B,ga:G[A],gb:G[B])", "mixin": mixin}
            ctx.count(case, True, kind="namesakes")
            want = outcome(lambda: {"a": BasicEncoder(A).encode(a), "b": BasicEncoder(B).encode(b), "ga": BasicEncoder(G[A]).encode(G(a, 1)), "gb": BasicEncoder(G[B]).encode(G(b, 2))})
            for ep, thunk in (("mixin", lambda: o.to_dict()), ("encoder", lambda: BasicEncoder(Om2).encode(o))):
                got = outcome(thunk)
                if got[0] != want[0] or (got[0] == "ok" and got[1] != want[1]):
                    ctx.violation({**case, "entry": ep}, {"got": repr(got[1])[:400]}, {"fieldwise": repr(want[1])[:400]}, f"{ep}: an outer class holding two same-named classes serializes a field differently from that field's own codec", lambda f: False)
            if want[0] == "ok":
                for ep, thunk in (("mixin", lambda: Om2.from_dict(want[1])), ("decoder", lambda: BasicDecoder(Om2).decode(want[1]))):
                    got = outcome(thunk)
                    if got[0] != "ok" or got[1] != o:
                        ctx.violation({**case, "entry": ep}, {"got": repr(got[1])[:400]}, {"original": repr(o)[:400]}, f"{ep}: an outer class holding two same-named classes does not decode its fields with their own decoders", lambda f: False)
        finally:
            for mn in mods:
                sys.modules.pop(mn, None)
            cleanup()


def gen_cases(ctx, n, depth):
    cases = []
    for _ in range(n):
        g = gen.G(ctx.rng, max_depth=depth)
        ty = g.ty()
        cases.append((ty, g.val(ty), ctx.rng.choice(["valid", "valid", "corrupt"])))
    return cases


SELFREF_SRC = """
import dataclasses, datetime, typing
from mashumaro import DataClassDictMixin

@dataclasses.dataclass
class PNode:                       # plain dataclass that refers to itself by name
    d: datetime.date
    nxt: typing.Optional["PNode"] = None
    kids: typing.List["PNode"] = dataclasses.field(default_factory=list)

@dataclasses.dataclass
class MNode(DataClassDictMixin):   # the same with the mixin
    d: datetime.date
    nxt: typing.Optional["MNode"] = None
    kids: typing.List["MNode"] = dataclasses.field(default_factory=list)

@dataclasses.dataclass
class HoldP(DataClassDictMixin):
    n: PNode

@dataclasses.dataclass
class HoldM(DataClassDictMixin):
    n: MNode
"""


def run_selfref(ctx, n):
    """classes that refer to themselves: the mixin methods, a nesting class, and Encoder / Decoder objects created for
    the class itself and for containers of it give the same documents / objects"""
    import datetime
    import sys
    import types

    from mashumaro.codecs.basic import BasicDecoder, BasicEncoder

    rng = ctx.rng
    for i in range(n):
        m = types.ModuleType(f"c15_selfref_{ctx.evaluations}_{i}")
        sys.modules[m.__name__] = m
        exec(compile(SELFREF_SRC, "<c15 selfref>", "exec", dont_inherit=True), m.__dict__)
        flavour = rng.choice(["P", "M"])
        N, H = getattr(m, flavour + "Node"), getattr(m, "Hold" + flavour)
        depth = rng.randint(0, 3)

        def mkv(k):
            return N(datetime.date(2020, 1, 1 + k), mkv(k - 1) if k > 0 else None, [mkv(k - 1)] if k > 1 else [])

        v = mkv(depth)
        order = rng.sample(["codec", "list", "holder", "mixin"], 4)
        case = {"selfref": {"flavour": flavour, "depth": depth, "order": order}}
        ctx.count(case, True, kind=f"selfref:{flavour}")
        outs = {}
        try:
            for ep in order:
                try:
                    if ep == "codec":
                        doc = BasicEncoder(N).encode(v)
                        back = BasicDecoder(N).decode(doc)
                    elif ep == "list":
                        doc = BasicEncoder(typing.List[N]).encode([v])[0]
                        back = BasicDecoder(typing.List[N]).decode([doc])[0]
                    elif ep == "holder":
                        doc = H(v).to_dict()["n"]
                        back = H.from_dict({"n": doc}).n
                    else:
                        if flavour != "M":
                            continue
                        doc = v.to_dict()
                        back = N.from_dict(doc)
                    outs[ep] = ("ok", doc, back == v)
                except Exception as e:  # noqa
                    outs[ep] = ("error", type(e).__name__, None)
        finally:
            sys.modules.pop(m.__name__, None)
        ref = outs.get("holder")
        for ep, o in outs.items():
            if o != ref or o[0] != "ok" or o[2] is not True:
                ctx.violation(case, {"entry": ep, "got": repr(o)[:300]}, {"through a nesting class": repr(ref)[:300]}, f"entry point '{ep}' disagrees on a class that refers to itself", lambda f: False)
                break


def run(ctx):
    ctx.rule = RULE
    ctx.lean_check("Mashu.Props.C15", THEOREMS, extra_targets=["Mashu.Dispatch"])
    run_selfref(ctx, 40 if ctx.tier == "quick" else 600)
    n, depth = (900, 3) if ctx.tier == "quick" else (15000, 4)
    done = 0
    while done < n and ctx.time_left() > 40:
        k = min(300, n - done)
        run_cases(ctx, gen_cases(ctx, k, depth))
        done += k
    for mode in S.WRAP_MODES:
        if ctx.time_left() > 60:
            with ctx.wrapped(mode):
                run_cases(ctx, gen_cases(ctx, 120 if ctx.tier == "quick" else 2000, depth))
    run_namesakes(ctx, 40 if ctx.tier == "quick" else 600)
    # "for the same type, DIALECT and value": format mixin methods given the dialect at call time vs the
    # format's Encoder / Decoder objects created with it as default_dialect (the stream C13 is built on)
    from . import c13

    c13.run_uniform(ctx, 1 if ctx.tier == "quick" else 6, c13.UNI_DIALECTS)
    ctx.assumptions += [
        "exceptions are compared by success/failure only between entry points (their classes differ by design: InvalidFieldValue in field position, ValueError at a codec's top level)",
    ]


def replay(ctx, body):
    ctx.lean_check("Mashu.Props.C15", THEOREMS, extra_targets=["Mashu.Dispatch"])
    c = body["case"]
    if c and "uniform" in c:
        from . import c13

        c13.run_uniform(ctx, 4, [c["uniform"]["dialect"]])
    elif c and "namesakes" in c:
        run_namesakes(ctx, 20)
    elif c and "selfref" in c:
        run_selfref(ctx, 40)
    elif c:
        run_cases(ctx, [(c["ty"], c["value"], c.get("mode", "valid"))])
    return ctx.finish()
