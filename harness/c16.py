"""C16 — schema-supplied strings are data, never code.

Theorems (Props/C16.lean): lex_repr (every string, every continuation), key_is_data,
all_sites_repr (splice-site table regenerated from the source), raw_splice_breaks.
Tie: (1) the model's pyRepr vs CPython's repr and the model's literal lexer vs CPython's
tokenizer on an adversarial alphabet; (2) end to end: classes built with string s at each
splice position (metadata alias, Annotated Alias, Config.aliases, TypedDict key, discriminator
field, forbid_extra_keys set, Literal str / bytes): the class builds, the key/value used is
exactly s, a sentinel side effect embedded in s never fires.
"""
from __future__ import annotations

import ast
import dataclasses
import io
import os
import tokenize
import typing
import warnings

THEOREMS = [
    "Mashu.Quote.lex_repr",
    "Mashu.Quote.lex_escOne",
    "Mashu.Quote.lex_body_repr",
    "Mashu.Quote.key_is_data",
    "Mashu.Quote.all_sites_repr",
    "Mashu.Quote.sites_present",
    "Mashu.Quote.raw_splice_breaks",
]
RULE = (
    "strings of length 0-8 over an adversarial alphabet (both quotes, backslash, newline, CR, tab, NUL, DEL, braces, percent, Latin-1 non-printables, "
    "non-ASCII printable, astral, lone surrogate, Python fragments) plus fixed payloads; 10 splice positions (one of them the NAME of an enum member used in a Literal); non-trivial = the string contains a character "
    "outside [A-Za-z0-9_]; literal-lexer inputs are repr outputs with random mutations and continuations"
)

ALPHABET = ["'", '"', "\\", "\n", "\r", "\t", "\x00", "\x7f", "{", "}", "%", " ", "a", "n", "x", "u", "N", "0", "7", "\x85", "\xa0", "é", "€", "日", "\U0001f600", "\U000e0001", "\ud800", ",", ")", "]", ":", "#"]
SENTINEL = "MASHU_VERIF_SENTINEL"
PAYLOADS = [
    "it's",
    'say "hi"',
    "a\\nb",
    "line\nbreak",
    "x'} - {__import__('os').environ.setdefault('" + SENTINEL + "','1')} - {'",
    "', MISSING) or __import__('os').environ.setdefault('" + SENTINEL + "','1') or d.get('",
    "'] = __import__('os').environ.setdefault('" + SENTINEL + "','1'); kwargs['",
    "\\",
    "'",
    '"',
    "'\"",
    "",
    "None",
    "{0}",
    "%s",
    "\\x41",
    "\\N{BULLET}",
    "tab\there",
    "other.value or __import__('os').environ.setdefault('" + SENTINEL + "','1') or value",
]


def rand_string(rng):
    if rng.random() < 0.25:
        return rng.choice(PAYLOADS)
    return "".join(rng.choice(ALPHABET) for _ in range(rng.randint(0, 8)))


def cps(s):
    return [ord(c) for c in s]


# ---------------------------------------------------------------------------------------
# (1) model vs CPython: repr and the literal lexer
# ---------------------------------------------------------------------------------------


def cpython_lex(text):
    """first token of `text` if it is an unprefixed short string literal -> (value, rest) else None"""
    if text[:3] in ("'''", '"""'):
        return "triple"
    try:
        with warnings.catch_warnings():
            warnings.simplefilter("ignore")
            toks = tokenize.generate_tokens(io.StringIO(text).readline)
            tok = next(toks)
            if tok.type != tokenize.STRING or tok.start != (1, 0):
                return None
            if tok.end[0] != 1:
                # a literal spanning lines: only via backslash-newline continuation
                lines = text.split("\n")
                consumed = sum(len(l) + 1 for l in lines[: tok.end[0] - 1]) + tok.end[1]
            else:
                consumed = tok.end[1]
            value = ast.literal_eval(tok.string)
            return (value, text[consumed:])
    except (tokenize.TokenError, SyntaxError, ValueError, IndentationError, StopIteration):
        return None


def lexer_cases(ctx, n):
    rng = ctx.rng
    lines, metas = [], []
    conts = [")", ", MISSING)", "] = value", ": self.x}", " ", "", " + 1", "'", "x'"]
    for _ in range(n):
        s = rand_string(rng)
        if "\ud800" in s:
            s = s.replace("\ud800", "͸")  # source text cannot carry a lone surrogate through tokenize
        c = rng.random()
        if c < 0.5:
            lit = repr(s)
        elif c < 0.75:
            lit = "'" + s + "'"      # raw splice, as before the fix
        else:
            body = "".join(rng.choice(["\\", "'", '"', "n", "x", "4", "1", "u", "0", "a", "q", "\n", "é", "U", "f"]) for _ in range(rng.randint(0, 7)))
            lit = rng.choice("'\"") + body + rng.choice(["'", '"', ""])
        text = lit + rng.choice(conts)
        if "\\\n" in text:
            continue   # backslash-newline continuation: token positions span lines (not produced by repr)
        if any(ch in text for ch in ("\r", "\x00", "\x0c")):
            continue   # tokenize normalises / rejects these before lexing: outside the literal lexer
        # escapes outside the model: octal and \N
        bad = False
        i = 0
        while i < len(text) - 1:       # escape sequences are read left to right, two characters at a time
            if text[i] == "\\":
                if text[i + 1].isdigit() or text[i + 1] == "N":
                    bad = True
                i += 2
            else:
                i += 1
        if bad:
            continue
        lines.append({"op": "pylex", "s": cps(text)})
        metas.append(text)
    outs = ctx.model(lines)
    for text, m in zip(metas, outs or []):
        ctx.count({"lex": text}, True, kind="lexer")
        real = cpython_lex(text)
        if real == "triple":
            exp = None
        elif real is None:
            exp = None
        else:
            exp = (cps(real[0]), cps(real[1]))
        got = None if m.get("value") is None else (m["value"], m["rest"])
        if got != exp:
            # multi-line continuation positions are delicate; report as disagreement
            ctx.disagreement({"lex": text}, got, exp, "literal lexer vs CPython tokenize")


def repr_cases(ctx, n):
    rng = ctx.rng
    lines, metas = [], []
    for _ in range(n):
        s = rand_string(rng)
        lines.append({"op": "pyrepr", "s": cps(s), "printable": sorted({ord(c) for c in s if c.isprintable()})})
        metas.append(s)
    outs = ctx.model(lines)
    for s, m in zip(metas, outs or []):
        ctx.count({"repr": s}, True, kind="repr")
        if m.get("repr") != cps(repr(s)):
            ctx.disagreement({"repr": s}, m.get("repr"), cps(repr(s)), "pyRepr vs CPython repr")


# ---------------------------------------------------------------------------------------
# (2) end to end
# ---------------------------------------------------------------------------------------

POSITIONS = ["meta_alias", "annotated_alias", "config_alias", "typeddict_key", "discriminator_field", "forbid_extra_keys", "literal_str", "literal_bytes", "alias_kwargs_serializer", "literal_enum_member_name"]
# positions whose strings must be Python identifiers (namedtuple member names used as keys under
# namedtuple_as_dict / serialize="as_dict"): exotic but legal identifiers, among them ones that are not
# NFKC-stable (the compiler would normalise them if they were spliced as identifier tokens)
ID_POSITIONS = ["namedtuple_key", "namedtuple_key_field_option"]
ID_FIXED = ["x", "µ", "ª", "ﬁeld", "ｘ", "ſ", "ǆ", "𝐱", "K", "Å", "é", "日本", "ß", "class_", "a1", "ℌ", "ⅸ", "µ_ª"]
ID_CHARS = list("abcXYZ_019") + ["µ", "ª", "ﬁ", "ｘ", "ſ", "ǆ", "𝐱", "K", "Å", "é", "日", "ß", "ℌ", "ⅸ", "ö", "ǅ"]


def rand_identifier(rng):
    import keyword

    for _ in range(50):
        s = "".join(rng.choice(ID_CHARS) for _ in range(rng.randint(1, 6)))
        if s.isidentifier() and not keyword.iskeyword(s) and not s.startswith("_"):
            return s
    return "x"


STR_FLAVOUR_POSITIONS = ["meta_alias", "annotated_alias", "config_alias", "forbid_extra_keys", "typeddict_key", "discriminator_field", "alias_kwargs_serializer"]


def end_to_end(pos, s, idx, flavour="plain"):
    """returns None when the property holds, else a description"""
    bad = _end_to_end(pos, s, idx, flavour)
    if os.environ.pop(SENTINEL, None) is not None:
        return "SENTINEL FIRED: schema-supplied string was executed" + (f" ({bad})" if bad else "")
    return bad


def _end_to_end(pos, s, idx, flavour="plain"):
    from mashumaro import DataClassDictMixin, field_options
    from mashumaro.codecs.basic import BasicDecoder, BasicEncoder
    from mashumaro.config import BaseConfig
    from mashumaro.types import Alias, Discriminator

    os.environ.pop(SENTINEL, None)
    name = f"C16_{idx}"
    sk = s      # the string as the SCHEMA supplies it
    if flavour == "strenum":
        # a member of a str-based enum (the usual way to keep key constants): a str whose repr is not a literal
        import enum

        sk = enum.Enum(name + "_K", {"M": s}, type=str).M
        assert isinstance(sk, str) and sk == s

    def mk(ann, ns_extra=None, cfg=None):
        ns = {"__annotations__": ann, **(ns_extra or {})}
        ns["Config"] = type("Config", (BaseConfig,), cfg or {})
        cls = type(name, (DataClassDictMixin,), ns)
        cls.__module__ = __name__
        globals()[name] = cls
        return dataclasses.dataclass(cls)

    try:
        if pos in ("meta_alias", "annotated_alias", "config_alias", "forbid_extra_keys"):
            cfg = {"serialize_by_alias": True}
            if pos == "meta_alias":
                cls = mk({"a": int}, {"a": dataclasses.field(metadata=field_options(alias=sk))}, cfg)
            elif pos == "annotated_alias":
                cls = mk({"a": typing.Annotated[int, Alias(sk)]}, None, cfg)
            elif pos == "config_alias":
                cls = mk({"a": int}, None, {**cfg, "aliases": {"a": sk}})
            else:
                cls = mk({"a": int}, {"a": dataclasses.field(metadata=field_options(alias=sk))}, {**cfg, "forbid_extra_keys": True})
            d = cls(5).to_dict()
            if list(d.keys()) != [s]:
                return f"to_dict key is {list(d.keys())!r}, expected [{s!r}]"
            if cls.from_dict({s: 7}).a != 7:
                return "from_dict did not read the alias key"
            if pos == "forbid_extra_keys":
                from mashumaro.exceptions import ExtraKeysError

                try:
                    cls.from_dict({s: 1, s + "_": 2})
                    return "extra key not reported"
                except ExtraKeysError as e:
                    if set(e.extra_keys) != {s + "_"}:
                        return f"extra keys {e.extra_keys!r}"
        elif pos == "alias_kwargs_serializer":
            # the serializer that fills the result key by key (a nullable converted member, omit_none, omit_default)
            for cfg in ({"serialize_by_alias": True}, {"serialize_by_alias": True, "omit_none": True}, {"serialize_by_alias": True, "omit_default": True}):
                cls = mk({"a": int, "y": typing.Optional[bytes]}, {"a": dataclasses.field(metadata=field_options(alias=sk)), "y": None}, cfg)
                d = cls(5).to_dict()
                exp = {s: 5} if (cfg.get("omit_none") or cfg.get("omit_default")) else {s: 5, "y": None}
                if s != "y" and (d != exp or list(d.keys())[0] != s):
                    return f"to_dict gives {d!r}, expected {exp!r} ({cfg})"
                if s != "y" and cls.from_dict(d) != cls(5):
                    return f"round trip of {d!r} ({cfg})"
        elif pos == "typeddict_key":
            td = typing.TypedDict("TD16", {sk: int, "other": typing.NotRequired[int]})
            r = BasicEncoder(td).encode({s: 3})
            if r != {s: 3}:
                return f"TypedDict encoded as {r!r}"
            r = BasicDecoder(td).decode({s: "4"})
            if r != {s: 4}:
                return f"TypedDict decoded as {r!r}"
            td2 = typing.TypedDict("TD16b", {"k": int, sk: typing.NotRequired[int]})
            if BasicDecoder(td2).decode({"k": 1, s: "2"}) != ({"k": 1, s: 2} if s != "k" else {"k": 2}):
                return "optional TypedDict key not handled as data"
        elif pos == "discriminator_field":
            base = mk({}, None, {"discriminator": Discriminator(field=sk, include_subtypes=True)})
            sub = type(name + "_S", (base,), {"__annotations__": {"x": int}, s: "tagS"} if s.isidentifier() or True else {})
            sub.__module__ = __name__
            globals()[name + "_S"] = sub
            sub = dataclasses.dataclass(sub)
            if s != "x":
                r = base.from_dict({s: "tagS", "x": 1})
                if type(r) is not sub or r.x != 1:
                    return f"discriminated as {r!r}"
                from mashumaro.exceptions import MissingDiscriminatorError

                try:
                    base.from_dict({"x": 1})
                    return "missing discriminator not reported"
                except MissingDiscriminatorError as e:
                    if e.field_name != s:
                        return f"MissingDiscriminatorError names {e.field_name!r}"
        elif pos in ID_POSITIONS:
            import collections

            nt = collections.namedtuple(name + "_NT", [s, "other"])
            nt.__module__ = __name__
            globals()[name + "_NT"] = nt
            if pos == "namedtuple_key":
                cls = mk({"p": nt}, None, {"namedtuple_as_dict": True})
            else:
                cls = mk({"p": nt}, {"p": dataclasses.field(metadata=field_options(serialize="as_dict", deserialize="as_dict"))}, None)
            d = cls(nt(1, 2)).to_dict()
            if d != {"p": {s: 1, "other": 2}} or list(d["p"].keys()) != [s, "other"]:
                return f"namedtuple as dict serialized as {d!r}, expected key {s!r}"
            r = cls.from_dict({"p": {s: 3, "other": 4}})
            if tuple(r.p) != (3, 4):
                return f"namedtuple as dict deserialized as {r!r}"
            enc = BasicEncoder(cls).encode(cls(nt(5, 6)))
            if enc != {"p": {s: 5, "other": 6}}:
                return f"codec: namedtuple as dict serialized as {enc!r}"
            # the same member names in a namedtuple WITH defaults (another reading path)
            ntd = collections.namedtuple(name + "_NTD", [s, "other"], defaults=[9])
            ntd.__module__ = __name__
            globals()[name + "_NTD"] = ntd
            try:
                if pos == "namedtuple_key":
                    cls2 = mk({"p": ntd}, None, {"namedtuple_as_dict": True})
                else:
                    cls2 = mk({"p": ntd}, {"p": dataclasses.field(metadata=field_options(serialize="as_dict", deserialize="as_dict"))}, None)
                d = cls2(ntd(1)).to_dict()
                if d != {"p": {s: 1, "other": 9}}:
                    return f"namedtuple (defaults) as dict serialized as {d!r}"
                r = cls2.from_dict(d)
                if tuple(r.p) != (1, 9):
                    return f"namedtuple (defaults) as dict deserialized as {r!r}"
                r = cls2.from_dict({"p": {s: 3}})
                if tuple(r.p) != (3, 9):
                    return f"namedtuple (defaults), key {s!r} only, deserialized as {r!r}"
            finally:
                globals().pop(name + "_NTD", None)
        elif pos == "literal_str":
            t = typing.Literal[(s, "other")]
            if BasicDecoder(t).decode(s) != s or BasicEncoder(t).encode(s) != s:
                return "Literal[str] round trip"
        elif pos == "literal_enum_member_name":
            # member names of a functional-API enum are arbitrary strings; a Literal of such a member must still
            # be matched by value and rebuilt as that member
            import enum

            try:
                en = enum.Enum(name + "_E", {s: 1, "other": 2})
                member = en[s]
            except Exception:
                return None        # the enum itself rejects this name: not a mashumaro matter
            en.__module__ = __name__
            globals()[name + "_E"] = en
            try:
                t = typing.Literal[(member,)]
                cls = mk({"p": t})
                r = cls.from_dict({"p": 1})
                if r.p is not member:
                    return f"Literal[enum member named {s!r}] decoded as {r.p!r}"
                if cls(member).to_dict() != {"p": 1}:
                    return f"Literal[enum member named {s!r}] encoded as {cls(member).to_dict()!r}"
                if BasicDecoder(t).decode(1) is not member:
                    return "codec: Literal[enum member] round trip"
            finally:
                globals().pop(name + "_E", None)
        elif pos == "literal_bytes":
            b = s.encode("utf-8", "surrogatepass")
            t = typing.Literal[(b,)]
            import base64

            w = base64.encodebytes(b).decode()
            if BasicEncoder(t).encode(b) != w or BasicDecoder(t).decode(w) != b:
                return "Literal[bytes] round trip"
    except Exception as e:  # noqa
        return f"{type(e).__name__}: {e}"[:240]
    finally:
        globals().pop(name, None)
        globals().pop(name + "_S", None)
        globals().pop(name + "_NT", None)
    return None


def e2e_cases(ctx, n):
    rng = ctx.rng
    fixed = [(p, s) for p in POSITIONS for s in PAYLOADS]
    rand = [(rng.choice(POSITIONS), rand_string(rng)) for _ in range(n)]
    fixed += [(p, s) for p in ID_POSITIONS for s in ID_FIXED]
    rand += [(rng.choice(ID_POSITIONS), rand_identifier(rng)) for _ in range(max(20, n // 8))]
    flav = [(p, s, "strenum") for p in STR_FLAVOUR_POSITIONS for s in ("foo", "it's", "", "a\\b")]
    flav += [(p, s, "strenum") for p, s in rand if p in STR_FLAVOUR_POSITIONS and rng.random() < 0.2]
    for pos, s, fl in [(p, s, "plain") for p, s in fixed + rand] + flav:
        case = {"position": pos, "string": s}
        if fl != "plain":
            case["flavour"] = fl
        if pos == "discriminator_field" and "\x00" in s:
            continue   # a NUL in an attribute name cannot be put into a class namespace: not a mashumaro matter
        ctx.count(case, not (s.isascii() and s.replace("_", "a").isalnum()), kind=f"pos:{pos}" + ("" if fl == "plain" else ":" + fl))
        bad = end_to_end(pos, s, ctx.evaluations, fl)
        if bad:
            ctx.violation(case, {"observed": bad}, "class builds and the key/value used is exactly s; sentinel never fires", "schema-supplied string not treated as data",
                          lambda f: f["id"] == "K14" and s == "" and pos in ("meta_alias", "annotated_alias", "config_alias", "forbid_extra_keys"))


def run(ctx):
    ctx.rule = RULE
    ctx.lean_check("Mashu.Props.C16", THEOREMS, extra_targets=["Mashu.Dispatch"])
    ctx.extra["splice_sites"] = getattr(ctx, "tables", {}).get("spliceSites")
    # a site that no longer applies repr: search the implementation at that position first
    n = 4 if ctx.tier == "quick" else 40
    for _ in range(n):
        if ctx.time_left() < 30:
            break
        repr_cases(ctx, 1500)
        lexer_cases(ctx, 1500)
        e2e_cases(ctx, 400)


def replay(ctx, body):
    c = body["case"]
    if "position" in c:
        bad = end_to_end(c["position"], c["string"], 0, c.get("flavour", "plain"))
        ctx.count(c, True)
        if bad:
            ctx.violation(c, {"observed": bad}, "class builds and the key/value used is exactly s", "schema-supplied string not treated as data", lambda f: False)
    return ctx.finish()
