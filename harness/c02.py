"""C02 — serialization emits exactly the documented basic form.

Theorems: Mashu.pack_basic (total + only basic types, by structural induction over the type
grammar), packer_order_pinned, format_dialects_pinned (regenerated tables).
Tie: real to_dict / BasicEncoder.encode vs. the model's `pack` (implementation mode) and vs.
the reference mode (union member chosen by conformance), plus json.dumps of every result.
"""
from __future__ import annotations

import json

from . import corelib, gen
from . import schema as S

THEOREMS = ["Mashu.pack_basic", "Mashu.packIdx_basic", "Mashu.packFields_basic", "Mashu.packer_order_pinned", "Mashu.format_dialects_pinned"]

RULE = (
    "type-directed generation: schema drawn from the grammar (depth<=3 quick / 4 thorough, width<=3), one conforming value per schema; "
    "a case is non-trivial when the schema has at least one container/dataclass/union/leaf node; distinct = distinct (schema, value, entry, dialect)"
)


def is_basic(x) -> bool:
    t = type(x)
    if x is None or t in (bool, int, float, str):
        return True
    if t is list:
        return all(is_basic(e) for e in x)
    if t is dict:
        return all(is_basic(k) and is_basic(v) for k, v in x.items())
    return False


CORPUS = [
    # README-style examples and witnesses of past findings
    (["dc", "C1", {}, [[{"name": "x", "alias": None, "default": None, "init": True, "omit": False}, ["coll", "list", ["leaf", "datetime"]]], [{"name": "y", "alias": "yy", "default": ["some", None], "init": True, "omit": False}, ["opt", ["map", "dict", "str", ["leaf", "uuid"]]]]]],
     ["inst", "C1", [["x", ["coll", "list", [["leaf", "datetime", "datetime.datetime(2024, 11, 12, 13, 14, 15)"]]]], ["y", None]]]),
    (["leaf", "timezone"], ["leaf", "timezone", "datetime.timezone(datetime.timedelta(days=-1, seconds=84600))"]),
    (["leaf", "bytes"], ["leaf", "bytes", repr(bytes(range(70)))]),
    (["chain", "str", "int"], ["coll", "chainmap", [["map", "dict", [[["s", "a"], ["i", "1"]]]], ["map", "dict", [[["s", "a"], ["i", "2"]], [["s", "b"], ["i", "3"]]]]]]),
    (["union", [["coll", "deque", "float"], ["chain", "str", ["leaf", "ipv6addr"]], "int"]], ["coll", "chainmap", [["map", "dict", [[["s", "k"], ["leaf", "ipv6addr", "IPv6Address('::1')"]]]]]]),
    (["union", ["bool", ["leaf", "uuid"], ["coll", "set", "str"]]], ["coll", "set", [["s", "a"]]]),
    (["nt", "N1", [["a", "int"], ["b", ["opt", ["leaf", "date"]]]], [None], None], ["nt", "N1", [["i", "3"], ["leaf", "date", "datetime.date(2024, 11, 12)"]]]),
]


def nontrivial(ty) -> bool:
    return not isinstance(ty, str)


def constant_member(ty):
    """a union with a dataclass member all of whose fields are Tuple[()] : its packer is the constant {'f': []}, which
    never looks at the value, so this member serializes ANY value meant for a later member (the extreme case of the
    permissive packers of finding K10).  The Lean model packs a dataclass only from an instance; such schemas are
    outside what it reproduces."""
    for n in S.ty_nodes(ty):
        if (not isinstance(n, str)) and n[0] == "union":
            for mem in n[1]:
                if (not isinstance(mem, str)) and mem[0] == "dc" and mem[3] and all(ft == ["tfix", []] for _fd, ft in mem[3]):
                    return True
    return False


def k10_signature(ty, info):
    """finding K10: the union packer tries members in order; a permissive earlier member
    accepts a value meant for a later one.  Signature: schema contains a union, the model in
    implementation mode reproduces the implementation's result, the reference mode differs."""
    has_union = any((not isinstance(n, str)) and n[0] == "union" for n in S.ty_nodes(ty))
    return has_union and (info.get("impl_model_agrees") or constant_member(ty)) and not info.get("spec_agrees")


def run_stream(ctx, cases, dialect_name=None, annot=False):
    """cases: list of (ty, value, entry).  Runs implementation and model, records verdicts."""
    lines = []
    metas = []
    dialect = None
    native = set()
    nocopy = set()
    if dialect_name:
        fd = [d for d in ctx.tables["formatDialects"] if d["name"] == dialect_name][0]
        kind_of = {"datetime": "datetime", "date": "date", "time": "time", "UUID": "uuid", "bytes": "bytes", "bytearray": "bytearray"}
        native = {kind_of[s[0]] for s in fd["strategy"] if s[1] == "pass" and s[0] in kind_of}
        nocopy = set(fd["noCopy"])
        import importlib

        modname = {"OrjsonDialect": "mashumaro.mixins.orjson", "MessagePackDialect": "mashumaro.mixins.msgpack", "TOMLDialect": "mashumaro.mixins.toml"}[dialect_name]
        dialect = getattr(importlib.import_module(modname), dialect_name)
    for ty, value, entry in cases:
        reg = S.Reg(mixin=(entry == "mixin"))
        reg.annot = annot
        try:
            if dialect is None:
                out, r, viter = corelib.real_pack(ty, value, reg, entry)
            else:
                out, r, viter = real_pack_dialect(ty, value, reg, dialect)
            oracle = S.build_oracle(ty, [viter], reg, "pack", getattr(reg, "objmap", None))
            mty = ty
            if dialect_name == "TOMLDialect":
                mty = with_cfg(ty, {"omit_none": True})
            base = {"op": "pack", "ty": mty, "value": viter, "oracle": oracle, "nailed": entry == "mixin", "pass_leaves": sorted(native), "no_copy_list": "list" in nocopy, "no_copy_dict": "dict" in nocopy}
            lines.append(base)
            lines.append({**base, "fixK10": True})
            metas.append((ty, viter, entry, out, r, reg))
        finally:
            reg.close()
    outs = ctx.model(lines)
    for i, (ty, value, entry, out, r, reg) in enumerate(metas):
        case = {"ty": ty, "value": value, "entry": entry, "dialect": dialect_name}
        if annot:
            case["annot"] = annot
            ctx.bump("annotated-wrapper cases")
        ctx.count(case, nontrivial(ty), kind=f"root:{gen.tag_of(ty)}")
        ctx.bump(f"depth:{gen.depth_of(ty)}")
        m_impl = outs[2 * i] if outs else None
        m_spec = outs[2 * i + 1] if outs else None
        if "build_error" in out:
            ctx.bump("build_error")
            ctx.violation(case, out, "class / codec builds for a supported schema", "schema does not build", lambda f: f["id"] in ("K6", "K11") and ("mappingproxy" in out["build_error"]))
            continue
        info = {}
        if outs:
            info["impl_model_agrees"] = corelib.compare(m_impl, out, reg)[0]
            info["spec_agrees"] = corelib.compare(m_spec, out, reg)[0]
        # direct predicate on the implementation
        if "err" in out:
            ctx.bump("impl_raised")
            ctx.violation(case, out, "serializing a conforming value returns", "serializer raised on a conforming value", lambda f: f["id"] == "K10" and k10_signature(ty, info))
            continue
        native_ok = True
        if not native:
            if not is_basic(r):
                ctx.violation(case, out, "only str/int/float/bool/None/list/dict", "result contains a non-basic object", lambda f: f["id"] == "K10" and k10_signature(ty, info))
                continue
            try:
                json.dumps(r)
            except Exception as e:
                ctx.violation(case, {"json.dumps": repr(e), **out}, "json.dumps accepts the result", "result not accepted by the standard json encoder", lambda f: False)
                continue
        if outs is None:
            continue
        if not info["spec_agrees"]:
            # differs from the documented rendering (reference mode of the model)
            ctx.violation(case, {"impl": out, "reference": m_spec}, "encode(v) == REF_ENCODE(S, v)", "result differs from the documented basic form", lambda f: f["id"] == "K10" and k10_signature(ty, info))
        if not info["impl_model_agrees"]:
            if constant_member(ty):
                ctx.bump("constant dataclass member in a union (outside the model's dataclass packer)")
            else:
                ctx.disagreement(case, m_impl, out, "pack")


def with_cfg(ty, extra):
    def f(n):
        if isinstance(n, list) and n[0] == "dc":
            return ["dc", n[1], {**n[2], **extra}, n[3]]
        return n

    return S.map_ty(ty, f)


def real_pack_dialect(ty, value, reg, dialect):
    from mashumaro.codecs.basic import BasicEncoder

    try:
        ann = S.realize(ty, reg)
        obj = S.from_v(value, reg)
    except Exception as e:
        return {"build_error": f"{type(e).__name__}: {e}"[:300]}, None, value
    viter = S.canon(obj, reg, iter_order=True)
    try:
        r = BasicEncoder(ann, default_dialect=dialect).encode(obj)
        return {"ok": S.canon(r, reg)}, r, viter
    except Exception as e:
        return {"err": corelib.exc_outcome(e, reg)}, None, viter


def gen_cases(ctx, n, depth):
    cases = []
    for _ in range(n):
        g = gen.G(ctx.rng, max_depth=depth)
        ty = g.ty()
        entry = "codec"
        if isinstance(ty, list) and ty[0] == "dc" and ctx.rng.random() < 0.6:
            entry = "mixin"
        cases.append((ty, g.val(ty), entry))
    return cases


def run(ctx):
    ctx.rule = RULE
    ctx.lean_check("Mashu.Props.C02", THEOREMS, extra_targets=["Mashu.Dispatch"])
    n, depth = (2500, 3) if ctx.tier == "quick" else (40000, 4)
    corpus = [(ty, v, "codec") for ty, v in CORPUS]
    run_stream(ctx, corpus)
    from . import decode

    for mode, cs in decode.fixed_corpus(ctx, key="value").items():
        run_stream(ctx, [(t, v, e) for t, v, e, _o in cs], annot=mode)
    done = 0
    chunk = 2500
    while done < n and ctx.time_left() > 30:
        k = min(chunk, n - done)
        run_stream(ctx, gen_cases(ctx, k, depth))
        done += k
    # the same generator with every annotation wrapped in Annotated[..., metadata]
    na = 600 if ctx.tier == "quick" else 8000
    for mode in S.WRAP_MODES:
        if ctx.time_left() > 30:
            run_stream(ctx, gen_cases(ctx, na // 2 if mode is not True else na, depth), annot=mode)
    # format dialects: same generator, dialect handed to the basic codec
    nd = 500 if ctx.tier == "quick" else 8000
    for dn in ("OrjsonDialect", "MessagePackDialect", "TOMLDialect"):
        if ctx.time_left() < 20:
            break
        cs = [(ty, v, "codec") for ty, v, _e in gen_cases(ctx, nd, depth)]
        run_stream(ctx, cs, dialect_name=dn)
    ctx.assumptions += [
        "leaf printers (isoformat, total_seconds, tzname, str, __fspath__, pattern, encodebytes) are the stdlib's; the model calls them through the oracle table computed by the harness without mashumaro",
        "the theorem covers the fragment Frag (no union / unpacked tuple / TypedDict); those constructs are covered by the correspondence only (unions: Props/C11)",
    ]


def replay(ctx, body):
    case = body["case"]
    ctx.lean_ok = True
    run_stream(ctx, [(case["ty"], case["value"], case.get("entry", "codec"))], dialect_name=case.get("dialect"), annot=case.get("annot", False))
    return ctx.finish()
