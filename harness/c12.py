"""C12 — discriminated unions pick exactly the tagged class in any definition order.

Theorems (Props/C12.lean): decode_correct (every history of define / decode events, invariant
RegInv on the variants map), noField_first / noField_none (no-field mode: the first variant in
"subclasses depth-first, then supertype" order that accepts), eligible_mono.
Tie: generated histories (<= 40 events, <= 12 classes, chains >= 3 levels deep, classes defined
after the first call / after the decoder or the holder class was created) are replayed on real
classes through Config.discriminator, an Annotated[...] field of a holder dataclass and
BasicDecoder, with mixin and plain dataclass variants; type() of every returned object / the
error kind is compared with the model's state machine (correspondence) and with the statement
(`spec` / `noField`), event by event.
"""
from __future__ import annotations

import os

import dataclasses
import gc
import typing

THEOREMS = [
    "Mashu.Discr.decode_correct",
    "Mashu.Discr.decode_correct_init",
    "Mashu.Discr.step_decode_correct",
    "Mashu.Discr.eligible_mono",
    "Mashu.Discr.noField_first",
    "Mashu.Discr.noField_none",
    "Mashu.DiscrF.step_inv",
    "Mashu.DiscrF.history_own",
    "Mashu.DiscrF.runAt_eq",
    "Mashu.DiscrF.multi_format_correct",
    "Mashu.DiscrF.shared_registry_runs_parent_method",
    "Mashu.DiscrF.per_format_registry_ok",
    "Mashu.DiscrF.registry_pinned",
    "Mashu.Discr.scan_order_is_preorder",
    "Mashu.Discr.mem_eligible",
]
RULE = (
    "history = interleaving of 'define class (parent, own tag or none)', 'create holder/decoder for root r' and 'decode input tagged t at root r' events; "
    "entry: Config.discriminator (from_dict on any class of the hierarchy), Annotated field of a holder dataclass, BasicDecoder; variants: mixin or plain dataclasses; "
    "tags: own default, inherited only (no own tag), tagger function; t drawn from present tags, tags of classes defined later, unknown tags, missing key; "
    "Config mode also through the orjson / msgpack / json mixins with decode events alternating between from_dict and from_json / from_msgpack; tagger histories with a second discriminated field using another tagger function in the same holder; "
    "non-trivial = the history defines a class after the first decode at a root that can see it, or the hierarchy is >= 3 levels deep"
)

MODES = ["config", "ann_mixin", "ann_plain", "codec_mixin", "codec_plain"]


class World:
    """real classes for one history"""

    def __init__(self, mode, field, sub, sup, tagger, idx, flavour="dict", two_taggers=False):
        from mashumaro import DataClassDictMixin
        from mashumaro.config import BaseConfig
        from mashumaro.types import Discriminator

        self.mode, self.field, self.sub, self.sup, self.tagger, self.idx = mode, field, sub, sup, tagger, idx
        self.cls = {}
        self.ids = {}
        self.entry = {}
        self.flavour = flavour
        self.two_taggers = two_taggers
        if flavour == "orjson":
            from mashumaro.mixins.orjson import DataClassORJSONMixin as M
        elif flavour == "msgpack":
            from mashumaro.mixins.msgpack import DataClassMessagePackMixin as M
        elif flavour == "json":
            from mashumaro.mixins.json import DataClassJSONMixin as M
        else:
            M = DataClassDictMixin
        self.mixin = M
        self.BaseConfig = BaseConfig
        kw = {"include_subtypes": sub, "include_supertypes": sup}
        if field:
            kw["field"] = "type"
            if tagger:
                kw["variant_tagger_fn"] = lambda c: c.__dict__.get("_tag_", "untagged-" + c.__name__)
        self.discr = Discriminator(**kw)
        # a second discriminator of the same holder class with ANOTHER tagger function (never matched
        # by the inputs: its field stays at its default)
        self.discr_alt = Discriminator(**{**kw, "variant_tagger_fn": lambda c: "alt-" + c.__name__}) if (field and tagger and two_taggers) else None

    def define(self, i, parent, tag, req, cfg=False):
        ns = {"__annotations__": {}}
        if tag is not None:
            if self.tagger:
                ns["_tag_"] = tag
            ns["__annotations__"]["type"] = str
            ns["type"] = tag
        if req:
            ns["__annotations__"][f"f{i}"] = int
        # a member of its own for every class: a result built by a method compiled for another
        # class of the chain would not have read it
        ns["__annotations__"][f"g{i}"] = int
        ns[f"g{i}"] = 0
        bases = (self.cls[parent],) if parent is not None else ((self.mixin,) if self.mode in ("config", "ann_mixin", "codec_mixin") else ())
        if (parent is None or cfg) and self.mode == "config":
            ns["Config"] = type("Config", (self.BaseConfig,), {"discriminator": self.discr})
        name = f"W{self.idx}_C{i}"
        c = type(name, bases, ns)
        c.__module__ = __name__
        globals()[name] = c
        c = dataclasses.dataclass(c, kw_only=True) if req or True else dataclasses.dataclass(c)
        self.cls[i] = c
        self.ids[c] = i

    def bystander(self, n):
        """an UNRELATED mixin hierarchy whose Config uses the very same Discriminator object"""
        ns = {"__annotations__": {}, "Config": type("Config", (self.BaseConfig,), {"discriminator": self.discr})}
        from mashumaro import DataClassDictMixin

        name = f"W{self.idx}_B{n}"
        c = type(name, (DataClassDictMixin,), ns)
        c.__module__ = __name__
        globals()[name] = c
        dataclasses.dataclass(c)

    def make(self, root):
        """the holder class / decoder for decoding at `root`"""
        if root in self.entry:
            return
        from mashumaro.codecs.basic import BasicDecoder

        c = self.cls[root]
        if self.mode == "config":
            def entry(d, fmt="dict", c=c):
                if fmt == "dict":
                    return c.from_dict(d)
                if fmt == "json":
                    import json

                    return c.from_json(json.dumps(d))
                import msgpack

                return c.from_msgpack(msgpack.packb(d))

            self.entry[root] = entry
        elif self.mode.startswith("ann"):
            name = f"W{self.idx}_H{root}"
            ann, ns = {}, {}
            if self.discr_alt is not None:
                ann["y"] = typing.Optional[typing.Annotated[c, self.discr_alt]]
            ann["x"] = typing.Annotated[c, self.discr]
            ns["__annotations__"] = ann
            if self.discr_alt is not None:
                ns["y"] = None
            h = type(name, (self.mixin,), ns)
            h.__module__ = __name__
            globals()[name] = h
            h = dataclasses.dataclass(h, kw_only=True)
            self.entry[root] = lambda d: h.from_dict({"x": d}).x
        else:
            dec = BasicDecoder(typing.Annotated[c, self.discr])
            self.entry[root] = dec.decode

    def decode(self, root, d, fmt="dict"):
        from mashumaro.exceptions import InvalidFieldValue, MissingDiscriminatorError, MissingField, SuitableVariantNotFoundError

        self.make(root)
        try:
            r = self.entry[root](d) if fmt == "dict" else self.entry[root](d, fmt)
        except InvalidFieldValue as e:
            c = e.__context__ if e.__cause__ is None else e.__cause__
            if isinstance(c, MissingDiscriminatorError):
                return "missing"
            if isinstance(c, SuitableVariantNotFoundError):
                return "novariant"
            if isinstance(c, MissingField):
                return f"missingfield:{c.field_name}"
            if type(c) is ValueError and "should be a dict instance" in str(c):
                return "notadict"
            return f"error:{type(c).__name__}:{c}"[:160]
        except MissingField as e:
            return f"missingfield:{e.field_name}"
        except MissingDiscriminatorError:
            return "missing"
        except SuitableVariantNotFoundError:
            return "novariant"
        except ValueError as e:
            if type(e) is ValueError and "should be a dict instance" in str(e):
                return "notadict"
            return f"error:ValueError:{e}"[:160]
        except Exception as e:  # noqa
            return f"error:{type(e).__name__}:{e}"[:160]
        i = self.ids.get(type(r))
        if i is not None:
            lost = [a for a in self.ids.values() if isinstance(r, self.cls[a]) and getattr(r, f"g{a}", None) != 7]
            if lost:
                return f"error:instance of C{i} whose members {['g%d' % a for a in sorted(lost)]} were not read from the input"
        return f"inst:{i}" if i is not None else f"error:returned {type(r).__name__}"

    def close(self):
        for k in [k for k in globals() if k.startswith(f"W{self.idx}_")]:
            del globals()[k]
        self.cls.clear()
        self.ids.clear()
        self.entry.clear()


def gen_history(rng, tier):
    mode = rng.choice(MODES)
    field = rng.random() < 0.7
    if mode == "config":
        sub, sup = True, False
    else:
        sub, sup = rng.choice([(True, False), (True, True), (True, True), (False, True)])
    tagger = field and rng.random() < 0.15
    flavour = rng.choice(["dict", "dict", "orjson", "orjson", "msgpack", "json"]) if mode == "config" else "dict"
    fmts = {"dict": ["dict"], "orjson": ["dict", "json"], "json": ["dict", "json"], "msgpack": ["dict", "msgpack"]}[flavour]
    two_taggers = bool(tagger and mode.startswith("ann") and rng.random() < 0.6)
    ncls = rng.randint(2, 12)
    nev = rng.randint(6, 40)
    dup = rng.random() < 0.12
    events = [{"d": [0, None, rng.choice([None, "t0"])], "req": False}]
    parents = {0: None}
    depth = {0: 0}
    tags = {}
    if events[0]["d"][2]:
        tags[0] = "t0"
    future = [f"t{i}" for i in range(1, ncls)]
    deep_bias = rng.random() < 0.6
    roots = [0]
    for _ in range(nev):
        r = rng.random()
        nxt = len(parents)
        if r < 0.35 and nxt < ncls:
            if deep_bias and rng.random() < 0.6:
                p = max(parents, key=lambda i: (depth[i], i))
            else:
                p = rng.choice(list(parents))
            x = rng.random()
            if x < 0.22:
                t = None
            elif dup and tags and x < 0.5:
                t = rng.choice(list(tags.values()))
            else:
                t = f"t{nxt}"
            req = rng.random() < (0.7 if not field else 0.3)   # a required member f<i> of its own
            # Config.discriminator dispatches only on classes that declare the Config themselves
            # and such a class only dispatches to its strict subclasses (include_supertypes is not
            # available at class level), so it is generated as an untagged intermediate root
            cfg = mode == "config" and field and rng.random() < 0.3
            if cfg:
                roots.append(nxt)
                t = None
            events.append({"d": [nxt, p, t], "req": req, "cfg": cfg})
            parents[nxt] = p
            depth[nxt] = depth[p] + 1
            if t:
                tags[nxt] = t
        elif r < 0.45:
            if mode != "config" and sub and rng.random() < 0.35:
                # the Discriminator object is also used by the Config of an unrelated class (no effect expected)
                events.append({"b": len(events)})
            else:
                events.append({"m": rng.choice(roots if mode == "config" else list(parents))})
        else:
            if rng.random() < 0.5:
                root = 0
            else:
                root = rng.choice(roots if mode == "config" else list(parents))
            if mode != "config" and rng.random() < 0.7:
                # decode mostly at one or two roots so that caches are revisited
                root = rng.choice([0, min(1, len(parents) - 1)])
            x = rng.random()
            if x < 0.55 and tags:
                t = rng.choice(list(tags.values()))
            elif x < 0.8 and future:
                t = rng.choice(future)
            elif x < 0.86:
                t = "unknown"
            elif x < 0.9 and field:
                t = rng.choice(["__nonmapping__", "__unhashable__"])   # not a mapping at all / a tag that cannot be a dict key
            else:
                t = None
            ev = {"q": [root, t], "fields": sorted(rng.sample(range(ncls), rng.randint(0, ncls)))}
            if len(fmts) > 1:
                ev["fmt"] = rng.choice(fmts)
            events.append(ev)
    h = {"mode": mode, "field": field, "sub": sub, "sup": sup, "tagger": tagger, "events": events}
    if flavour != "dict":
        h["flavour"] = flavour
    if two_taggers:
        h["two_taggers"] = True
    return h


def model_tag(h, d):
    """own tag as the model sees it: with a tagger function every class is tagged"""
    i, p, t = d
    if h["tagger"]:
        return t if t is not None else f"untagged-C{i}"
    return t


def chain(parents, i):
    out = []
    while i is not None:
        out.append(i)
        i = parents[i]
    return out


def _fmt_key(h, e):
    """which compiled methods / variants registry a decode event uses: with the stdlib JSON mixin from_json is
    json.loads + from_dict, i.e. the SAME format as from_dict"""
    f = e.get("fmt", "dict")
    return "dict" if (f == "json" and h.get("flavour") == "json") else f


def real_history(ctx, h, idx):
    """replays one history on real classes; returns the record to be judged, or None"""
    w = World(h["mode"], h["field"], h["sub"], h["sup"], h["tagger"], idx, h.get("flavour", "dict"), h.get("two_taggers", False))
    real = []
    lines = []
    classes = []  # [id, parent, modeltag]
    parents, reqs = {}, {}
    first_decode = {}
    late, maxdepth = False, 0
    fmt_index = {"dict": 0, "json": 0 if h.get("flavour") == "json" else 1, "msgpack": 1}
    meth = {0: "__mashumaro_from_dict__", 1: "__mashumaro_from_dict_json__" if h.get("flavour") == "orjson" else "__mashumaro_from_dict_msgpack__"}
    own_trace = []
    try:
        for k, e in enumerate(h["events"]):
            if "d" in e:
                i, p, t = e["d"]
                w.define(i, p, t, e.get("req", False), e.get("cfg", False))
                classes.append([i, p, model_tag(h, e["d"]) if h["field"] else t])
                parents[i] = p
                reqs[i] = e.get("req", False)
                maxdepth = max(maxdepth, len(chain(parents, i)) - 1)
                if any(r in chain(parents, i)[1:] or (r == i) for r in first_decode):
                    late = True
            elif "b" in e:
                w.bystander(e["b"])
            elif "m" in e:
                w.make(e["m"])
            else:
                root, t = e["q"]
                first_decode.setdefault(root, k)
                d = {}
                if t == "__unhashable__":
                    d["type"] = ["t1"]
                elif t is not None:
                    d["type"] = t
                for f in e["fields"]:
                    d[f"f{f}"] = f
                for a in parents:
                    d[f"g{a}"] = 7
                if t == "__nonmapping__":
                    real.append(w.decode(root, [("type", "t1")], "dict"))
                else:
                    real.append(w.decode(root, dict(d), e.get("fmt", "dict")))
                if not h["field"]:
                    # a variant accepts when every required field of its chain is present
                    acc = [c[0] for c in classes if all((not reqs[a]) or f"f{a}" in d for a in chain(parents, c[0]))]
                    lines.append({"op": "discrnf", "classes": [list(c) for c in classes], "root": root, "subtypes": h["sub"], "supertypes": h["sup"], "accepts": acc})
            if h["mode"] == "config" and "m" not in e and "b" not in e and not ("q" in e and e["q"][1] in ("__nonmapping__", "__unhashable__")):
                own_trace.append(sorted([i, fi] for i, c in w.cls.items() for fi, name in meth.items() if name in c.__dict__))
    except Exception as e:  # noqa
        w.close()
        case = {"history": h}
        ctx.count(case, False, kind="build-error")
        ctx.violation(case, {"error": f"{type(e).__name__}: {e}"[:300]}, "classes / decoders build", "history could not be replayed", lambda f: False)
        return None
    w.close()
    case = {"history": h}
    ctx.count(case, late or maxdepth >= 3, kind=f"mode:{h['mode']}:{'field' if h['field'] else 'nofield'}")
    ctx.bump(f"depth:{min(maxdepth, 5)}")
    ctx.bump("late-definition" if late else "all-defined-first")
    if h["tagger"]:
        ctx.bump("tagger-fn")
    fmts = sorted({_fmt_key(h, e) for e in h["events"] if "q" in e}) or ["dict"]
    if len(fmts) > 1:
        ctx.bump("multi-format history")
    if h.get("two_taggers"):
        ctx.bump("two tagger functions in one holder")
    if h["field"]:
        # every format has its own compiled methods and its own variants registry: the model is run
        # once per format on the definitions plus the queries of that format
        lines = []
        for fm in fmts:
            evs = []
            for e in h["events"]:
                if "d" in e:
                    evs.append({"d": [e["d"][0], e["d"][1], model_tag(h, e["d"])]})
                elif "q" in e and _fmt_key(h, e) == fm and e["q"][1] not in ("__nonmapping__", "__unhashable__"):
                    # (those two are rejected before the registry is consulted: not events of the registry machine)
                    evs.append({"q": e["q"]})
            lines.append({"op": "discr", "subtypes": h["sub"], "supertypes": h["sup"], "events": evs})
    rec = {"h": h, "real": real, "lines": lines, "fmts": fmts}
    if h["mode"] == "config" and h["field"]:
        # the multi-format machine (Mashu.DiscrF): outcomes with "built by whose method" and, after every
        # event, which classes have a method of their own for which format
        evs = []
        for e in h["events"]:
            if "d" in e:
                evs.append({"d": [e["d"][0], e["d"][1], model_tag(h, e["d"])]})
            elif "q" in e and e["q"][1] not in ("__nonmapping__", "__unhashable__"):
                # (rejected before the registry is consulted: not an event of the registry machine)
                evs.append({"q": [fmt_index[e.get("fmt", "dict")], e["q"][0], e["q"][1]]})
        rec["lines"] = lines + [{"op": "discrf", "subtypes": h["sub"], "supertypes": h["sup"], "events": evs}]
        rec["own_trace"] = own_trace
    return rec


def judge_formats(ctx, rec, mf):
    """state-level correspondence with Mashu.DiscrF: per event the set of (class, format) with a method
    of its own, and per decode "an instance of c built by c's own method" """
    h = rec["h"]
    case = {"history": h}
    qs = [e for e in h["events"] if "q" in e]
    reals = [r for e, r in zip(qs, rec["real"]) if e["q"][1] not in ("__nonmapping__", "__unhashable__")]
    # queries whose tag is carried by two eligible classes at that moment: the statement's "unique eligible class"
    # is not defined there (which of them a rescan leaves in the registry depends on the subclass walk order)
    ambiguous, seen = [], []
    for e in h["events"]:
        if "d" in e:
            seen.append([e["d"][0], e["d"][1], model_tag(h, e["d"])])
        elif "q" in e and e["q"][1] not in ("__nonmapping__", "__unhashable__"):
            root, t = e["q"]
            par = {c[0]: c[1] for c in seen}
            elig = [c for c in seen if (h["sub"] and root in chain(par, c[0])[1:]) or (h["sup"] and c[0] == root)]
            ambiguous.append(t is not None and sum(1 for c in elig if c[2] == t) > 1)
    for k, (o, r) in enumerate(zip(mf["outs"], reals)):
        if r.startswith("missingfield:"):
            continue   # judged against the statement in `judge`
        if k < len(ambiguous) and ambiguous[k]:
            # outside the statement ("unique eligible class"), but the model visits the variants in the order of
            # iter_all_subclasses (Discr.eligible), so model and implementation are still compared
            ctx.bump("ambiguous-tag (model vs implementation only)")
        if o.startswith("inst:"):
            _i, c, b = o.split(":")
            exp = f"inst:{c}" if c == b else "error:instance of"
            if not r.startswith(exp):
                ctx.disagreement({**case, "decode": k}, o, r, "discrf outcome")
                return
        elif o != r:
            ctx.disagreement({**case, "decode": k}, o, r, "discrf outcome")
            return
    model_trace = [sorted({(a, b) for a, b in st}) for st in mf["compiled"]]
    real_trace = [sorted({(a, b) for a, b in st}) for st in rec["own_trace"]]
    # the model lists a state per define / decode event; holder-creation events ("m") are not model events
    if len(model_trace) == len(real_trace):
        for k, (a, b) in enumerate(zip(model_trace, real_trace)):
            if [list(x) for x in a] != [list(x) for x in b]:
                ctx.disagreement({**case, "event": k}, [list(x) for x in a], [list(x) for x in b], "discrf own-method sets")
                return
        ctx.bump("own-method traces compared")
    else:
        ctx.disagreement(case, len(model_trace), len(real_trace), "discrf trace length")


def judge(ctx, rec, out):
    h, real = rec["h"], rec["real"]
    if any(o is None or "error" in o for o in out):
        ctx.obligation("model evaluates the history", False, str(out)[:300])
        return
    if "own_trace" in rec:
        judge_formats(ctx, rec, out[-1])
        out = out[:-1]
    if h["field"]:
        # merge the per-format model runs back into event order
        fmts = rec["fmts"]
        its = {fm: (iter(out[j]["impl"]), iter(out[j]["spec"])) for j, fm in enumerate(fmts)}
        impl, spec = [], []
        for e in h["events"]:
            if "q" in e:
                if e["q"][1] in ("__nonmapping__", "__unhashable__"):
                    impl.append("special")
                    spec.append("special")
                    continue
                a, b = its[_fmt_key(h, e)]
                impl.append(next(a))
                spec.append(next(b))
    else:
        impl = spec = [o["out"] for o in out]
    seen = []
    qi = 0
    for k, e in enumerate(h["events"]):
        if "d" in e:
            seen.append([e["d"][0], e["d"][1], model_tag(h, e["d"]) if h["field"] else e["d"][2]])
            continue
        if "q" not in e:
            continue
        root, t = e["q"]
        r, m, s = real[qi], impl[qi], spec[qi]
        qi += 1
        if h["field"] and t not in ("__nonmapping__", "__unhashable__"):
            # the chosen class is then deserialized like any class: a required member without a key is reported by
            # MissingField naming it (C05) — also on the very first dispatch to that tag
            par = {c[0]: c[1] for c in seen}
            reqd = {ev["d"][0] for ev in h["events"][:k] if "d" in ev and ev.get("req")}

            def _missing(x):
                if not x.startswith("inst:"):
                    return x
                need = [a for a in reversed(chain(par, int(x.split(":")[1]))) if a in reqd and a not in e["fields"]]
                return f"missingfield:f{need[0]}" if need else x

            m, s = _missing(m), _missing(s)
        if t == "__nonmapping__":
            # ValueError for a non-mapping argument (C05), whatever the registry holds
            m = s = "notadict"
        elif t == "__unhashable__":
            m = s = "novariant"
        ctx.bump("outcome:" + r.split(":")[0])
        # is the statement's "unique eligible class tagged t" well defined at this event?
        if h["field"] and t is not None:
            par = {c[0]: c[1] for c in seen}
            elig = [c for c in seen if (h["sub"] and root in chain(par, c[0])[1:]) or (h["sup"] and c[0] == root)]
            if sum(1 for c in elig if c[2] == t) > 1:
                # the statement's "unique eligible class" is undefined here: only model vs implementation
                ctx.bump("ambiguous-tag (model vs implementation only)")
                if r != m:
                    ctx.disagreement({"history": {**h, "events": h["events"][: k + 1]}, "event": k}, m, r, "discr (ambiguous tag)")
                    return
                continue
        ecase = {"history": {**h, "events": h["events"][: k + 1]}, "event": k}
        if r != s:
            kind = r.split(":")[0] + "-for-" + s.split(":")[0]
            ctx.violation(
                ecase,
                {"returned": r, "statement": s, "root": root, "tag": t, "kind": kind},
                "an instance of the eligible class carrying tag t among the classes defined so far, or the documented error",
                "discriminated union picked another class / raised another error",
                lambda f, kind=kind, h=h: f.get("mode") == h["mode"] and f.get("field") == h["field"] and f.get("kind") == kind,
            )
            return
        elif r != m:
            ctx.disagreement(ecase, m, r, "discr")
            return


def run_batch(ctx, hs, base):
    recs = [r for r in (real_history(ctx, h, base + j) for j, h in enumerate(hs)) if r]
    lines = [l for r in recs for l in r["lines"]]
    outs = ctx.model(lines)
    if outs is None:
        return
    pos = 0
    for r in recs:
        n = len(r["lines"])
        judge(ctx, r, outs[pos : pos + n])
        pos += n
    gc.collect()


def run(ctx):
    ctx.rule = RULE
    ctx.lean_check("Mashu.Props.C12", THEOREMS, extra_targets=["Mashu.Dispatch"])
    rng = ctx.rng
    # repaired defects first: their witnesses must keep passing
    corpus = [f["witness"]["history"] for f in ctx.known if f.get("status") == "fixed" and "history" in f.get("witness", {})]
    if corpus:
        run_batch(ctx, corpus, 900000)
        ctx.bump("corpus(fixed findings)", len(corpus))
    n = 1500 if ctx.tier == "quick" else 30000
    done = 0
    while done < n:
        if ctx.time_left() < 30:
            ctx.notes.append(f"stopped after {done} histories (time budget)")
            break
        run_batch(ctx, [gen_history(rng, ctx.tier) for _ in range(250)], done)
        done += 250


def replay(ctx, body):
    run_batch(ctx, [body["case"]["history"]], 0)
    return ctx.finish()
