"""Type descriptions ("wire" form shared with the Lean model), their realisation as real
Python annotations/classes, canonicalisation of Python objects to model values, the inverse,
type-directed generators, and the oracle tables (graphs of builtins / stdlib leaf functions
on the atoms of a case, computed WITHOUT going through mashumaro)."""
from __future__ import annotations

import collections
import collections.abc
import dataclasses
import datetime
import decimal
import enum
import fractions
import ipaddress
import json
import pathlib
import re
import sys
import types
import typing
import uuid
import zoneinfo
from base64 import decodebytes, encodebytes

# ---------------------------------------------------------------------------------------
# leaves
# ---------------------------------------------------------------------------------------

LEAF_TYPES = {
    "datetime": datetime.datetime,
    "date": datetime.date,
    "time": datetime.time,
    "timedelta": datetime.timedelta,
    "timezone": datetime.timezone,
    "zoneinfo": zoneinfo.ZoneInfo,
    "uuid": uuid.UUID,
    "decimal": decimal.Decimal,
    "fraction": fractions.Fraction,
    "ipv4addr": ipaddress.IPv4Address,
    "ipv6addr": ipaddress.IPv6Address,
    "ipv4net": ipaddress.IPv4Network,
    "ipv6net": ipaddress.IPv6Network,
    "ipv4if": ipaddress.IPv4Interface,
    "ipv6if": ipaddress.IPv6Interface,
    "path": pathlib.Path,
    "pattern": re.Pattern,
    "bytes": bytes,
    "bytearray": bytearray,
}
LEAF_OF_TYPE = {v: k for k, v in LEAF_TYPES.items()}
LEAF_OF_TYPE[pathlib.PosixPath] = "path"
LEAF_OF_TYPE[pathlib.PurePosixPath] = "path"

_EVAL_NS = {
    "datetime": datetime,
    "zoneinfo": zoneinfo,
    "UUID": uuid.UUID,
    "Decimal": decimal.Decimal,
    "Fraction": fractions.Fraction,
    "IPv4Address": ipaddress.IPv4Address,
    "IPv6Address": ipaddress.IPv6Address,
    "IPv4Network": ipaddress.IPv4Network,
    "IPv6Network": ipaddress.IPv6Network,
    "IPv4Interface": ipaddress.IPv4Interface,
    "IPv6Interface": ipaddress.IPv6Interface,
    "PosixPath": pathlib.PosixPath,
    "PurePosixPath": pathlib.PurePosixPath,
    "re": re,
    "bytearray": bytearray,
}

TZ = datetime.timezone
TD = datetime.timedelta

LEAF_POOL = {
    "datetime": [
        datetime.datetime(2024, 11, 12, 13, 14, 15),
        datetime.datetime(1999, 1, 2, 3, 4, 5, 678901),
        datetime.datetime(2024, 2, 29, 0, 0, tzinfo=TZ.utc),
        datetime.datetime(2030, 6, 1, 23, 59, 59, 5, tzinfo=TZ(TD(hours=5, minutes=30))),
        datetime.datetime(2001, 9, 9, 1, 46, 40, tzinfo=TZ(TD(minutes=-30))),
        datetime.datetime(1, 1, 1),
    ],
    "date": [datetime.date(2024, 11, 12), datetime.date(1, 1, 1), datetime.date(9999, 12, 31)],
    "time": [
        datetime.time(1, 2, 3),
        datetime.time(23, 59, 59, 999999),
        datetime.time(12, 0, tzinfo=TZ.utc),
        datetime.time(7, 8, 9, tzinfo=TZ(TD(hours=-3, minutes=-15))),
    ],
    "timedelta": [TD(0), TD(seconds=1), TD(days=3, seconds=7, microseconds=250000), TD(days=-1, seconds=3), TD(microseconds=-1), TD(weeks=500)],
    "timezone": [TZ.utc, TZ(TD(hours=3)), TZ(TD(hours=-5, minutes=-45)), TZ(TD(minutes=-30)), TZ(TD(hours=23, minutes=59)), TZ(TD(minutes=1)),
                 TZ(TD(hours=1), "CET"), TZ(TD(0), "GMT"), TZ(TD(hours=-5), "EST")],   # named: equal to their unnamed twins
    "zoneinfo": [],
    "uuid": [uuid.UUID(int=0), uuid.UUID("12345678-1234-5678-1234-567812345678"), uuid.UUID(int=2**128 - 1)],
    "decimal": [decimal.Decimal("1.10"), decimal.Decimal("-0"), decimal.Decimal("1E+3"), decimal.Decimal("123456789012345678901234567890.000001"), decimal.Decimal("Infinity")],
    "fraction": [fractions.Fraction(1, 3), fractions.Fraction(-7, 2), fractions.Fraction(5), fractions.Fraction(0)],
    "ipv4addr": [ipaddress.IPv4Address("127.0.0.1"), ipaddress.IPv4Address("255.255.255.255")],
    "ipv6addr": [ipaddress.IPv6Address("::1"), ipaddress.IPv6Address("2001:db8::ff00:42:8329")],
    "ipv4net": [ipaddress.IPv4Network("10.0.0.0/30"), ipaddress.IPv4Network("192.168.1.0/29")],
    "ipv6net": [ipaddress.IPv6Network("2001:db8::/126")],
    "ipv4if": [ipaddress.IPv4Interface("192.168.1.7/24")],
    "ipv6if": [ipaddress.IPv6Interface("2001:db8::1/64")],
    "path": [pathlib.Path("a/b.txt"), pathlib.Path("/"), pathlib.Path(".")],
    "pattern": [re.compile("a+b"), re.compile(""), re.compile(r"\d{2}[x-z]\\")],
    "bytes": [b"", b"abc", bytes(range(0, 256, 3)), b"\n\x00'\"", b"x" * 58],
    "bytearray": [bytearray(b""), bytearray(b"\x01\x02\xff"), bytearray(b"hello world")],
}
try:
    LEAF_POOL["zoneinfo"] = [zoneinfo.ZoneInfo("Europe/Berlin"), zoneinfo.ZoneInfo("UTC"), zoneinfo.ZoneInfo("America/New_York")]
except Exception:  # no tzdata
    LEAF_POOL["zoneinfo"] = []

INT_POOL = [0, 1, -1, 7, 42, 2**70, -(2**63), 255]
FLOAT_POOL = [0.0, 1.5, -2.25, 1e100, 3.0, -0.0, 1e-7, 123456.789]
STR_POOL = ["", "a", "héllo", "it's", "1", "None", "x y", "{}", "line\nbreak", "\\n", "日本", "2024-11-12", "true"]


def ref_parse_timezone(s):
    """Independent reading of the documented format: 'UTC' or 'UTC±hh:mm'."""
    if not isinstance(s, str):
        raise TypeError("expected string")
    t = s   # (the documented format has no trailing newline; `re.match` with `$` used to let one through: F47)
    if t == "UTC":
        return TZ.utc
    if len(t) == 9 and t[:3] == "UTC" and t[3] in "+-" and t[4] in "012" and t[5].isascii() and t[5].isdigit() and t[6] == ":" and t[7] in "012345" and t[8].isascii() and t[8].isdigit():
        h = int(t[4:6])
        m = int(t[7:9])
        tot = h * 60 + m
        if t[3] == "-":
            tot = -tot
        return TZ(TD(minutes=tot))
    raise ValueError("bad tz")


def ref_print_timezone(x):
    """Independent writing of the documented format: 'UTC' or 'UTC±hh:mm', from the offset alone
    (a timezone's name is not part of its value: timezone(1h, 'CET') == timezone(1h))."""
    secs = x.utcoffset(None).total_seconds()
    if secs == 0:
        return "UTC"
    if secs != int(secs) or int(secs) % 60:
        return x.tzname(None)   # sub-minute offsets are outside the documented format (excluded as lossy)
    mins = abs(int(secs)) // 60
    return "UTC%s%02d:%02d" % ("+" if secs > 0 else "-", mins // 60, mins % 60)


PRINTERS = {
    "datetime": lambda x: x.isoformat(),
    "date": lambda x: x.isoformat(),
    "time": lambda x: x.isoformat(),
    "timedelta": lambda x: x.total_seconds(),
    "timezone": ref_print_timezone,
    "zoneinfo": lambda x: str(x),
    "uuid": lambda x: str(x),
    "decimal": lambda x: str(x),
    "fraction": lambda x: str(x),
    "ipv4addr": lambda x: str(x),
    "ipv6addr": lambda x: str(x),
    "ipv4net": lambda x: str(x),
    "ipv6net": lambda x: str(x),
    "ipv4if": lambda x: str(x),
    "ipv6if": lambda x: str(x),
    "path": lambda x: x.__fspath__(),
    "pattern": lambda x: x.pattern,
    "bytes": lambda x: encodebytes(x).decode(),
    "bytearray": lambda x: encodebytes(x).decode(),
}
PARSERS = {
    "datetime": lambda x: datetime.datetime.fromisoformat(x),
    "date": lambda x: datetime.date.fromisoformat(x),
    "time": lambda x: datetime.time.fromisoformat(x),
    "timedelta": lambda x: datetime.timedelta(seconds=x),
    "timezone": ref_parse_timezone,
    "zoneinfo": lambda x: zoneinfo.ZoneInfo(x),
    "uuid": lambda x: uuid.UUID(x),
    "decimal": lambda x: decimal.Decimal(x),
    "fraction": lambda x: fractions.Fraction(x),
    "ipv4addr": lambda x: ipaddress.IPv4Address(x),
    "ipv6addr": lambda x: ipaddress.IPv6Address(x),
    "ipv4net": lambda x: ipaddress.IPv4Network(x),
    "ipv6net": lambda x: ipaddress.IPv6Network(x),
    "ipv4if": lambda x: ipaddress.IPv4Interface(x),
    "ipv6if": lambda x: ipaddress.IPv6Interface(x),
    "path": lambda x: pathlib.Path(x),
    "pattern": lambda x: re.compile(x),
    "bytes": lambda x: decodebytes(x.encode()),
    "bytearray": lambda x: bytearray(decodebytes(x.encode())),
}

EK_NAMES = {"ValueError", "TypeError", "KeyError", "IndexError", "AttributeError", "LookupError"}


def ek_of(e: BaseException) -> str:
    for c in type(e).__mro__:
        if c.__name__ in EK_NAMES and c.__module__ == "builtins":
            # subclasses of the listed ones count as their nearest listed ancestor, except
            # that KeyError/IndexError are listed before LookupError in the MRO
            return c.__name__
    return "other"


# ---------------------------------------------------------------------------------------
# class registry / realisation
# ---------------------------------------------------------------------------------------

_MOD_COUNTER = [0]


DEFAULT_ANNOT = False   # wrapper mode new Reg objects start with (see realize / core.Ctx.wrapped)
WRAP_MODES = (True, "newtype", "typealias", "builtin", "abc", "annotated-unhashable")


class Reg:
    """Classes realised for one case: id -> class, class -> id; owns a throw-away module."""

    def __init__(self, mixin: bool = True, base=None):
        # typing caches generic aliases by *equality* of their arguments and Union equality ignores
        # member order, so List[Union[a, b]] would come back as an earlier List[Union[b, a]]:
        # the declaration order of union members must not depend on the harness's history
        for _f in getattr(typing, "_cleanups", []):
            _f()
        _MOD_COUNTER[0] += 1
        self.modname = f"mashu_verif_case_{_MOD_COUNTER[0]}"
        self.mod = types.ModuleType(self.modname)
        sys.modules[self.modname] = self.mod
        self.by_id: dict[str, type] = {}
        self.ids: dict[type, str] = {}
        self.mixin = mixin
        self.base = base
        self.ty_of_cls: dict[str, list] = {}
        self.annot = DEFAULT_ANNOT

    def add(self, cid: str, cls: type):
        cls.__module__ = self.modname
        cls.__qualname__ = cls.__name__
        setattr(self.mod, cls.__name__, cls)
        self.by_id[cid] = cls
        self.ids[cls] = cid

    def close(self):
        sys.modules.pop(self.modname, None)


COLL_TYPING = {
    "list": typing.List,
    "set": typing.Set,
    "frozenset": typing.FrozenSet,
    "deque": typing.Deque,
}
MAP_TYPING = {
    "dict": typing.Dict,
    "odict": typing.OrderedDict,
    "counter": typing.Counter,
    "mproxy": types.MappingProxyType,
    "ddict": typing.DefaultDict,
}
MAP_CLASS = {
    "dict": dict,
    "odict": collections.OrderedDict,
    "counter": collections.Counter,
    "mproxy": types.MappingProxyType,
    "ddict": collections.defaultdict,
}
COLL_CLASS = {"list": list, "set": set, "frozenset": frozenset, "deque": collections.deque, "tuple": tuple, "chainmap": collections.ChainMap}


COLL_BUILTIN = {"list": list, "set": set, "frozenset": frozenset, "deque": collections.deque}
MAP_BUILTIN = {"dict": dict, "odict": collections.OrderedDict, "counter": collections.Counter, "mproxy": types.MappingProxyType, "ddict": collections.defaultdict}
COLL_ABC = {"list": [collections.abc.Sequence, collections.abc.MutableSequence, typing.Sequence, typing.MutableSequence],
            "set": [collections.abc.Set, collections.abc.MutableSet, typing.AbstractSet, typing.MutableSet]}
MAP_ABC = {"dict": [collections.abc.Mapping, collections.abc.MutableMapping, typing.Mapping, typing.MutableMapping]}


def _pick(options, ty):
    """deterministic choice among spellings (depends on the wire type only)"""
    import zlib

    return options[zlib.crc32(repr(ty).encode()) % len(options)]


def realize(ty, reg: Reg):
    """wire type -> real Python annotation (creating classes on the way).  With `reg.annot` every
    annotation (at every depth) is wrapped in typing.Annotated[..., "verif"]: a metadata wrapper the
    library must see through, so the model is the same.  `reg.annot` may also be "newtype" / "typealias":
    the non-special forms are wrapped in typing.NewType / typing.TypeAliasType instead; "builtin" spells
    containers as PEP 585 generics (list[int], tuple[int, ...], collections.deque[int]) and unions with `|`,
    "abc" spells list / set / dict annotations as (typing or collections.abc) Sequence / MutableSequence /
    Set / MutableSet / Mapping / MutableMapping, which the library documents as deserializing to list / set / dict."""
    reg._rdepth = getattr(reg, "_rdepth", 0) + 1
    try:
        t = _realize(ty, reg)
    finally:
        reg._rdepth -= 1
    mode = getattr(reg, "annot", False)
    if not mode or ty == "none":
        return t
    if reg._rdepth == 0 and not isinstance(ty, str) and ty[0] == "dc":
        return t   # the root class itself is what the mixin methods are called on
    if mode in ("builtin", "abc"):
        return t   # spelling modes act inside _realize
    if mode in (True, "annotated"):
        return typing.Annotated[t, "verif"]
    if mode == "annotated-unhashable":
        # metadata objects need not be hashable (a dataclass instance with eq, a list): Annotated[t, meta] is then
        # unhashable itself, and still a transparent wrapper
        return typing.Annotated[t, ["verif"]]
    tag = ty if isinstance(ty, str) else ty[0]
    if tag == "any" or (mode == "newtype" and tag == "lit"):
        return t
    reg.wrap_counter = getattr(reg, "wrap_counter", 0) + 1
    if mode == "newtype":
        nt = typing.NewType(f"NTW{reg.wrap_counter}", t)
        nt.__module__ = reg.modname
        setattr(reg.mod, nt.__name__, nt)
        return nt
    if mode == "typealias" and hasattr(typing, "TypeAliasType"):
        # a module-level `type TAWk = ...` statement of the case's own module
        k = reg.wrap_counter
        reg.mod.__dict__[f"_TAWV{k}"] = t
        exec(f"type TAW{k} = _TAWV{k}", reg.mod.__dict__)  # noqa: S102 - fixed text
        return reg.mod.__dict__[f"TAW{k}"]
    return t


def _realize(ty, reg: Reg):
    from mashumaro import DataClassDictMixin, field_options
    from mashumaro.config import BaseConfig

    if isinstance(ty, str):
        return {"any": typing.Any, "none": type(None), "bool": bool, "int": int, "float": float, "str": str}[ty]
    tag = ty[0]
    if tag == "leaf":
        return LEAF_TYPES[ty[1]]
    if tag == "enum":
        cid = ty[1]
        if cid in reg.by_id:
            return reg.by_id[cid]
        members = {m: from_v(v, reg) for m, v in ty[2]}
        vals = list(members.values())
        if vals and all(type(v) is int for v in vals):
            base = enum.IntEnum if cid.endswith("I") else enum.Enum
        elif vals and all(type(v) is str for v in vals) and cid.endswith("S"):
            base = enum.StrEnum
        else:
            base = enum.Enum
        cls = base(cid, members)
        reg.add(cid, cls)
        return cls
    if tag == "lit":
        consts = tuple(from_v(c, reg) for c, _w in ty[1])
        return typing.Literal[consts]
    spell = getattr(reg, "annot", False)
    builtin = spell == "builtin"    # PEP 585 generics and PEP 604 unions
    if tag in ("opt", "union") and spell == "annotated-unhashable":
        # typing.Union itself needs hashable members (it removes duplicates through a set): below a union the
        # metadata is the hashable one
        reg.annot = "annotated"
        try:
            return _realize(ty, reg)
        finally:
            reg.annot = spell
    if tag == "opt":
        inner = realize(ty[1], reg)
        if builtin:
            try:
                return inner | None
            except TypeError:
                pass
        return typing.Optional[inner]
    if tag == "union":
        # inside union members the abstract spellings are NOT transparent: members are tried in turn and a
        # Sequence / Mapping packer accepts other values than a list / dict packer (finding K10 territory)
        reg._in_union = getattr(reg, "_in_union", 0) + 1
        try:
            members = [realize(t, reg) for t in ty[1]]
        finally:
            reg._in_union -= 1
        if builtin:
            try:
                import functools
                import operator

                return functools.reduce(operator.or_, members)
            except TypeError:
                pass
        return typing.Union[tuple(members)]
    if tag == "coll":
        o = ty[1]
        if builtin:
            return COLL_BUILTIN[o][realize(ty[2], reg)]
        if spell == "abc" and o in COLL_ABC and not getattr(reg, "_in_union", 0):
            return _pick(COLL_ABC[o], ty)[realize(ty[2], reg)]
        return COLL_TYPING[o][realize(ty[2], reg)]
    if tag == "map":
        o = ty[1]
        if o == "counter":
            return (collections.Counter if builtin else typing.Counter)[realize(ty[2], reg)]
        if builtin:
            return MAP_BUILTIN[o][realize(ty[2], reg), realize(ty[3], reg)]
        if spell == "abc" and o in MAP_ABC and not getattr(reg, "_in_union", 0):
            return _pick(MAP_ABC[o], ty)[realize(ty[2], reg), realize(ty[3], reg)]
        return MAP_TYPING[o][realize(ty[2], reg), realize(ty[3], reg)]
    if tag == "chain":
        return (collections.ChainMap if builtin else typing.ChainMap)[realize(ty[1], reg), realize(ty[2], reg)]
    T = tuple if builtin else typing.Tuple
    if tag == "tvar":
        return T[realize(ty[1], reg), ...]
    if tag == "tfix":
        if not ty[1]:
            return T[()]
        return T[tuple(realize(t, reg) for t in ty[1])]
    if tag == "tunp":
        pre = [realize(t, reg) for t in ty[1]]
        mid = realize(ty[2], reg)
        post = [realize(t, reg) for t in ty[3]]
        return T[(*pre, typing.Unpack[T[mid, ...]], *post)]
    if tag == "nt":
        cid = ty[1]
        if cid not in reg.by_id:
            fields = [(n, realize(t, reg)) for n, t in ty[2]]
            defs = [from_v(d, reg) for d in ty[3]]
            nreq = len(fields) - len(defs)
            env = {"typing": typing}
            lines = [f"class {cid}(typing.NamedTuple):"]
            for i, (n, ann) in enumerate(fields):
                env[f"_a{i}"] = ann
                if i >= nreq:
                    env[f"_d{i}"] = defs[i - nreq]
                    lines.append(f"    {n}: _a{i} = _d{i}")
                else:
                    lines.append(f"    {n}: _a{i}")
            exec(compile("\n".join(lines), f"<{cid}>", "exec", dont_inherit=True), env)
            cls = env[cid]
            reg.add(cid, cls)
        return reg.by_id[cid]
    if tag == "td":
        cid = ty[1]
        if cid not in reg.by_id:
            ann = {}
            for n, t in ty[2]:
                ann[n] = typing.Required[realize(t, reg)]
            for n, t in ty[3]:
                ann[n] = typing.NotRequired[realize(t, reg)]
            cls = typing.TypedDict(cid, ann)
            reg.add(cid, cls)
        return reg.by_id[cid]
    if tag == "dc":
        cid = ty[1]
        if cid in reg.by_id:
            return reg.by_id[cid]
        cfg = ty[2]
        ann = {}
        ns = {}
        for fd, t in ty[3]:
            ann[fd["name"]] = realize(t, reg)
            kw = {}
            md = {}
            if fd.get("alias") is not None:
                md["alias"] = fd["alias"]
            if fd.get("omit"):
                md["serialize"] = "omit"
            if md:
                kw["metadata"] = field_options(**md)
            if fd.get("default") is not None:
                dv = from_v(fd["default"][1], reg)
                if isinstance(dv, (list, dict, set, collections.deque, bytearray, collections.OrderedDict, collections.ChainMap, collections.Counter)) or dataclasses.is_dataclass(dv):
                    kw["default_factory"] = _Factory(fd["default"][1], reg)
                else:
                    kw["default"] = dv
            if not fd.get("init", True):
                kw["init"] = False
            if fd.get("kw_only"):
                kw["kw_only"] = True
            if kw:
                ns[fd["name"]] = dataclasses.field(**kw)
        cfg_ns = {k: v for k, v in cfg.items() if k in ("serialize_by_alias", "omit_none", "omit_default", "sort_keys", "allow_deserialization_not_by_alias", "forbid_extra_keys", "namedtuple_as_dict", "lazy_compilation", "code_generation_options", "aliases")}
        extra = cfg.get("_extra_config")
        if extra:
            cfg_ns.update(extra)
        ns["Config"] = type("Config", (BaseConfig,), cfg_ns)
        ns["__annotations__"] = ann
        bases = (DataClassDictMixin,) if reg.mixin else ()
        if reg.base is not None:
            bases = (reg.base,)
        cls = type(cid, bases, ns)
        cls.__module__ = reg.modname
        cls.__qualname__ = cid
        setattr(reg.mod, cid, cls)  # importable by name before the dataclass is compiled
        cls = dataclasses.dataclass(cls, **cfg.get("_dataclass_kwargs", {}))
        reg.add(cid, cls)
        return cls
    raise ValueError(f"unknown type tag {tag}")


class _Factory:
    def __init__(self, v, reg):
        self.v = v
        self.reg = reg

    def __call__(self):
        return from_v(self.v, self.reg)


# ---------------------------------------------------------------------------------------
# canon / from_v
# ---------------------------------------------------------------------------------------


def canon(x, reg: Reg | None, iter_order: bool = False, objmap: dict | None = None):
    r = _canon(x, reg, iter_order, objmap)
    if objmap is not None:
        objmap.setdefault(json.dumps(r, sort_keys=True), x)
    return r


def _canon(x, reg, iter_order, objmap):
    """Python object -> model value (wire JSON).  Exact classes only."""
    t = type(x)
    if x is None:
        return None
    if t is bool:
        return x
    if t is int:
        return ["i", str(x)]
    if t is float:
        return ["f", repr(x)]
    if t is str:
        return ["s", x]
    if t in LEAF_OF_TYPE and not isinstance(x, re.Pattern):
        return ["leaf", LEAF_OF_TYPE[t], repr(x)]
    if isinstance(x, re.Pattern):
        # (repr(pattern) truncates long patterns: spell the constructor call out)
        return ["leaf", "pattern", f"re.compile({x.pattern!r})" if x.flags == re.compile("").flags else f"re.compile({x.pattern!r}, {int(x.flags)})"]
    if reg is not None and t in reg.ids:
        cid = reg.ids[t]
        if isinstance(x, enum.Enum):
            return ["enum", cid, x.name]
        if dataclasses.is_dataclass(x):
            out = []
            for f in dataclasses.fields(x):
                if hasattr(x, f.name):
                    out.append([f.name, canon(getattr(x, f.name), reg, iter_order, objmap)])
            return ["inst", cid, out]
        if isinstance(x, tuple):
            return ["nt", cid, [canon(e, reg, iter_order, objmap) for e in x]]
    if t is list:
        return ["coll", "list", [canon(e, reg, iter_order, objmap) for e in x]]
    if t is tuple:
        return ["coll", "tuple", [canon(e, reg, iter_order, objmap) for e in x]]
    if t is set or t is frozenset:
        items = [canon(e, reg, iter_order, objmap) for e in x]
        if not iter_order:
            items = sorted(items, key=lambda j: json.dumps(j, sort_keys=True))
        return ["coll", "set" if t is set else "frozenset", items]
    if t is collections.deque:
        return ["coll", "deque", [canon(e, reg, iter_order, objmap) for e in x]]
    if t is collections.ChainMap:
        return ["coll", "chainmap", [canon(m, reg, iter_order, objmap) for m in x.maps]]
    for name, cls in MAP_CLASS.items():
        if t is cls:
            return ["map", name, [[canon(k, reg, iter_order, objmap), canon(v, reg, iter_order, objmap)] for k, v in x.items()]]
    return ["tag", f"py:{t.__module__}.{t.__qualname__}", ["s", repr(x)]]


def from_v(v, reg: Reg | None):
    """model value -> Python object (applying Python's own set/dict semantics)."""
    if v is None or v is True or v is False:
        return v
    tag = v[0]
    if tag == "i":
        return int(v[1])
    if tag == "f":
        return float(v[1])
    if tag == "s":
        return v[1]
    if tag == "leaf":
        return eval(v[2], dict(_EVAL_NS))
    if tag == "enum":
        return reg.by_id[v[1]][v[2]]
    if tag == "coll":
        items = [from_v(e, reg) for e in v[2]]
        if v[1] == "chainmap":
            return collections.ChainMap(*items)
        return COLL_CLASS[v[1]](items)
    if tag == "map":
        pairs = [(from_v(k, reg), from_v(x, reg)) for k, x in v[2]]
        if v[1] == "mproxy":
            return types.MappingProxyType(dict(pairs))
        if v[1] == "ddict":
            return collections.defaultdict(None, pairs)
        if v[1] == "counter":
            return collections.Counter(dict(pairs))
        return MAP_CLASS[v[1]](pairs)
    if tag == "nt":
        return reg.by_id[v[1]](*[from_v(e, reg) for e in v[2]])
    if tag == "inst":
        cls = reg.by_id[v[1]]
        obj = object.__new__(cls)
        for n, x in v[2]:
            object.__setattr__(obj, n, from_v(x, reg))
        return obj
    if tag == "tag":
        return _Tagged(v[1], from_v(v[2], reg))
    raise ValueError(f"bad value {v}")


class _Tagged:
    def __init__(self, marker, v):
        self.marker = marker
        self.v = v

    def __eq__(self, other):
        return isinstance(other, _Tagged) and (self.marker, self.v) == (other.marker, other.v)

    def __hash__(self):
        return hash(self.marker)


def _norm_tz(v):
    """a timezone's name is not part of its value (timezone(1h, 'CET') == timezone(1h)): compare by offset"""
    if isinstance(v, list):
        if len(v) == 3 and v[0] == "leaf" and v[1] == "timezone" and isinstance(v[2], str):
            try:
                tz = eval(v[2], {"datetime": datetime})  # noqa: S307 - a repr produced by this harness
                return ["leaf", "timezone", repr(datetime.timezone(tz.utcoffset(None)))]
            except Exception:  # noqa
                return v
        out = [_norm_tz(x) for x in v]
        if len(out) == 3 and out[0] == "coll" and out[1] in ("set", "frozenset") and isinstance(out[2], list):
            out[2] = sorted(out[2], key=lambda j: json.dumps(j, sort_keys=True))   # canonical order again after normalisation
        return out
    if isinstance(v, dict):
        return {k: _norm_tz(x) for k, x in v.items()}
    return v


def same(a, b) -> bool:
    """canonical equality of two wire values: set order normalised already by canon."""
    return json.dumps(_norm_tz(a), sort_keys=True) == json.dumps(_norm_tz(b), sort_keys=True)


def norm_v(v, reg):
    """normalise a model value through Python semantics (dedup sets / dict keys)."""
    return canon(from_v(v, reg), reg)


# ---------------------------------------------------------------------------------------
# walking
# ---------------------------------------------------------------------------------------


def ty_nodes(ty):
    yield ty
    if isinstance(ty, str):
        return
    tag = ty[0]
    subs = []
    if tag in ("opt", "tvar"):
        subs = [ty[1]]
    elif tag == "union" or tag == "tfix":
        subs = ty[1]
    elif tag == "coll":
        subs = [ty[2]]
    elif tag == "map":
        subs = [ty[2], ty[3]]
    elif tag == "chain":
        subs = [ty[1], ty[2]]
    elif tag == "tunp":
        subs = [*ty[1], ty[2], *ty[3]]
    elif tag == "nt":
        subs = [t for _n, t in ty[2]]
    elif tag == "td":
        subs = [t for _n, t in ty[2]] + [t for _n, t in ty[3]]
    elif tag == "dc":
        subs = [t for _f, t in ty[3]]
    for s in subs:
        yield from ty_nodes(s)


def map_ty(ty, f):
    """rebuild a type bottom-up, applying f to every node (after its children)"""
    if isinstance(ty, str):
        return f(ty)
    tag = ty[0]
    r = map_ty
    if tag in ("leaf", "enum", "lit"):
        out = ty
    elif tag in ("opt", "tvar"):
        out = [tag, r(ty[1], f)]
    elif tag in ("union", "tfix"):
        out = [tag, [r(t, f) for t in ty[1]]]
    elif tag == "coll":
        out = [tag, ty[1], r(ty[2], f)]
    elif tag == "map":
        out = [tag, ty[1], r(ty[2], f), r(ty[3], f)]
    elif tag == "chain":
        out = [tag, r(ty[1], f), r(ty[2], f)]
    elif tag == "tunp":
        out = [tag, [r(t, f) for t in ty[1]], r(ty[2], f), [r(t, f) for t in ty[3]]]
    elif tag == "nt":
        out = [tag, ty[1], [[n, r(t, f)] for n, t in ty[2]], ty[3], ty[4]]
    elif tag == "td":
        out = [tag, ty[1], [[n, r(t, f)] for n, t in ty[2]], [[n, r(t, f)] for n, t in ty[3]]]
    elif tag == "dc":
        out = [tag, ty[1], ty[2], [[fd, r(t, f)] for fd, t in ty[3]]]
    else:
        raise ValueError(tag)
    return f(out)


def v_nodes(v):
    yield v
    if v is None or v is True or v is False:
        return
    tag = v[0]
    if tag in ("coll", "nt"):
        for e in v[2]:
            yield from v_nodes(e)
    elif tag == "map":
        for k, x in v[2]:
            yield from v_nodes(k)
            yield from v_nodes(x)
    elif tag == "inst":
        for _n, x in v[2]:
            yield from v_nodes(x)
    elif tag == "tag":
        yield from v_nodes(v[2])
    elif tag == "s" and 1 < len(v[1]) <= 1500:
        # iterating a str yields its characters
        for ch in v[1]:
            yield ["s", ch]


def ty_constants(ty):
    """enum member values and literal constants (and wire forms) occurring in a type."""
    out = []
    for n in ty_nodes(ty):
        if isinstance(n, str):
            continue
        if n[0] == "enum":
            out.extend(v for _m, v in n[2])
        elif n[0] == "lit":
            for c, w in n[1]:
                out.append(c)
                out.append(w)
        elif n[0] == "dc":
            for fd, _t in n[3]:
                if fd.get("default") is not None:
                    out.append(fd["default"][1])
    return out


def _iter_leaf(obj):
    if isinstance(obj, (ipaddress.IPv4Network, ipaddress.IPv6Network)) and obj.num_addresses > 300:
        raise OverflowError("too many hosts")
    return list(obj)


def build_oracle(ty, values, reg, direction: str, objmap: dict | None = None):
    """Graph of the uninterpreted operations on every node of `values`.

    direction 'pack': leaf printers;  'unpack': builtin constructors + leaf parsers;
    'both': everything."""
    kinds = set()
    scalars = set()
    for n in ty_nodes(ty):
        if isinstance(n, str):
            scalars.add(n)
        elif n[0] == "leaf":
            kinds.add(n[1])
        elif n[0] == "lit":
            for c, _w in n[1]:
                if isinstance(c, list) and c[0] == "leaf":
                    kinds.add(c[1])
        elif n[0] == "map" and n[1] == "counter":
            scalars.add("int")
    calls = []
    seen = set()
    nodes = []
    for v in values:
        for n in v_nodes(v):
            key = json.dumps(n, sort_keys=True)
            if key not in seen:
                seen.add(key)
                nodes.append(n)
    consts = ty_constants(ty)
    if any((not isinstance(n, str)) and n[0] in ("tfix", "tunp", "nt") for n in ty_nodes(ty)):
        consts = consts + [["i", str(k)] for k in range(-4, 7)]   # literal indexes used against mappings
    if any(isinstance(n, list) and n[0] == "map" and n[1] == "counter" for n in nodes):
        z = ["i", "0"]   # Counter.__missing__
        if json.dumps(z) not in seen:
            seen.add(json.dumps(z))
            nodes.append(z)

    def run(opw, fn, node):
        try:
            obj = None
            if objmap is not None:
                obj = objmap.get(json.dumps(node, sort_keys=True))
            if obj is None:
                obj = from_v(node, reg)
        except Exception:
            return
        try:
            r = fn(obj)
            rc = canon(r, reg)
            calls.append([opw, node, ["ok", rc]])
        except RecursionError:
            raise
        except Exception as e:  # noqa
            calls.append([opw, node, ["err", ek_of(e)]])

    for node in list(nodes):
        if isinstance(node, list) and node[0] == "leaf":
            n0 = len(calls)
            run("iter", _iter_leaf, node)
            for c in calls[n0:]:
                if c[2][0] == "ok":
                    for e in c[2][1][2]:
                        key = json.dumps(e, sort_keys=True)
                        if key not in seen:
                            seen.add(key)
                            nodes.append(e)
    for node in nodes:
        if direction in ("pack", "both"):
            for k in sorted(kinds):
                run(["print", k], PRINTERS[k], node)
        if direction in ("unpack", "both"):
            for s, fn in (("int", int), ("float", float), ("str", str), ("bool", bool)):
                if s in scalars:
                    run(s, fn, node)
            for k in sorted(kinds):
                run(["parse", k], PARSERS[k], node)
    eqs = []
    cobjs = []
    for c in consts:
        try:
            cobjs.append((c, from_v(c, reg)))
        except Exception:
            pass
    for node in nodes:
        try:
            obj = from_v(node, reg)
        except Exception:
            continue
        for c, cobj in cobjs:
            try:
                r = bool(obj == cobj)
            except Exception:
                r = False
            structural = same(node, c)
            if r != structural:
                eqs.append([node, c, r])
    enums = []
    for n in ty_nodes(ty):
        if not isinstance(n, str) and n[0] == "enum":
            for m, v in n[2]:
                enums.append([n[1], m, v])
    return {"calls": calls, "eq": eqs, "enums": enums}
