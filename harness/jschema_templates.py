"""Hand-written schema-specific shapes shared by C06 and C20 (real Python types, no wire form):
alias sources, NamedTuple variations, tuples, enums, defaults of awkward kinds, generic
specialisations, nested / self-referencing classes, Config options that used to break
`_default`.  Every template is (name, type, [conforming values], tags)."""
from __future__ import annotations

import dataclasses
import datetime
import decimal
import enum
import sys
import types
import typing
from typing import Any, Dict, FrozenSet, List, NamedTuple, Optional, Tuple, Union

_COUNTER = [0]


def _module():
    _COUNTER[0] += 1
    m = types.ModuleType(f"jst_{_COUNTER[0]}")
    sys.modules[m.__name__] = m
    return m


def _dc(mod, name, ann, ns=None, mixin=True, **dckw):
    from mashumaro import DataClassDictMixin

    d = {"__annotations__": ann}
    d.update(ns or {})
    c = type(name, (DataClassDictMixin,) if mixin else (), d)
    c.__module__ = mod.__name__
    setattr(mod, name, c)
    return dataclasses.dataclass(c, **dckw)


def _nt(mod, name, fields, defaults=None):
    c = typing.NamedTuple(name, fields)
    c.__module__ = mod.__name__
    setattr(mod, name, c)
    if defaults:
        c.__new__.__defaults__ = tuple(defaults)
        c._field_defaults = dict(zip([f for f, _ in fields][-len(defaults):], defaults))
    return c


def templates(rng):
    from mashumaro import field_options
    from mashumaro.config import BaseConfig
    from mashumaro.types import Alias

    out = []
    m = _module()
    mods = [m.__name__]

    def cfg(**kw):
        return type("Config", (BaseConfig,), kw)

    # ---- alias sources (metadata > Annotated Alias > Config.aliases), serialized by alias ----
    for meta, ann_alias, cfg_alias in [(a, b, c) for a in (0, 1) for b in (0, 1) for c in (0, 1)]:
        t = int
        if ann_alias:
            t = typing.Annotated[int, Alias("ann_x")]
        ns = {"Config": cfg(serialize_by_alias=True, aliases={"x": "cfg_x"} if cfg_alias else {})}
        if meta:
            ns["x"] = dataclasses.field(default=1, metadata=field_options(alias="meta_x"))
        C = _dc(m, f"Al{meta}{ann_alias}{cfg_alias}", {"x": t, "y": str}, {**ns, "y": "q"} if meta else ns, kw_only=True)
        out.append((f"alias meta={meta} annotated={ann_alias} config={cfg_alias}", C, [C(x=3, y="v")], {"alias"}))

    # ---- NamedTuple variations ----
    E0 = _nt(m, "Empty0", [])
    P2 = _nt(m, "P2", [("x", int), ("y", Optional[str])])
    PD = _nt(m, "PD", [("x", int), ("tags", List[str])], defaults=[[]])
    out.append(("empty NamedTuple", E0, [E0()], {"namedtuple"}))
    out.append(("NamedTuple", P2, [P2(1, None), P2(2, "s")], {"namedtuple"}))
    out.append(("NamedTuple with an unhashable default", PD, [PD(1), PD(2, ["a"])], {"namedtuple", "default"}))
    for as_dict_cfg in (False, True):
        for override in (None, "as_list", "as_dict"):
            ns = {"Config": cfg(namedtuple_as_dict=as_dict_cfg)}
            if override:
                ns["p"] = dataclasses.field(metadata=field_options(serialize=override, deserialize=override))
            C = _dc(m, f"NT_{int(as_dict_cfg)}_{override}", {"p": P2, "q": List[P2], "e": E0}, ns, kw_only=True)
            out.append((f"NamedTuple field, namedtuple_as_dict={as_dict_cfg}, field override={override}", C, [C(p=P2(1, "a"), q=[P2(2, None)], e=E0())], {"namedtuple"}))

    # ---- tuples ----
    out.append(("Tuple[()]", Tuple[()], [()], {"tuple"}))
    out.append(("Tuple[int, ...]", Tuple[int, ...], [(), (1, 2, 3)], {"tuple"}))
    out.append(("Tuple[int, str]", Tuple[int, str], [(1, "a")], {"tuple"}))
    try:
        Unpack = typing.Unpack
        out.append(("Tuple[int, *Tuple[str, str], float]", Tuple[int, Unpack[Tuple[str, str]], float], [(1, "a", "b", 2.5)], {"tuple", "unpack"}))
        out.append(("Tuple[int, *Tuple[str, ...]]", Tuple[int, Unpack[Tuple[str, ...]]], [(1,), (1, "a", "b")], {"tuple", "unpack"}))
        out.append(("Tuple[*Tuple[int, ...], str]", Tuple[Unpack[Tuple[int, ...]], str], [("z",), (1, 2, "z")], {"tuple", "unpack"}))
    except Exception:  # noqa
        pass

    # ---- enums and literals ----
    class Color(enum.Enum):
        RED = "r"
        GREEN = "g"

    class Num(enum.IntEnum):
        ONE = 1
        TWO = 2

    class Perm(enum.Flag):
        R = 1
        W = 2

    for c in (Color, Num, Perm):
        c.__module__ = m.__name__
        c.__qualname__ = c.__name__
        setattr(m, c.__name__, c)
    out.append(("Enum", Color, [Color.RED], {"enum"}))
    out.append(("IntEnum", Num, [Num.TWO], {"enum"}))
    out.append(("Flag, named member", Perm, [Perm.R], {"enum"}))
    out.append(("Flag, combination", Perm, [Perm.R | Perm.W], {"enum", "flag-combination"}))
    out.append(("Literal[1, 'a', None, True]", typing.Literal[1, "a", None, True], [1, "a", None, True], {"literal"}))
    out.append(("Literal[enum member, bytes]", typing.Literal[Color.RED, b"ab"], [Color.RED, b"ab"], {"literal"}))
    out.append(("Dict[Color, int]", Dict[Color, int], [{Color.RED: 1}], {"mapping"}))
    out.append(("Dict[int, str]", Dict[int, str], [{1: "a"}], {"mapping", "non-string-key"}))
    out.append(("Dict[Num, str]", Dict[Num, str], [{Num.ONE: "a"}], {"mapping", "non-string-key"}))
    out.append(("FrozenSet[str]", FrozenSet[str], [frozenset({"a", "b"})], {"set"}))

    # ---- defaults of awkward kinds under various Config options ----
    for i, opts in enumerate([{}, {"omit_none": True}, {"omit_default": True}, {"serialize_by_alias": True, "aliases": {"x": "X"}}, {"sort_keys": True}, {"omit_none": True, "omit_default": True}]):
        C = _dc(m, f"Df{i}", {"a": int, "x": Optional[int], "l": List[int], "d": decimal.Decimal, "dt": datetime.date, "n": P2, "c": Color},
                {"x": None, "l": dataclasses.field(default_factory=lambda: [1]), "d": decimal.Decimal("1.00"), "dt": datetime.date(2024, 2, 29), "n": P2(0, None), "c": Color.RED,
                 "Config": cfg(**opts)}, kw_only=True)
        tags = {"default"}
        if opts.get("omit_none") or opts.get("omit_default"):
            tags.add("non-default-options")
        if "aliases" in opts:
            tags.add("alias")
        out.append((f"defaults under Config {sorted(opts)}", C, [C(a=1), C(a=2, x=5, l=[], d=decimal.Decimal("2"))], tags))
    D1 = _dc(m, "DecA", {"v": decimal.Decimal}, {"v": decimal.Decimal("1.0")})
    D2 = _dc(m, "DecB", {"v": decimal.Decimal}, {"v": decimal.Decimal("1.00")})
    A1 = _dc(m, "AnyA", {"v": Any}, {"v": 1})
    A2 = _dc(m, "AnyB", {"v": Any}, {"v": True})
    out.append(("equal defaults that serialize differently", Tuple[D1, D2, A1, A2], [(D1(), D2(), A1(), A2())], {"default", "sequence"}))

    # ---- generic specialisations and same-named classes ----
    T = typing.TypeVar("T")
    from mashumaro import DataClassDictMixin

    G = types.new_class("Box", (DataClassDictMixin, typing.Generic[T]), {}, lambda ns: ns.update({"__annotations__": {"v": T}, "__module__": m.__name__}))
    m.Box = G
    G = dataclasses.dataclass(G)
    H = _dc(m, "Holder", {"a": G[int], "b": G[str]})
    out.append(("two specialisations of one generic class", H, [H(a=G(1), b=G("s"))], {"same-name-definitions"}))
    # a generic class holding another generic class specialised with OTHER arguments
    GO = types.new_class("GOuter", (DataClassDictMixin, typing.Generic[T]), {}, lambda ns: ns.update({"__annotations__": {"x": T, "v": G[str], "vs": List[G[bool]]}, "__module__": m.__name__}))
    m.GOuter = GO
    GO = dataclasses.dataclass(GO)
    out.append(("generic class holding another specialisation", GO[int], [GO(1, G("s"), [G(True)])], {"generic", "same-name-definitions"}))
    # a TypeVar with a PEP 696 default, class used without arguments (the serializers use the default)
    import typing_extensions

    Td = typing_extensions.TypeVar("Td", default=int)
    GD = types.new_class("GDef", (DataClassDictMixin, typing.Generic[Td]), {}, lambda ns: ns.update({"__annotations__": {"x": Td, "xs": List[Td]}, "__module__": m.__name__}))
    m.GDef = GD
    GD = dataclasses.dataclass(GD)
    out.append(("generic class with a defaulted TypeVar, unparametrized", GD, [GD(1, [2])], {"generic"}))
    m2 = _module()
    mods.append(m2.__name__)
    I1 = _dc(m, "Item", {"x": int})
    I2 = _dc(m2, "Item", {"y": str})
    H2 = _dc(m, "Holder2", {"a": I1, "b": I2})
    out.append(("two classes with one bare name", H2, [H2(a=I1(1), b=I2("s"))], {"same-name-definitions"}))

    # ---- nesting ----
    N0 = _dc(m, "Leaf0", {"t": datetime.timezone, "u": Union[int, str]}, {"u": 0})
    N1 = _dc(m, "Mid1", {"ls": List[N0], "mp": Dict[str, N0], "o": Optional[N0]}, {"o": None})
    out.append(("nested dataclasses in containers", N1, [N1(ls=[N0(datetime.timezone.utc)], mp={"k": N0(datetime.timezone(datetime.timedelta(minutes=-30)), "s")})], {"nested"}))
    # init=False and serialize='omit' members
    NI = _dc(m, "NonInit", {"x": int, "y": int}, {"y": dataclasses.field(init=False, default=3)})
    out.append(("init=False member", NI, [NI(1)], {"non-init"}))
    OM = _dc(m, "Omit", {"x": int, "s": int}, {"s": dataclasses.field(metadata=field_options(serialize="omit"))})
    out.append(("serialize='omit' on a required field", OM, [OM(1, 2)], {"omit"}))
    # self reference
    SR = _dc(m, "Node", {"v": int, "next": Optional["Node"]}, {"next": None})
    out.append(("self-referencing dataclass", SR, [SR(1, SR(2))], {"self-reference"}))
    # generic classes that refer to themselves, through specialised aliases
    Tg = typing.TypeVar("Tg")
    CH = types.new_class("Chain", (DataClassDictMixin, typing.Generic[Tg]), {}, lambda ns: ns.update({"__annotations__": {"v": Tg, "nxt": Optional["Chain[Tg]"]}, "nxt": None, "__module__": m.__name__, "Tg": Tg}))
    m.Chain = CH
    m.Tg = Tg
    CH = dataclasses.dataclass(CH)
    out.append(("generic self-referencing dataclass Chain[int]", CH[int], [CH(1, CH(2))], {"self-reference", "generic"}))
    TR = types.new_class("GTree", (DataClassDictMixin, typing.Generic[Tg]), {}, lambda ns: ns.update({"__annotations__": {"v": Tg, "kids": List["GTree[Tg]"]}, "kids": dataclasses.field(default_factory=list), "__module__": m.__name__}))
    m.GTree = TR
    TR = dataclasses.dataclass(TR)
    HG = _dc(m, "HoldsTree", {"t": TR[str], "c": Optional[CH[int]]}, {"c": None})
    out.append(("holder of generic self-referencing classes", HG, [HG(TR("a", [TR("b")]), CH(1))], {"self-reference", "generic"}))
    # Self-typed members, Final and LiteralString annotations (all accepted by the serializers)
    from typing_extensions import LiteralString, Self

    SN = _dc(m, "SelfNode", {"v": int, "nxt": Optional[Self], "kids": List[Self]}, {"nxt": None, "kids": dataclasses.field(default_factory=list)})
    out.append(("Self-typed members", SN, [SN(1, SN(2), [SN(3)])], {"self-reference", "Self"}))
    FL = _dc(m, "FinalLit", {"n": typing.Final[int], "s": LiteralString}, {"n": 1, "s": "x"})
    out.append(("Final[int] and LiteralString members", FL, [FL(2, "y")], {"special-forms"}))
    # a callable `serialize` option on container members: its return annotation describes the output
    def _keep(v: List[int]) -> List[int]:
        return v

    def _as_strs(v: List[datetime.date]) -> List[str]:
        return [x.isoformat() for x in v]

    OS = _dc(m, "OverSer", {"x": List[int], "d": List[datetime.date]},
             {"x": dataclasses.field(default_factory=list, metadata=field_options(serialize=_keep)), "d": dataclasses.field(default_factory=list, metadata=field_options(serialize=_as_strs))})
    out.append(("callable serialize option on container members", OS, [OS([1, 2], [datetime.date(2024, 2, 29)])], {"overridden-serialization"}))
    # a serialization_strategy registered for the ORIGIN type (list) of a member typed List[int]
    def _join(v) -> str:
        return ",".join(map(str, v))

    SO = _dc(m, "StratOrigin", {"x": List[int], "y": int}, {"Config": cfg(serialization_strategy={list: {"serialize": _join}})})
    out.append(("serialization_strategy keyed by the origin type", SO, [SO([1, 2], 3)], {"overridden-serialization"}))
    # mutual recursion
    MA = _dc(m, "MutA", {"b": Optional["MutB"]}, {"b": None})
    MB = _dc(m, "MutB", {"a": Optional[MA], "n": Optional[SR]}, {"a": None, "n": None})
    out.append(("mutually recursive dataclasses", MA, [MA(MB(MA(), SR(1)))], {"self-reference"}))
    # a nullable field with an overridden serialization method: None is written as null, the method is not called
    def _compact(v: datetime.datetime) -> str:
        return v.strftime("%Y%m%d")

    NO = _dc(m, "NullOver", {"when": Optional[datetime.datetime], "n": int}, {"when": dataclasses.field(default=None, metadata=field_options(serialize=_compact)), "n": 0}, kw_only=True)
    out.append(("nullable field with a callable serialize option", NO, [NO(), NO(when=datetime.datetime(2020, 1, 2))], {"overridden-serialization"}))
    # a field-level serialization_strategy whose serialize returns a container: applied to the field only
    from mashumaro.types import SerializationStrategy

    class _MonthParts(SerializationStrategy):
        def serialize(self, value: datetime.date) -> List[int]:
            return [value.year, value.month]

        def deserialize(self, value: List[int]) -> datetime.date:
            return datetime.date(value[0], value[1], 1)

    FS = _dc(m, "FieldStrat", {"month": datetime.date, "n": int}, {"month": dataclasses.field(metadata=field_options(serialization_strategy=_MonthParts())), "n": 0}, kw_only=True)
    out.append(("field-level serialization_strategy returning a container", FS, [FS(month=datetime.date(2024, 2, 1), n=3)], {"overridden-serialization"}))
    # classes that serialize themselves (SerializableType), dataclasses included: written as what _serialize returns
    from mashumaro.types import SerializableType

    def _money_ser(self) -> str:
        return f"{self.amount} {self.cur}"

    def _money_de(cls, value: str):
        a, c = value.split()
        return cls(int(a), c)

    MO = _dc(m, "Money", {"amount": int, "cur": str}, {"_serialize": _money_ser, "_deserialize": classmethod(_money_de)}, mixin=False)
    MO = dataclasses.dataclass(type("Money", (MO, SerializableType), {"__module__": m.__name__}))
    setattr(m, "Money", MO)
    HM = _dc(m, "HasMoney", {"price": MO, "all": List[MO]}, {"all": dataclasses.field(default_factory=list)})
    out.append(("dataclass implementing SerializableType", HM, [HM(MO(5, "EUR")), HM(MO(1, "USD"), [MO(2, "USD")])], {"serializable-type"}))
    # dataclass(slots=True): class attributes are slot descriptors, not defaults
    SL = _dc(m, "Slotted", {"when": datetime.date, "items": List[int], "n": int, "s": str}, {"items": dataclasses.field(default_factory=list), "n": 3, "s": "q"}, slots=True)
    out.append(("dataclass with slots", SL, [SL(datetime.date(2024, 2, 29)), SL(datetime.date(2024, 2, 29), [1], 2, "z")], {"slots"}))
    import re

    PT = _dc(m, "Pat", {"p": re.Pattern})
    out.append(("re.Pattern field", PT, [PT(re.compile("a+"))], {"pattern"}))
    return out, mods


def cleanup(mods):
    for n in mods:
        sys.modules.pop(n, None)
