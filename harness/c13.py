"""C13 — dialects are isolated per call and honoured uniformly by every codec.

Theorems (Props/C13.lean): call_history_independent / run_eq_spec / default_unaltered (every
history of class definitions and calls; invariant on the per-class caches; cache guard extracted
from the source), merge_covers_every_option / codec_eq_mixin_stack / merge_strategy(_dir) over
the merge tuple extracted from the source, dialect_arg_eq_config_dialect_option / _strategy over
the extracted lookup orders.

Tie:
 A. histories — class families (inheritance chains, nested classes with and without dialect
    support, dict / orjson / msgpack mixins) are created step by step and called with several
    dialects in random order; every result is compared with a FRESH twin family whose classes
    carry Config.dialect = D and are called without dialect (the statement's oracle), and the
    method identity (class, dialect) the Lean state machine predicts is the twin that is used.
 B. merge — random pairs of dialects through the real Dialect.merge vs the Lean merge.
 C. uniformity — every codec family (basic, json, orjson, yaml, msgpack, toml; Encoder and
    Decoder objects; format mixins with dialect=) x every single Dialect option and strategy:
    parse_F(encode_F(v)) vs the basic codec under the spec-merged dialect, re-rendered by F.
"""
from __future__ import annotations

import dataclasses
import datetime
import gc
import typing
from typing import List, NamedTuple, Optional

THEOREMS = [
    "Mashu.Cache.call_history_independent",
    "Mashu.Cache.run_eq_spec",
    "Mashu.Cache.default_unaltered",
    "Mashu.Cache.guard_pinned",
    "Mashu.Cache.options_subset_mergeKeys",
    "Mashu.Cache.merge_covers_every_option",
    "Mashu.Cache.codec_eq_mixin_stack",
    "Mashu.Cache.merge_strategy",
    "Mashu.Cache.merge_strategy_dir",
    "Mashu.Cache.dialect_arg_eq_config_dialect_option",
    "Mashu.Cache.dialect_arg_eq_config_dialect_strategy",
]
RULE = (
    "A: history = interleaving of 'define class i (parent, ADD_DIALECT_SUPPORT inherited or overridden, mixin kind, own fields incl. nested classes)' and "
    "'call class i, slot (to_dict/from_dict/to_jsonb/from_json/to_msgpack/from_msgpack), dialect k or none' events over 3 dialects drawn from "
    "{date/int strategies as object, one-direction dict or pass_through} x {omit_none, omit_default, serialize_by_alias, namedtuple_as_dict, no_copy_collections}; "
    "oracle: fresh twin family with Config.dialect=D called without dialect; non-trivial = a dialect call on a class whose parent or child was called with a dialect before. "
    "B: Dialect.merge on random pairs (options subsets x strategy registrations: object / dict with one or both directions / pass_through). "
    "C: codec family x Dialect option or strategy: document equality with the basic codec under the merged dialect"
)


class NT(NamedTuple):
    p: int
    q: int


def _mk(name, bases, ns, **dc_kw):
    c = type(name, bases, ns)
    c.__module__ = __name__
    globals()[name] = c
    return dataclasses.dataclass(c, **dc_kw)


_made: list[str] = []


def mk(name, bases, ns, **dc_kw):
    _made.append(name)
    return _mk(name, bases, ns, **dc_kw)


_cleanups = [0]


def cleanup():
    for n in _made:
        globals().pop(n, None)
    _made.clear()
    _cleanups[0] += 1
    if _cleanups[0] % 20 == 0:
        gc.collect()


# ----------------------------------------------------------------------------------------
# dialects
# ----------------------------------------------------------------------------------------

OPTS = ["omit_none", "omit_default", "serialize_by_alias", "namedtuple_as_dict"]


def make_dialect(spec, name):
    """spec: {"opts": {name: bool}, "no_copy": bool, "date": kind, "int": kind} with
    kind in None | "obj" | "ser" | "de" | "both" | "pass" ; markers are invertible"""
    from mashumaro.dialect import Dialect
    from mashumaro.helper import pass_through
    from mashumaro.types import SerializationStrategy

    tag = spec["tag"]

    def dser(v, _t=tag):
        return f"{_t}|{v.isoformat()}"

    def dde(s, _t=tag):
        s = s.split("|", 1)[1] if isinstance(s, str) and "|" in s else s
        return datetime.date.fromisoformat(s) if isinstance(s, str) else s

    def iser(v, _t=tag):
        return f"{_t}#{v}"

    def ide(s, _t=tag):
        return int(s.split("#", 1)[1]) if isinstance(s, str) and "#" in s else int(s)

    def reg(kind, ser, de):
        if kind == "pass":
            return pass_through
        if kind == "obj":
            class S(SerializationStrategy):
                def serialize(self, value):
                    return ser(value)

                def deserialize(self, value):
                    return de(value)

            return S()
        if kind == "ser":
            return {"serialize": ser}
        if kind == "de":
            return {"deserialize": de}
        return {"serialize": ser, "deserialize": de}

    def bser(v, _t=tag):
        return f"{_t}~{bytes(v).hex()}"

    def bde(s, _t=tag):
        return bytes.fromhex(s.split("~", 1)[1]) if isinstance(s, str) and "~" in s else s

    def tser(v, _t=tag):
        return f"{_t}@{v.isoformat()}"

    def tde(s, _t=tag):
        return datetime.datetime.fromisoformat(s.split("@", 1)[1]) if isinstance(s, str) and "@" in s else s

    ns = {}
    st = {}
    if spec.get("bytes"):
        st[bytes] = reg(spec["bytes"], bser, bde)
    if spec.get("datetime"):
        st[datetime.datetime] = reg(spec["datetime"], tser, tde)
    if spec.get("date"):
        st[datetime.date] = reg(spec["date"], dser, dde)
    if spec.get("int"):
        st[int] = reg(spec["int"], iser, ide)
    if st:
        ns["serialization_strategy"] = st
    for k, v in spec.get("opts", {}).items():
        ns[k] = v
    if spec.get("no_copy"):
        ns["no_copy_collections"] = (list,)
    d = type(name, (Dialect,), ns)
    # reachable under its dotted name (generated code refers to dialects by module-qualified name)
    d.__module__ = __name__
    d.__qualname__ = name
    globals()[name] = d
    _made.append(name)
    return d


def draw_dialect_spec(rng, tag):
    spec = {"tag": tag, "opts": {}}
    for o in OPTS:
        r = rng.random()
        if r < 0.3:
            spec["opts"][o] = True
        elif r < 0.4:
            spec["opts"][o] = False
    spec["no_copy"] = rng.random() < 0.2
    # pass_through for date would leave date objects in to_dict output: fine (compared with the twin)
    spec["date"] = rng.choice([None, "obj", "both", "ser", "both", "obj"])
    spec["int"] = rng.choice([None, None, "obj", "both"])
    return spec


# ----------------------------------------------------------------------------------------
# A. histories
# ----------------------------------------------------------------------------------------

FIELD_KINDS = ["date", "int", "optint", "alias", "nt", "list", "inner", "plain", "bytes", "datetime", "gen", "disc"]
MIXIN_SLOTS = {
    "dict": [("dict", False), ("dict", True)],
    "orjson": [("dict", False), ("dict", True), ("jsonb", False), ("json", True)],
    "msgpack": [("dict", False), ("dict", True), ("msgpack", False), ("msgpack", True)],
}


def draw_history(rng, tier):
    n = rng.randint(2, 5)
    mixin = rng.choice(["dict", "dict", "orjson", "msgpack"])
    classes = []
    for i in range(n):
        parent = None if i == 0 else rng.choice([i - 1, i - 1, rng.randrange(i)])
        if parent is None:
            support = rng.random() < 0.9
            own_cfg = True
        else:
            own_cfg = rng.random() < 0.25
            support = (rng.random() < 0.8) if own_cfg else classes[parent]["support"]
        kinds = rng.sample(FIELD_KINDS, rng.randint(1, 3)) if (i == 0 or rng.random() < 0.8) else []
        # a class may have a Config.dialect of its own: the call dialect is then looked up first and
        # the class's own dialect stays the next fallback (twin: Config.dialect = D over D_own)
        cfg_dialect = rng.choice([0, 1, 2]) if (own_cfg and rng.random() < 0.3) else None
        classes.append({"i": i, "parent": parent, "support": support, "own_cfg": own_cfg, "fields": kinds, "cfg_dialect": cfg_dialect})
        if own_cfg and rng.random() < 0.3:
            # Config.serialization_strategy of the class for types the dialects customise too: a dialect (call-time or
            # Config.dialect alike) is consulted before it
            classes[-1]["cfg_strategy"] = True
    dialects = [draw_dialect_spec(rng, f"D{k}") for k in range(3)]
    events = []
    defined = 0
    ncalls = rng.randint(4, 14 if tier == "quick" else 24)
    calls = 0
    while defined < n or calls < ncalls:
        if defined < n and (defined == 0 or rng.random() < 0.35 or calls >= ncalls):
            events.append({"d": defined})
            defined += 1
            continue
        c = rng.randrange(defined)
        slot = list(rng.choice(MIXIN_SLOTS[mixin]))
        d = rng.choice([None, 0, 1, 2, 0, 1])
        events.append({"q": [c, slot, d]})
        calls += 1
    h = {"mixin": mixin, "classes": classes, "dialects": dialects, "events": events, "seed": rng.randrange(1 << 30)}
    if mixin == "orjson" and rng.random() < 0.5:
        h["orjson_sort"] = True
    return h


class Family:
    """the real classes of one history, or a twin family with a fixed Config.dialect"""

    def __init__(self, h, uid, config_dialect=None, dialects=None):
        from mashumaro import DataClassDictMixin
        from mashumaro.config import ADD_DIALECT_SUPPORT, BaseConfig

        self.h, self.uid, self.cd = h, uid, config_dialect
        self.dialects = dialects
        self.cls = {}
        self.BaseConfig, self.ADD = BaseConfig, ADD_DIALECT_SUPPORT
        if h["mixin"] == "orjson":
            from mashumaro.mixins.orjson import DataClassORJSONMixin as M
        elif h["mixin"] == "msgpack":
            from mashumaro.mixins.msgpack import DataClassMessagePackMixin as M
        else:
            M = DataClassDictMixin
        self.mixin = M
        # nested classes: N opts in (and, in a twin, carries the dialect), P does not
        ncfg = {"code_generation_options": [ADD_DIALECT_SUPPORT]}
        if config_dialect is not None:
            ncfg["dialect"] = config_dialect
        self._ncfg = ncfg
        self._N = self._P = None

    @property
    def N(self):
        if self._N is None:
            self._N = mk(f"N_{self.uid}", (self.mixin,), {"__annotations__": {"d": datetime.date, "o": Optional[int]}, "o": None, "Config": type("Config", (self.BaseConfig,), self._ncfg)})
        return self._N

    @property
    def G(self):
        """a generic nested class that opts in: fields typed G[date] use its specialised methods"""
        if getattr(self, "_G", None) is None:
            import types
            import typing

            Tg = typing.TypeVar("Tg")
            name = f"G_{self.uid}"
            cfgcls = type("Config", (self.BaseConfig,), self._ncfg)
            g = types.new_class(name, (self.mixin, typing.Generic[Tg]), {}, lambda ns: ns.update({"__annotations__": {"x": Tg}, "__module__": __name__, "Config": cfgcls}))
            globals()[name] = g
            _made.append(name)
            self._G = dataclasses.dataclass(g)
        return self._G

    @property
    def DB(self):
        """plain base class of a discriminated field; its one variant (a plain dataclass with a date) is compiled on
        the first deserialization — with or without a call dialect"""
        if getattr(self, "_DB", None) is None:
            self._DB = mk(f"DB_{self.uid}", (), {"__annotations__": {}})
            self._DV = mk(f"DV_{self.uid}", (self._DB,), {"__annotations__": {"kind": str, "d": datetime.date}, "kind": "dv"}, kw_only=True)
        return self._DB

    @property
    def P(self):
        if self._P is None:
            self._P = mk(f"P_{self.uid}", (self.mixin,), {"__annotations__": {"d": datetime.date, "o": Optional[int]}, "o": None})
        return self._P

    def config(self, support, own=None, strategy=False):
        cfg = {"code_generation_options": [self.ADD] if support else []}
        if strategy:
            cfg["serialization_strategy"] = {
                datetime.date: {"serialize": lambda v: f"CS|{v.isoformat()}", "deserialize": lambda x: datetime.date.fromisoformat(x.split("|", 1)[1] if isinstance(x, str) and "|" in x else x) if isinstance(x, str) else x},
                int: {"serialize": lambda v: f"CS#{v}", "deserialize": lambda x: int(x.split("#", 1)[1]) if isinstance(x, str) and "#" in x else int(x)},
            }
        if self.h.get("orjson_sort") and self.h["mixin"] == "orjson":
            import orjson

            # an encoder option of the class: it must be honoured with and without a call dialect
            cfg["orjson_options"] = orjson.OPT_SORT_KEYS
        base = self.dialects[own] if (own is not None and self.dialects) else None
        if self.cd is not None and base is not None:
            cfg["dialect"] = spec_merge(base, self.cd, f"Own{own}")
        elif self.cd is not None:
            cfg["dialect"] = self.cd
        elif base is not None:
            cfg["dialect"] = base
        return type("Config", (self.BaseConfig,), cfg)

    def define(self, i):
        from mashumaro import field_options

        spec = self.h["classes"][i]
        ann, ns = {}, {}
        for kind in spec["fields"]:
            f = f"{kind}{i}"
            if kind == "date":
                ann[f] = datetime.date
            elif kind == "int":
                ann[f] = int
                ns[f] = 0
            elif kind == "optint":
                ann[f] = Optional[int]
                ns[f] = None
            elif kind == "alias":
                ann[f] = str
                ns[f] = dataclasses.field(default="", metadata=field_options(alias=f"A{i}"))
            elif kind == "nt":
                ann[f] = NT
                ns[f] = NT(1, 2)
            elif kind == "list":
                ann[f] = List[int]
                ns[f] = dataclasses.field(default_factory=list)
            elif kind == "bytes":
                ann[f] = bytes
            elif kind == "datetime":
                ann[f] = datetime.datetime
            elif kind == "inner":
                ann[f] = self.N
            elif kind == "plain":
                ann[f] = self.P
            elif kind == "gen":
                ann[f] = self.G[datetime.date]
            elif kind == "disc":
                import typing

                from mashumaro.types import Discriminator

                ann[f] = typing.Annotated[self.DB, Discriminator(field="kind", include_subtypes=True)]
        ns["__annotations__"] = ann
        if spec["parent"] is None:
            bases = (self.mixin,)
            ns["Config"] = self.config(spec["support"], spec.get("cfg_dialect"), spec.get("cfg_strategy", False))
        else:
            bases = (self.cls[spec["parent"]],)
            if spec["own_cfg"]:
                ns["Config"] = self.config(spec["support"], spec.get("cfg_dialect"), spec.get("cfg_strategy", False))
        self.cls[i] = mk(f"C{i}_{self.uid}", bases, ns, kw_only=True)

    def define_upto(self, i):
        """a twin only needs class i and its ancestors"""
        chain = []
        j = i
        while j is not None:
            chain.append(j)
            j = self.h["classes"][j]["parent"]
        for j in reversed(chain):
            if j not in self.cls:
                self.define(j)

    def instance(self, i, rng_seed):
        import random

        rng = random.Random(rng_seed * 1000 + i)
        kw = {}
        j = i
        while j is not None:
            spec = self.h["classes"][j]
            for kind in spec["fields"]:
                f = f"{kind}{j}"
                if kind == "date":
                    kw[f] = datetime.date(2020 + rng.randrange(5), 1 + rng.randrange(12), 1 + rng.randrange(28))
                elif kind == "int":
                    kw[f] = rng.choice([0, 0, 7, -3])
                elif kind == "optint":
                    kw[f] = rng.choice([None, None, 5])
                elif kind == "alias":
                    kw[f] = rng.choice(["", "x"])
                elif kind == "nt":
                    kw[f] = rng.choice([NT(1, 2), NT(3, 4)])
                elif kind == "list":
                    kw[f] = rng.choice([[], [1, 2]])
                elif kind == "bytes":
                    kw[f] = rng.choice([b"", b"\x00\xff", b"abc"])
                elif kind == "datetime":
                    kw[f] = datetime.datetime(2020, 1 + rng.randrange(12), 2, 3, 4, 5)
                elif kind == "inner":
                    kw[f] = self.N(d=datetime.date(2021, 2, 3), o=rng.choice([None, 1]))
                elif kind == "plain":
                    kw[f] = self.P(d=datetime.date(2022, 3, 4), o=rng.choice([None, 1]))
                elif kind == "gen":
                    kw[f] = self.G(x=datetime.date(2023, 4, 5))
                elif kind == "disc":
                    self.DB   # noqa: B018 - creates the variant too
                    kw[f] = self._DV(d=datetime.date(2024, 5, 6))
            j = spec["parent"]
        return self.cls[i](**kw)


def canon(x):
    """class-name-free rendering of results (real family vs twin family)"""
    if dataclasses.is_dataclass(x) and not isinstance(x, type):
        return {"__dc__": type(x).__name__.split("_")[0], **{f.name: canon(getattr(x, f.name)) for f in dataclasses.fields(x)}}
    if isinstance(x, tuple) and hasattr(x, "_fields"):
        return ["__nt__", *[canon(v) for v in x]]
    if isinstance(x, dict):
        return {"__dict__": [[canon(k), canon(v)] for k, v in x.items()]}
    if isinstance(x, (list, tuple)):
        return [type(x).__name__, *[canon(v) for v in x]]
    if isinstance(x, (bytes, bytearray)):
        return ["bytes", bytes(x).hex()]
    if isinstance(x, (datetime.date, datetime.datetime)):
        return ["date", x.isoformat()]
    return x


METHODS = {
    ("dict", False): "to_dict",
    ("dict", True): "from_dict",
    ("jsonb", False): "to_jsonb",
    ("json", True): "from_json",
    ("msgpack", False): "to_msgpack",
    ("msgpack", True): "from_msgpack",
}
PACK_OF = {("dict", True): ("dict", False), ("json", True): ("jsonb", False), ("msgpack", True): ("msgpack", False)}


def do_call(fam, i, slot, dialect, seed):
    """run one call on family `fam`; unpack calls consume what the matching pack call produces
    on the same family with the same dialect (so the input is valid for that dialect)"""
    slot = tuple(slot)
    kw = {"dialect": dialect} if dialect is not None else {}
    obj = fam.instance(i, seed)
    try:
        if not slot[1]:
            return ["ok", canon(getattr(obj, METHODS[slot])(**kw))]
        doc = getattr(obj, METHODS[PACK_OF[slot]])(**kw)
        return ["ok", canon(getattr(fam.cls[i], METHODS[slot])(doc, **kw))]
    except TypeError as e:
        if "unexpected keyword argument 'dialect'" in str(e):
            return ["nomethod"]
        return ["error", type(e).__name__]
    except Exception as e:  # noqa
        return ["error", type(e).__name__]


def model_line(h):
    return {
        "op": "cache",
        "events": [
            ({"d": [e["d"], h["classes"][e["d"]]["parent"], h["classes"][e["d"]]["support"], [list(s) for s in MIXIN_SLOTS[h["mixin"]]]]} if "d" in e else {"q": e["q"]})
            for e in h["events"]
        ],
    }


def run_history(ctx, h, hid, m="ask"):
    uid = f"h{hid}"
    dialects = [make_dialect(s, f"D{k}_{uid}") for k, s in enumerate(h["dialects"])]
    real = Family(h, uid, dialects=dialects)
    twins = {}
    outs = []
    try:
        for ev in h["events"]:
            if "d" in ev:
                real.define(ev["d"])
                outs.append(["defined"])
                continue
            c, slot, d = ev["q"]
            outs.append(do_call(real, c, slot, dialects[d] if d is not None else None, h["seed"]))

        def twin_out(c, slot, d):
            key = (c, d)
            if key not in twins:
                t = Family(h, f"{uid}t{c}x{d}", config_dialect=(dialects[d] if d is not None else None), dialects=dialects)
                t.define_upto(c)
                twins[key] = t
            return do_call(twins[key], c, slot, None, h["seed"])

        if m == "ask":
            mm = ctx.model([model_line(h)])
            m = mm[0] if mm else None
        seen_dialect_call = set()
        nontrivial = False
        for k, ev in enumerate(h["events"]):
            if "d" in ev:
                continue
            c, slot, d = ev["q"]
            spec_c = h["classes"][c]
            if d is not None:
                rel = {c}
                j = spec_c["parent"]
                while j is not None:
                    rel.add(j)
                    j = h["classes"][j]["parent"]
                rel |= {x["i"] for x in h["classes"] if x["parent"] == c}
                if (rel - {c}) & seen_dialect_call:
                    nontrivial = True
                seen_dialect_call.add(c)
            case = {"history": h, "event": k}
            got = outs[k]
            # the statement: a supported dialect call == fresh twin with Config.dialect = D
            if d is not None and not spec_c["support"]:
                want = ["nomethod"]
            else:
                want = twin_out(c, slot, d)
            if got != want:
                ctx.violation(case, {"got": got}, {"fresh_twin": want}, f"call #{k} ({METHODS[tuple(slot)]}, class {c}, dialect {d}) differs from a fresh class with that default dialect", lambda f: False)
            if m is not None:
                pred = m["impl"][k]
                if pred == "nomethod":
                    mwant = ["nomethod"]
                elif pred.startswith("ran:"):
                    _, mc, md = pred.split(":")
                    mwant = twin_out(int(mc), slot, None if md == "-" else int(md)) if (int(mc) == c) else ["method-of-class", int(mc), md]
                else:
                    mwant = [pred]
                if got != mwant:
                    ctx.disagreement(case, {"model": pred, "as_twin": mwant}, got, "cache-history")
                if m["impl"] != m["spec"]:
                    ctx.bump("model_impl_differs_from_spec")
        ctx.count({"history": {k: v for k, v in h.items() if k != "dialects"}, "ndialects": len(h["dialects"])}, nontrivial, kind=f"mixin:{h['mixin']}")
        ctx.bump("history_calls", sum(1 for e in h["events"] if "q" in e))
    finally:
        cleanup()


# ----------------------------------------------------------------------------------------
# B. Dialect.merge vs the model
# ----------------------------------------------------------------------------------------

ALL_OPTS = ["serialize_by_alias", "namedtuple_as_dict", "omit_none", "omit_default", "no_copy_collections"]
KEYS = {"date": datetime.date, "int": int, "bytes": bytes, "str": str}


def draw_merge_side(rng, side):
    opts = {}
    for o in ALL_OPTS:
        r = rng.random()
        if r < 0.35:
            opts[o] = (rng.choice(["(list,)", "(dict,)", "()"]) if o == "no_copy_collections" else rng.choice(["True", "False"]))
    strat = []
    for k in KEYS:
        if rng.random() < 0.5:
            kind = rng.choice(["obj", "pass", "ser", "de", "both"])
            strat.append([k, kind])
    return {"opts": opts, "strat": strat, "side": side}


def real_dialect(spec):
    from mashumaro.dialect import Dialect
    from mashumaro.helper import pass_through
    from mashumaro.types import SerializationStrategy

    side = spec["side"]
    ns = {}
    for o, v in spec["opts"].items():
        ns[o] = eval(v)
    st = {}
    for k, kind in spec["strat"]:
        tag = f"{side}.{k}"

        def s(v, _t=tag):
            return _t

        def d(v, _t=tag):
            return _t

        s.tag = tag + ".s"
        d.tag = tag + ".d"
        if kind == "pass":
            st[KEYS[k]] = pass_through
        elif kind == "obj":
            class S(SerializationStrategy):
                def serialize(self, value):
                    return None

                def deserialize(self, value):
                    return None

            o = S()
            o.tag = tag
            st[KEYS[k]] = o
        elif kind == "ser":
            st[KEYS[k]] = {"serialize": s}
        elif kind == "de":
            st[KEYS[k]] = {"deserialize": d}
        else:
            st[KEYS[k]] = {"serialize": s, "deserialize": d}
    if st or True:
        ns["serialization_strategy"] = st
    return type(f"Dm_{side}", (Dialect,), ns)


def fn_tag(fn, direction):
    from mashumaro.helper import pass_through

    if fn is None:
        return None
    if fn is pass_through or getattr(fn, "__self__", None) is pass_through:
        return "pass"
    if hasattr(fn, "tag"):
        return fn.tag
    owner = getattr(fn, "__self__", None)
    if owner is not None and hasattr(owner, "tag"):
        return owner.tag + (".s" if direction == "serialize" else ".d")
    return f"?{fn!r}"


def reg_dirs(reg):
    """a registration as (serialize tag, deserialize tag)"""
    from mashumaro.helper import pass_through
    from mashumaro.types import SerializationStrategy

    if reg is None:
        return (None, None)
    if reg is pass_through:
        return ("pass", "pass")
    if isinstance(reg, SerializationStrategy):
        return (reg.tag + ".s", reg.tag + ".d")
    return (fn_tag(reg.get("serialize"), "serialize"), fn_tag(reg.get("deserialize"), "deserialize"))


def model_side(spec):
    side = spec["side"]
    strat = []
    for k, kind in spec["strat"]:
        tag = f"{side}.{k}"
        if kind == "pass":
            strat.append([k, True, "pass", "pass"])
        elif kind == "obj":
            strat.append([k, True, tag + ".s", tag + ".d"])
        else:
            strat.append([k, False, tag + ".s" if kind in ("ser", "both") else None, tag + ".d" if kind in ("de", "both") else None])
    return {"opts": [[o, v] for o, v in spec["opts"].items()], "strat": strat}


def run_merge(ctx, n):
    from mashumaro.core.const import Sentinel

    rng = ctx.rng
    cases = [(draw_merge_side(rng, "F"), draw_merge_side(rng, "U")) for _ in range(n)]
    outs = ctx.model([{"op": "merge", "mine": model_side(f), "other": model_side(u)} for f, u in cases])
    for idx, (f, u) in enumerate(cases):
        case = {"merge": {"mine": f, "other": u}}
        ctx.count(case, bool(u["opts"] or u["strat"]) and bool(f["opts"] or f["strat"]), kind="merge")
        F, U = real_dialect(f), real_dialect(u)
        try:
            R = F.merge(U)
        except Exception as e:  # noqa
            ctx.violation(case, {"error": f"{type(e).__name__}: {e}"}, "Dialect.merge succeeds", "merge raised", lambda _f: False)
            continue
        got_opts = {}
        for o in ALL_OPTS:
            v = getattr(R, o, Sentinel.MISSING)
            if v is not Sentinel.MISSING:
                got_opts[o] = repr(v).replace("<class '", "").replace("'>", "")
        want_opts = {o: (u["opts"].get(o, f["opts"].get(o))) for o in ALL_OPTS if o in u["opts"] or o in f["opts"]}
        got_strat = {k: reg_dirs(R.serialization_strategy.get(t)) for k, t in KEYS.items() if t in R.serialization_strategy}
        want_strat = {}
        for k in KEYS:
            fr = dict((a, b) for a, b in f["strat"]).get(k)
            ur = dict((a, b) for a, b in u["strat"]).get(k)
            fd = reg_dirs(real_dialect(f).serialization_strategy.get(KEYS[k])) if fr else (None, None)
            ud = reg_dirs(real_dialect(u).serialization_strategy.get(KEYS[k])) if ur else (None, None)
            if fr or ur:
                want_strat[k] = (ud[0] or fd[0], ud[1] or fd[1])
        norm = lambda d: {k: v.replace(" ", "") for k, v in d.items()}  # noqa
        if norm(got_opts) != norm(want_opts) or got_strat != want_strat:
            ctx.violation(case, {"opts": got_opts, "strat": got_strat}, {"opts": want_opts, "strat": want_strat}, "merged dialect is not 'user's value if set, else the format's' in every option / direction", lambda _f: False)
        if outs is not None:
            m = outs[idx]
            m_opts = {k: v for k, v in m["opts"]}
            m_strat = {e[0]: (e[1], e[2]) for e in m["strat"]}
            if norm(m_opts) != norm(got_opts) or m_strat != got_strat:
                ctx.disagreement(case, {"opts": m_opts, "strat": m_strat}, {"opts": got_opts, "strat": got_strat}, "merge")


# ----------------------------------------------------------------------------------------
# C. the same dialect means the same document in every format
# ----------------------------------------------------------------------------------------


def codec_families():
    import json as _json

    fams = {}
    from mashumaro.codecs.basic import BasicDecoder, BasicEncoder

    fams["basic"] = (BasicEncoder, BasicDecoder, lambda x: x, lambda x: x, None)
    from mashumaro.codecs.json import JSONDecoder, JSONEncoder

    fams["json"] = (JSONEncoder, JSONDecoder, _json.loads, _json.dumps, None)
    try:
        import orjson
        from mashumaro.codecs.orjson import ORJSONDecoder, ORJSONEncoder
        from mashumaro.mixins.orjson import OrjsonDialect

        fams["orjson"] = (ORJSONEncoder, ORJSONDecoder, orjson.loads, orjson.dumps, OrjsonDialect)
    except ImportError:
        pass
    try:
        import yaml
        from mashumaro.codecs.yaml import YAMLDecoder, YAMLEncoder

        fams["yaml"] = (YAMLEncoder, YAMLDecoder, lambda s: yaml.load(s, Loader=getattr(yaml, "CSafeLoader", yaml.SafeLoader)), lambda o: yaml.dump(o, Dumper=getattr(yaml, "CDumper", yaml.Dumper), sort_keys=False), None)
    except ImportError:
        pass
    try:
        import msgpack
        from mashumaro.codecs.msgpack import MessagePackDecoder, MessagePackEncoder
        from mashumaro.mixins.msgpack import MessagePackDialect

        fams["msgpack"] = (MessagePackEncoder, MessagePackDecoder, lambda b: msgpack.unpackb(b, raw=False), lambda o: msgpack.packb(o, use_bin_type=True), MessagePackDialect)
    except ImportError:
        pass
    try:
        import tomllib

        import tomli_w
        from mashumaro.codecs.toml import TOMLDecoder, TOMLEncoder
        from mashumaro.mixins.toml import TOMLDialect

        fams["toml"] = (TOMLEncoder, TOMLDecoder, tomllib.loads, tomli_w.dumps, TOMLDialect)
    except ImportError:
        pass
    return fams


def spec_merge(F, U, name):
    """the statement's merged dialect, computed without Dialect.merge: the user's value if set,
    else the format's — for every Dialect option and, per type key, per direction"""
    from mashumaro.core.const import Sentinel
    from mashumaro.dialect import Dialect
    from mashumaro.helper import pass_through
    from mashumaro.types import SerializationStrategy

    if F is None:
        return U
    if U is None:
        return F
    ns = {}
    for o in [a for a in typing.get_type_hints(Dialect) if a != "serialization_strategy"]:
        uv = getattr(U, o, Sentinel.MISSING)
        fv = getattr(F, o, Sentinel.MISSING)
        v = uv if uv is not Sentinel.MISSING else fv
        if v is not Sentinel.MISSING:
            ns[o] = v

    def dirs(reg):
        if reg is None:
            return {}
        if reg is pass_through:
            return {"serialize": pass_through, "deserialize": pass_through}
        if isinstance(reg, SerializationStrategy):
            return {"serialize": reg.serialize, "deserialize": reg.deserialize}
        return dict(reg)

    st = {}
    for k in list(F.serialization_strategy) + [k for k in U.serialization_strategy if k not in F.serialization_strategy]:
        ur, fr = U.serialization_strategy.get(k), F.serialization_strategy.get(k)
        if isinstance(ur, SerializationStrategy):
            st[k] = ur
        elif ur is None:
            st[k] = fr
        else:
            st[k] = {**dirs(fr), **dirs(ur)}
    ns["serialization_strategy"] = st
    return type(name, (Dialect,), ns)


UNI_DIALECTS = [
    {"tag": "u0", "opts": {"omit_none": True}},
    {"tag": "u1", "opts": {"omit_default": True}},
    {"tag": "u2", "opts": {"serialize_by_alias": True}},
    {"tag": "u3", "opts": {"namedtuple_as_dict": True}},
    {"tag": "u4", "opts": {}, "no_copy": True},
    {"tag": "u5", "opts": {}, "date": "obj"},
    {"tag": "u6", "opts": {}, "date": "both", "int": "both"},
    {"tag": "u7", "opts": {}, "date": "ser"},
    {"tag": "u8", "opts": {}, "date": "de"},
    {"tag": "u9", "opts": {"omit_none": True, "omit_default": True, "serialize_by_alias": True, "namedtuple_as_dict": True}, "date": "obj", "int": "obj", "no_copy": True},
    {"tag": "u10", "opts": {"omit_none": False, "serialize_by_alias": False}},
    # the user's registration for a type the FORMAT treats natively must win in every codec
    {"tag": "u11", "opts": {}, "bytes": "both"},
    {"tag": "u12", "opts": {}, "bytes": "obj", "datetime": "obj"},
    {"tag": "u13", "opts": {}, "datetime": "both", "date": "both"},
    {"tag": "u14", "opts": {}, "bytes": "ser"},
    {"tag": "u15", "opts": {}, "datetime": "de"},
]


def uniform_shape(uid, mixin=None):
    from mashumaro import field_options

    ann = {"d": datetime.date, "n": int, "o": Optional[int], "a": str, "t": NT, "l": List[int], "s": str, "b": bytes, "dt": datetime.datetime}
    ns = {"__annotations__": ann, "b": b"\x00\xffab", "dt": datetime.datetime(2024, 2, 29, 1, 2, 3), "n": 0, "o": None, "a": dataclasses.field(default="", metadata=field_options(alias="A")), "t": NT(1, 2), "l": dataclasses.field(default_factory=list), "s": "k"}
    return mk(f"U_{uid}", (mixin,) if mixin else (), ns, kw_only=True)


def uniform_values(T, rng, n):
    vals = [T(d=datetime.date(2024, 2, 29)), T(d=datetime.date(1999, 12, 31), n=5, o=3, a="x", t=NT(7, 8), l=[1, 2, 3], s="z")]
    for _ in range(n):
        vals.append(T(d=datetime.date(2000 + rng.randrange(30), 1 + rng.randrange(12), 1 + rng.randrange(28)), n=rng.choice([0, 1, -9]), o=rng.choice([None, 0, 4]), a=rng.choice(["", "q"]), t=rng.choice([NT(1, 2), NT(0, 0)]), l=rng.choice([[], [5]]), s=rng.choice(["k", "m"])))
    return vals


def run_uniform(ctx, nvals, specs):
    fams = codec_families()
    ctx.extra["codec_families"] = sorted(fams)
    T = uniform_shape("c")
    for si, spec in enumerate(specs):
        D = make_dialect(spec, f"UD{si}")
        for shape_name, shape, wrap, unwrap in (("T", T, lambda v: v, lambda r: r), ("List[T]", List[T], lambda v: [v, v], lambda r: r)):
            for fname, (Enc, Dec, parse, ser, FD) in fams.items():
                if fname == "toml" and shape_name != "T":
                    continue  # TOML documents are tables
                merged = spec_merge(FD, D, f"SM{si}{fname}")
                case0 = {"uniform": {"family": fname, "dialect": spec, "shape": shape_name}}
                try:
                    enc = Enc(shape, default_dialect=D)
                    dec = Dec(shape, default_dialect=D)
                    from mashumaro.codecs.basic import BasicDecoder, BasicEncoder

                    benc = BasicEncoder(shape, default_dialect=merged)
                    bdec = BasicDecoder(shape, default_dialect=merged)
                except Exception as e:  # noqa
                    ctx.violation(case0, {"error": f"{type(e).__name__}: {e}"[:300]}, "codec builds", "codec construction failed", lambda _f: False)
                    continue
                one_way = any(spec.get(k) == "ser" for k in ("date", "int", "bytes", "datetime"))
                for vi, v in enumerate(uniform_values(T, ctx.rng, nvals)):
                    case = {**case0, "value": canon(v)}
                    ctx.count(case, True, kind=f"uniform:{fname}")
                    try:
                        basic = benc.encode(wrap(v))
                        want = parse(ser(basic))
                    except Exception as e:  # noqa
                        # the merged dialect itself asks for something the format cannot carry
                        # (e.g. the user's omit_none=False for TOML): the codec must fail as well
                        ctx.bump("uniform:reference-not-representable")
                        try:
                            enc.encode(wrap(v))
                        except Exception:  # noqa
                            continue
                        ctx.violation(case, {"encoded": True}, {"reference_error": f"{type(e).__name__}: {e}"[:200]}, f"{fname} codec succeeds where the basic codec under the merged dialect is not representable", lambda _f: False)
                        continue
                    try:
                        doc = enc.encode(wrap(v))
                        got = parse(doc)
                        if one_way:
                            back = bback = None
                        else:
                            back = dec.decode(doc)
                            bback = bdec.decode(parse(doc)) if fname != "basic" else bdec.decode(doc)
                    except Exception as e:  # noqa
                        ctx.violation(case, {"error": f"{type(e).__name__}: {e}"[:300]}, "encode/decode succeed", "codec with default_dialect failed", lambda _f: False)
                        continue
                    if canon(got) != canon(want):
                        ctx.violation(case, {"document": canon(got)}, {"basic_codec_under_merged_dialect": canon(want)}, f"{fname} codec does not honour the default_dialect like the basic codec does", lambda _f: False)
                    if canon(back) != canon(bback):
                        ctx.violation(case, {"decoded": canon(back)}, {"basic_decoder_under_merged_dialect": canon(bback)}, f"{fname} decoder does not honour the default_dialect like the basic decoder does", lambda _f: False)
                    if spec.get("no_copy") and not spec.get("int") and fname == "basic" and shape_name == "T" and v.l:
                        if doc["l"] is not v.l:
                            ctx.violation(case, {"copied": True}, "list passed by reference under no_copy_collections=(list,)", "no_copy_collections of the default_dialect ignored", lambda _f: False)
    # format mixins called with dialect=D: stacked lookup must equal the codec's merged dialect
    for mname, slots in (("orjson", ("to_jsonb", "from_json")), ("msgpack", ("to_msgpack", "from_msgpack")), ("toml", ("to_toml", "from_toml")), ("yaml", ("to_yaml", "from_yaml")), ("json", ("to_json", "from_json"))):
        if mname not in fams:
            continue
        import importlib

        mod = importlib.import_module(f"mashumaro.mixins.{mname}")
        Mixin = [getattr(mod, a) for a in dir(mod) if a.startswith("DataClass") and a.endswith("Mixin") and a != "DataClassDictMixin"][0]
        from mashumaro.config import ADD_DIALECT_SUPPORT, BaseConfig

        TM = mk(f"UM_{mname}", (Mixin,), {**{"__annotations__": dict(T.__annotations__)}, **{k: v for k, v in (("n", 0), ("o", None), ("t", NT(1, 2)), ("s", "k"), ("b", b"\x00\xffab"), ("dt", datetime.datetime(2024, 2, 29, 1, 2, 3)))}, "a": dataclasses.field(default="", metadata={"alias": "A"}), "l": dataclasses.field(default_factory=list), "Config": type("Config", (BaseConfig,), {"code_generation_options": [ADD_DIALECT_SUPPORT]})}, kw_only=True)
        Enc, Dec, parse, ser, FD = fams[mname]
        for si, spec in enumerate(specs):
            D = make_dialect(spec, f"UMD{si}")
            enc = Enc(T, default_dialect=D)
            dec = Dec(T, default_dialect=D)
            for v in uniform_values(T, ctx.rng, max(1, nvals // 2)):
                vm = TM(**{f.name: getattr(v, f.name) for f in dataclasses.fields(v)})
                case = {"uniform": {"mixin": mname, "dialect": spec}, "value": canon(v)}
                ctx.count(case, True, kind=f"uniform-mixin:{mname}")
                try:
                    got = parse(getattr(vm, slots[0])(dialect=D))
                    want = parse(enc.encode(v))
                    back = None if any(spec.get(k) == "ser" for k in ("date", "int", "bytes", "datetime")) else getattr(TM, slots[1])(getattr(vm, slots[0])(dialect=D), dialect=D)
                except Exception as e:  # noqa
                    try:
                        enc.encode(v)
                    except Exception:  # noqa
                        ctx.bump("uniform:reference-not-representable")
                        continue
                    ctx.violation(case, {"error": f"{type(e).__name__}: {e}"[:300]}, "mixin call with dialect succeeds", "format mixin with dialect= failed", lambda _f: False)
                    continue
                if canon(got) != canon(want):
                    ctx.violation(case, {"mixin_document": canon(got)}, {"codec_document": canon(want)}, f"{mname} mixin with dialect=D and {mname} codec with default_dialect=D disagree", lambda _f: False)
                if back is not None:
                    cb = canon(back)
                    cv = canon(dec.decode(enc.encode(v)))
                    cb.pop("__dc__"), cv.pop("__dc__")
                    if cb != cv:
                        ctx.violation(case, {"mixin_decoded": cb}, {"codec_decoded": cv}, f"{mname} mixin from_*(dialect=D) and {mname} decoder with default_dialect=D disagree", lambda _f: False)
    cleanup()


def run(ctx):
    ctx.rule = RULE
    ctx.lean_check("Mashu.Props.C13", THEOREMS, extra_targets=["Mashu.Dispatch"])
    if ctx.tables.get("cacheGuardOwnDict") is not True:
        ctx.notes.append(f"cache guard extracted from the source: {ctx.tables.get('cacheGuards')}")
    quick = ctx.tier == "quick"
    import time
    t0 = time.time()
    run_merge(ctx, 400 if quick else 6000)
    t1 = time.time()
    run_uniform(ctx, 2 if quick else 12, UNI_DIALECTS)
    t2 = time.time()
    ctx.extra["phase_seconds"] = {"merge": round(t1 - t0, 1), "uniform": round(t2 - t1, 1)}
    n = 400 if quick else 5000
    # repaired defects first: their witnesses must keep passing (they suppress nothing)
    corpus = [f["witness"]["history"] for f in ctx.known if f.get("status") == "fixed" and isinstance(f.get("witness"), dict) and "history" in f["witness"]]
    ctx.bump("corpus(fixed findings)", len(corpus))
    hs = corpus + [draw_history(ctx.rng, ctx.tier) for _ in range(n)]
    n = len(hs)
    ms = ctx.model([model_line(h) for h in hs])
    for hid, h in enumerate(hs):
        if ctx.time_left() < 40:
            ctx.notes.append(f"history loop stopped at {hid} of {n} (time budget)")
            break
        run_history(ctx, h, hid, ms[hid] if ms else None)
    ctx.extra["phase_seconds"]["histories"] = round(time.time() - t2, 1)


def replay(ctx, body):
    ctx.lean_check("Mashu.Props.C13", THEOREMS, extra_targets=["Mashu.Dispatch"])
    c = body["case"]
    if c is None:
        return ctx.finish()
    if "history" in c:
        run_history(ctx, c["history"], 0)
    elif "merge" in c:
        import random

        f, u = c["merge"]["mine"], c["merge"]["other"]
        ctx.rng = random.Random(0)
        # re-run exactly this pair
        global draw_merge_side
        seq = iter([f, u])
        orig = draw_merge_side
        draw_merge_side = lambda rng, side: next(seq)  # noqa
        try:
            run_merge(ctx, 1)
        finally:
            draw_merge_side = orig
    elif "uniform" in c:
        spec = c["uniform"]["dialect"]
        run_uniform(ctx, 4, [spec])
    return ctx.finish()
