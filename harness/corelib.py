"""Running core (pack/unpack) cases on the implementation and on the model, and comparing."""
from __future__ import annotations

import copy
import json

from . import schema as S

DOCUMENTED = {"notADict", "MissingField", "InvalidFieldValue", "ExtraKeysError", "MissingDiscriminatorError", "SuitableVariantNotFoundError"}


def exc_outcome(e: BaseException, reg: S.Reg):
    from mashumaro import exceptions as X

    def cid(c):
        return reg.ids.get(c, getattr(c, "__name__", repr(c)))

    if isinstance(e, X.InvalidFieldValue):
        return {"kind": "InvalidFieldValue", "field": e.field_name, "value": S.canon(e.field_value, reg), "cls": cid(e.holder_class)}
    if isinstance(e, X.MissingField):
        return {"kind": "MissingField", "field": e.field_name, "cls": cid(e.holder_class)}
    if isinstance(e, X.ExtraKeysError):
        keys = sorted((S.canon(k, reg) for k in e.extra_keys), key=lambda j: json.dumps(j, sort_keys=True))
        return {"kind": "ExtraKeysError", "keys": keys, "cls": cid(e.target_type)}
    if isinstance(e, X.MissingDiscriminatorError):
        return {"kind": "MissingDiscriminatorError", "field": e.field_name}
    if isinstance(e, X.SuitableVariantNotFoundError):
        return {"kind": "SuitableVariantNotFoundError", "root": cid(e.variants_type), "tag": S.canon(e.discriminator_value, reg)}
    if type(e) is ValueError and e.args and isinstance(e.args[0], str) and "should be a dict instance" in e.args[0]:
        return {"kind": "notADict"}
    return {"kind": "py", "py": S.ek_of(e), "type": type(e).__name__, "msg": str(e)[:120]}


def norm_model_err(err: dict, reg: S.Reg) -> dict:
    k = err.get("kind")
    if k == "ValueError":
        return {"kind": "py", "py": "ValueError"}
    if k == "notADict":
        return {"kind": "notADict"}
    if k == "ExtraKeysError":
        keys = sorted(err["keys"], key=lambda j: json.dumps(j, sort_keys=True))
        return {"kind": k, "keys": keys, "cls": err["cls"]}
    return err


def real_pack(ty, value, reg: S.Reg, entry: str):
    """returns (outcome, python_result, value as the model must see it: sets listed in the
    iteration order of the very object that is serialized)"""
    from mashumaro.codecs.basic import BasicEncoder

    try:
        ann = S.realize(ty, reg)
        obj = S.from_v(value, reg)
    except RecursionError:
        raise
    except Exception as e:  # class could not be built: reported by caller
        return {"build_error": f"{type(e).__name__}: {e}"[:300]}, None, value
    viter = S.canon(obj, reg, iter_order=True)
    try:
        if entry == "mixin":
            r = obj.to_dict()
        else:
            r = BasicEncoder(ann).encode(obj)
        return {"ok": S.canon(r, reg)}, r, viter
    except RecursionError:
        raise
    except Exception as e:
        return {"err": exc_outcome(e, reg)}, None, viter


def real_unpack(ty, data, reg: S.Reg, entry: str):
    from mashumaro.codecs.basic import BasicDecoder

    try:
        ann = S.realize(ty, reg)
        d = S.from_v(data, reg)
    except RecursionError:
        raise
    except Exception as e:
        return {"build_error": f"{type(e).__name__}: {e}"[:300]}, None, None
    before = copy.deepcopy(d)
    try:
        if entry == "mixin":
            r = ann.from_dict(d)
        else:
            r = BasicDecoder(ann).decode(d)
        out = {"ok": S.canon(r, reg)}
    except RecursionError:
        raise
    except Exception as e:
        out, r = {"err": exc_outcome(e, reg)}, None
    mutated = not S.same(S.canon(before, reg), S.canon(d, reg))
    return out, r, mutated


def compare(model: dict, real: dict, reg: S.Reg):
    """(agree, why).  ok/ok: values equal after Python normalisation; err/err: documented
    exceptions must coincide, raw Python exceptions only need to be raw on both sides."""
    if model is None:
        return True, "model unavailable"
    if "driver_error" in model or "unparsable" in model:
        return False, f"driver: {model}"
    if "ok" in real:
        if "ok" not in model:
            return False, "implementation returned, model raised"
        try:
            mv = S.norm_v(model["ok"], reg)
        except Exception as e:
            return False, f"model value not realisable: {e}"
        return (S.same(mv, real["ok"]), "values differ")
    if "err" in real:
        if "err" not in model:
            return False, "implementation raised, model returned"
        me = norm_model_err(model["err"], reg)
        re_ = real["err"]
        if me["kind"] in DOCUMENTED or re_["kind"] in DOCUMENTED:
            a = {k: v for k, v in me.items() if k in ("kind", "field", "cls", "value", "keys")}
            b = {k: v for k, v in re_.items() if k in ("kind", "field", "cls", "value", "keys")}
            if me["kind"] == "notADict":
                a = {"kind": "notADict"}
            if a.get("value") is not None and b.get("value") is not None:
                try:
                    a["value"] = S.norm_v(a["value"], reg)
                except Exception:
                    pass
            return (S.same(a, b), "documented exceptions differ")
        return True, ""
    return True, "build error"
