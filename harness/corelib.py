"""Running core (pack/unpack) cases on the implementation and on the model, and comparing."""
from __future__ import annotations

import copy
import json

from . import schema as S

DOCUMENTED = {"notADict", "MissingField", "InvalidFieldValue", "ExtraKeysError", "MissingDiscriminatorError", "SuitableVariantNotFoundError"}


def exc_outcome(e: BaseException, reg: S.Reg):
    from mashumaro import exceptions as X

    def cid(c):
        return reg.ids.get(c, getattr(c, "__name__", repr(c)))

    # a documented exception must be printable (its message is what a user gets to see)
    if isinstance(e, (X.InvalidFieldValue, X.MissingField, X.ExtraKeysError, X.MissingDiscriminatorError, X.SuitableVariantNotFoundError)):
        try:
            str(e)
        except Exception as e2:  # noqa
            return {"kind": "py", "py": "other", "type": f"{type(e).__name__}.__str__ raised {type(e2).__name__}", "msg": str(e2)[:120]}

    if isinstance(e, X.InvalidFieldValue):
        return {"kind": "InvalidFieldValue", "field": e.field_name, "value": S.canon(e.field_value, reg), "cls": cid(e.holder_class)}
    if isinstance(e, X.MissingField):
        return {"kind": "MissingField", "field": e.field_name, "cls": cid(e.holder_class)}
    if isinstance(e, X.ExtraKeysError):
        keys = sorted((S.canon(k, reg) for k in e.extra_keys), key=lambda j: json.dumps(j, sort_keys=True))
        return {"kind": "ExtraKeysError", "keys": keys, "cls": cid(e.target_type)}
    if isinstance(e, X.MissingDiscriminatorError):
        return {"kind": "MissingDiscriminatorError", "field": e.field_name}
    if isinstance(e, X.SuitableVariantNotFoundError):
        return {"kind": "SuitableVariantNotFoundError", "root": cid(e.variants_type), "tag": S.canon(e.discriminator_value, reg)}
    if type(e) is ValueError and e.args and isinstance(e.args[0], str) and "should be a dict instance" in e.args[0]:
        return {"kind": "notADict"}
    return {"kind": "py", "py": S.ek_of(e), "type": type(e).__name__, "msg": str(e)[:120]}


def norm_model_err(err: dict, reg: S.Reg) -> dict:
    k = err.get("kind")
    if k == "ValueError":
        return {"kind": "py", "py": "ValueError"}
    if k == "notADict":
        return {"kind": "notADict"}
    if k == "ExtraKeysError":
        keys = sorted(err["keys"], key=lambda j: json.dumps(j, sort_keys=True))
        return {"kind": k, "keys": keys, "cls": err["cls"]}
    return err


def real_pack(ty, value, reg: S.Reg, entry: str):
    """returns (outcome, python_result, value as the model must see it: sets listed in the
    iteration order of the very object that is serialized)"""
    from mashumaro.codecs.basic import BasicEncoder

    try:
        ann = S.realize(ty, reg)
        obj = S.from_v(value, reg)
    except RecursionError:
        raise
    except Exception as e:  # class could not be built: reported by caller
        return {"build_error": f"{type(e).__name__}: {e}"[:300]}, None, value
    objmap = {}
    viter = S.canon(obj, reg, iter_order=True, objmap=objmap)
    reg.objmap = objmap
    try:
        if entry == "mixin":
            r = obj.to_dict()
        else:
            r = BasicEncoder(ann).encode(obj)
        return {"ok": S.canon(r, reg)}, r, viter
    except RecursionError:
        raise
    except Exception as e:
        return {"err": exc_outcome(e, reg)}, None, viter


def real_unpack(ty, data, reg: S.Reg, entry: str):
    from mashumaro.codecs.basic import BasicDecoder

    try:
        ann = S.realize(ty, reg)
        d = S.from_v(data, reg)
    except RecursionError:
        raise
    except Exception as e:
        return {"build_error": f"{type(e).__name__}: {e}"[:300]}, None, None
    reg.last_input_iter = S.canon(d, reg, iter_order=True)
    try:
        before = copy.deepcopy(d)
    except Exception:
        before = None
    try:
        if entry == "mixin":
            r = ann.from_dict(d)
        else:
            r = BasicDecoder(ann).decode(d)
        out = {"ok": S.canon(r, reg)}
    except RecursionError:
        raise
    except Exception as e:
        out, r = {"err": exc_outcome(e, reg)}, None
    mutated = before is not None and not S.same(S.canon(before, reg), S.canon(d, reg))
    return out, r, mutated


def compare(model: dict, real: dict, reg: S.Reg):
    """(agree, why).  ok/ok: values equal after Python normalisation; err/err: documented
    exceptions must coincide, raw Python exceptions only need to be raw on both sides."""
    if model is None:
        return True, "model unavailable"
    if model.get("inconclusive"):
        return True, "inconclusive: oracle table incomplete for this case"
    if "driver_error" in model or "unparsable" in model:
        return False, f"driver: {model}"
    if "ok" in real:
        if "ok" not in model:
            return False, "implementation returned, model raised"
        try:
            mv = S.norm_v(model["ok"], reg)
        except Exception as e:
            return False, f"model value not realisable: {e}"
        return (S.same(mv, real["ok"]), "values differ")
    if "err" in real:
        if "err" not in model:
            return False, "implementation raised, model returned"
        me = norm_model_err(model["err"], reg)
        re_ = real["err"]
        if me["kind"] in DOCUMENTED or re_["kind"] in DOCUMENTED:
            a = {k: v for k, v in me.items() if k in ("kind", "field", "cls", "value", "keys")}
            b = {k: v for k, v in re_.items() if k in ("kind", "field", "cls", "value", "keys")}
            if me["kind"] == "notADict":
                a = {"kind": "notADict"}
            if a.get("value") is not None and b.get("value") is not None:
                try:
                    a["value"] = S.norm_v(a["value"], reg)
                except Exception:
                    pass
            return (S.same(a, b), "documented exceptions differ")
        return True, ""
    return True, "build error"


# ---------------------------------------------------------------------------------------
# wire classes / ambiguity of unions (the exclusion "unions whose members share a wire form")
# ---------------------------------------------------------------------------------------

STR_LEAVES = {"datetime", "date", "time", "timezone", "zoneinfo", "uuid", "decimal", "fraction", "ipv4addr", "ipv6addr", "ipv4net", "ipv6net", "ipv4if", "ipv6if", "path", "pattern", "bytes", "bytearray"}


def wire_classes(t, nt_as_dict=False) -> set:
    """the JSON-level classes a member's serialized form can have"""
    if isinstance(t, str):
        return {"any": {"null", "bool", "int", "float", "str", "list", "dict"}, "none": {"null"}, "bool": {"bool"}, "int": {"int"}, "float": {"float"}, "str": {"str"}}[t]
    tag = t[0]
    if tag == "leaf":
        return {"float"} if t[1] == "timedelta" else {"str"}
    if tag in ("enum", "lit"):
        out = set()
        vals = [v for _m, v in t[2]] if tag == "enum" else [w for _c, w in t[1]]
        for v in vals:
            if v is None:
                out.add("null")
            elif v is True or v is False:
                out.add("bool")
            else:
                out.add({"i": "int", "f": "float", "s": "str"}.get(v[0], "other"))
        return out
    if tag == "opt":
        return {"null"} | wire_classes(t[1], nt_as_dict)
    if tag == "union":
        out = set()
        for m in t[1]:
            out |= wire_classes(m, nt_as_dict)
        return out
    if tag in ("coll", "tvar", "tfix", "tunp", "chain"):
        return {"list"}
    if tag == "nt":
        return {"list", "dict"}
    if tag in ("map", "td", "dc"):
        return {"dict"}
    return {"other"}


def ambiguous_union(ty) -> bool:
    """does the schema contain a union two of whose members can have the same wire class?"""
    for n in S.ty_nodes(ty):
        if not isinstance(n, str) and n[0] == "union":
            seen = set()
            for m in n[1]:
                w = wire_classes(m)
                if w & seen:
                    return True
                seen |= w
    return False


def has_union(ty) -> bool:
    return any((not isinstance(n, str)) and n[0] == "union" for n in S.ty_nodes(ty))


def mentions(ty, tag, sub=None) -> bool:
    for n in S.ty_nodes(ty):
        if not isinstance(n, str) and n[0] == tag and (sub is None or n[1] == sub):
            return True
    return False


def py_conforms(ty, x, reg) -> bool:
    """independent reading of the annotation: is x an instance of it, built from the very
    classes named (canonical concrete classes)?"""
    import collections
    import dataclasses
    import types as _t

    if isinstance(ty, str):
        if ty == "any":
            return True
        return type(x) is {"none": type(None), "bool": bool, "int": int, "float": float, "str": str}[ty]
    tag = ty[0]
    if tag == "leaf":
        c = S.LEAF_TYPES[ty[1]]
        if ty[1] == "path":
            import pathlib

            return type(x) is pathlib.PosixPath
        if ty[1] == "pattern":
            import re

            return isinstance(x, re.Pattern)
        return type(x) is c
    if tag == "enum":
        return type(x) is reg.by_id[ty[1]]
    if tag == "lit":
        for c, _w in ty[1]:
            cv = S.from_v(c, reg)
            if type(cv) is type(x) and cv == x:
                return True
        return False
    if tag == "opt":
        return x is None or py_conforms(ty[1], x, reg)
    if tag == "union":
        return any(py_conforms(m, x, reg) for m in ty[1])
    if tag == "coll":
        return type(x) is S.COLL_CLASS[ty[1]] and all(py_conforms(ty[2], e, reg) for e in x)
    if tag == "map":
        if type(x) is not S.MAP_CLASS[ty[1]]:
            return False
        if ty[1] == "ddict" and x.default_factory is not None:
            # a rebuilt defaultdict is usable as one: its factory is a callable CLASS, the one behind the value type
            # where that is a builtin container / scalar (typing.List[int] is not callable)
            vt = ty[3]
            expect = {"int": int, "float": float, "str": str, "bool": bool}.get(vt) if isinstance(vt, str) else (S.COLL_CLASS.get(vt[1]) if vt[0] == "coll" else (S.MAP_CLASS.get(vt[1]) if vt[0] == "map" else None))
            if not isinstance(x.default_factory, type):
                return False
            if expect is not None and x.default_factory is not expect:
                return False
        return all(py_conforms(ty[2], k, reg) and py_conforms(ty[3], v, reg) for k, v in x.items())
    if tag == "chain":
        return type(x) is collections.ChainMap and all(type(m) is dict and all(py_conforms(ty[1], k, reg) and py_conforms(ty[2], v, reg) for k, v in m.items()) for m in x.maps)
    if tag == "tvar":
        return type(x) is tuple and all(py_conforms(ty[1], e, reg) for e in x)
    if tag == "tfix":
        return type(x) is tuple and len(x) == len(ty[1]) and all(py_conforms(t, e, reg) for t, e in zip(ty[1], x))
    if tag == "tunp":
        pre, mid, post = ty[1], ty[2], ty[3]
        if type(x) is not tuple or len(x) < len(pre) + len(post):
            return False
        a, b, c = x[: len(pre)], x[len(pre) : len(x) - len(post)], x[len(x) - len(post) :]
        return all(py_conforms(t, e, reg) for t, e in zip(pre, a)) and all(py_conforms(mid, e, reg) for e in b) and all(py_conforms(t, e, reg) for t, e in zip(post, c))
    if tag == "nt":
        return type(x) is reg.by_id[ty[1]] and len(x) == len(ty[2]) and all(py_conforms(t, e, reg) for (_n, t), e in zip(ty[2], x))
    if tag == "td":
        if type(x) is not dict:
            return False
        allk = {n: t for n, t in ty[2] + ty[3]}
        if any(k not in allk for k in x):
            return False
        if any(n not in x for n, _t2 in ty[2]):
            return False
        return all(py_conforms(allk[k], v, reg) for k, v in x.items())
    if tag == "dc":
        if type(x) is not reg.by_id[ty[1]]:
            return False
        for fd, t in ty[3]:
            if not hasattr(x, fd["name"]):
                return False
            v = getattr(x, fd["name"])
            if v is None and fd.get("default") is not None and fd["default"][1] is None:
                continue
            if not py_conforms(t, v, reg):
                return False
        return True
    return False
