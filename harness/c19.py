"""C19 — hooks run exactly once per instance, in order, through every entry point.

Theorems (Props/C19.lean): trace_is_traversal_mixin / trace_is_traversal_codec (packT_trav,
packAny_trav: mutual structural induction; union-free shapes, conforming values, both entry
points, context chains), detrace_is_traversal (unpackT_trav), union_double_pre_hook /
context_lost_across_plain_class (decided witnesses of finding K7).

Tie: generated class families (random hook sets, ADD_SERIALIZATION_CONTEXT on/off, mixin or
plain classes, dict / orjson / msgpack mixins) in generated shapes (nested instances, List,
Optional, Dict values, Tuple, NamedTuple-free unions of classes); the event log recorded by the
real hooks (kind, class, instance uid, 'received the caller's context object') through
to_dict / to_jsonb / to_msgpack / Encoder.encode and from_dict / Decoder.decode is compared with
the trace of the Lean model (implementation semantics, incl. union speculation) and with the
traversal of the value (the statement); hook return values are checked through marker fields.
"""
from __future__ import annotations

import dataclasses
import typing
from typing import Dict, List, Optional, Tuple, Union

THEOREMS = [
    "Mashu.Hooks.trace_is_traversal_mixin",
    "Mashu.Hooks.trace_is_traversal_codec",
    "Mashu.Hooks.packT_trav",
    "Mashu.Hooks.packAny_trav",
    "Mashu.Hooks.detrace_is_traversal",
    "Mashu.Hooks.unpackT_trav",
    "Mashu.Hooks.union_double_pre_hook",
    "Mashu.Hooks.union_single_pre_hook_mixin",
    "Mashu.Hooks.context_lost_across_plain_class",
    "Mashu.DispatchCall.invoked_once",
    "Mashu.DispatchCall.warm_eq_cold",
    "Mashu.DispatchCall.broad_guard_calls_twice",
    "Mashu.DispatchCall.lookup_only_pinned",
]
RULE = (
    "family of 2-4 classes, each with a random subset of the four hooks, ADD_SERIALIZATION_CONTEXT on/off, mixin (dict/orjson/msgpack) or plain; "
    "shape of each class: uid, marker, and 0-2 fields drawn from {nested class, List[cls], Optional[cls], Dict[str, cls], Tuple[cls, int], Union[clsX, clsY]}; "
    "entry points: to_dict / to_jsonb / to_msgpack (with and without context) and Encoder.encode; from_dict and Decoder.decode; "
    "non-trivial = at least two instances with hooks in the value"
)

_made: list[str] = []


def cleanup():
    for n in _made:
        globals().pop(n, None)
    _made.clear()


FIELD_KINDS = ["inst", "list", "opt", "dictval", "tup", "union"]


def draw_family(rng):
    n = rng.randint(2, 4)
    mix = rng.choice(["dict", "dict", "orjson", "msgpack"])
    classes = []
    for i in range(n):
        hooks = {k: rng.random() < 0.6 for k in ("pre_ser", "post_ser", "pre_de", "post_de")}
        fields = []
        # a class only refers to classes with a smaller index (no recursion)
        if i > 0:
            for _ in range(rng.randint(0, 2)):
                kind = rng.choice(FIELD_KINDS)
                if kind == "union" and i < 2:
                    kind = "inst"
                tgt = rng.randrange(i)
                tgt2 = rng.choice([j for j in range(i) if j != tgt]) if kind == "union" else None
                fields.append({"kind": kind, "cls": tgt, "cls2": tgt2})
        classes.append({"i": i, "hooks": hooks, "ctx": rng.random() < 0.6, "mixin": rng.random() < 0.75, "fields": fields, "lazy": rng.random() < 0.3})
    classes[-1]["mixin"] = rng.random() < 0.8
    return {"mix": mix, "classes": classes, "seed": rng.randrange(1 << 30)}


class World:
    def __init__(self, fam, uid):
        from mashumaro import DataClassDictMixin
        from mashumaro.config import ADD_SERIALIZATION_CONTEXT, BaseConfig

        self.fam, self.uid = fam, uid
        self.log = []
        self.ctxobj = object()
        self.cls = {}
        if fam["mix"] == "orjson":
            from mashumaro.mixins.orjson import DataClassORJSONMixin as M
        elif fam["mix"] == "msgpack":
            from mashumaro.mixins.msgpack import DataClassMessagePackMixin as M
        else:
            M = DataClassDictMixin
        self.M = M
        for spec in fam["classes"]:
            i = spec["i"]
            ann = {"uid": int, "mark": int, f"own{i}": int}   # own<i>: an attribute / key no other class has
            for k, f in enumerate(spec["fields"]):
                T = self.cls[f["cls"]]
                ann[f"f{k}"] = {
                    "inst": T, "list": List[T], "opt": Optional[T], "dictval": Dict[str, T], "tup": Tuple[T, int],
                    "union": Union[T, self.cls[f["cls2"]]] if f["cls2"] is not None else T,
                }[f["kind"]]
            ns = {"__annotations__": ann}
            cfg = {"code_generation_options": [ADD_SERIALIZATION_CONTEXT] if spec["ctx"] else [], "lazy_compilation": bool(spec.get("lazy"))}
            ns["Config"] = type("Config", (BaseConfig,), cfg)
            name = f"H{i}_{uid}"
            log, ctxobj, want_ctx = self.log, self.ctxobj, spec["ctx"]
            h = spec["hooks"]

            def mk_hooks(name=name, h=h, want_ctx=want_ctx):
                d = {}
                if h["pre_ser"]:
                    if want_ctx:
                        def __pre_serialize__(self, context=None):
                            log.append(["pre_ser", name, self.uid, context is ctxobj])
                            return dataclasses.replace(self, mark=self.mark + 1)
                    else:
                        def __pre_serialize__(self):
                            log.append(["pre_ser", name, self.uid, False])
                            return dataclasses.replace(self, mark=self.mark + 1)
                    d["__pre_serialize__"] = __pre_serialize__
                if h["post_ser"]:
                    if want_ctx:
                        def __post_serialize__(self, dd, context=None):
                            log.append(["post_ser", name, self.uid, context is ctxobj])
                            dd["_post"] = dd.get("_post", 0) + 1
                            return dd
                    else:
                        def __post_serialize__(self, dd):
                            log.append(["post_ser", name, self.uid, False])
                            dd["_post"] = dd.get("_post", 0) + 1
                            return dd
                    d["__post_serialize__"] = __post_serialize__
                if h["pre_de"]:
                    def __pre_deserialize__(cls, dd):
                        log.append(["pre_de", name, dd.get("uid") if isinstance(dd, dict) else None, False])
                        dd = dict(dd)
                        dd["mark"] = dd.get("mark", 0) + 10
                        dd.pop("_post", None)
                        return dd
                    d["__pre_deserialize__"] = classmethod(__pre_deserialize__)
                if h["post_de"]:
                    def __post_deserialize__(cls, obj):
                        log.append(["post_de", name, obj.uid, False])
                        return dataclasses.replace(obj, mark=obj.mark + 100)
                    d["__post_deserialize__"] = classmethod(__post_deserialize__)
                return d

            ns.update(mk_hooks())
            c = type(name, (M,) if spec["mixin"] else (), ns)
            c.__module__ = __name__
            globals()[name] = c
            _made.append(name)
            self.cls[i] = dataclasses.dataclass(c)

    def name(self, i):
        return f"H{i}_{self.uid}"

    # ------------------------------------------------------------------ values
    def value(self, i, rng, counter):
        spec = self.fam["classes"][i]
        counter[0] += 1
        kw = {"uid": counter[0], "mark": 0, f"own{i}": 1}
        for k, f in enumerate(spec["fields"]):
            kind = f["kind"]
            if kind == "inst":
                kw[f"f{k}"] = self.value(f["cls"], rng, counter)
            elif kind == "list":
                kw[f"f{k}"] = [self.value(f["cls"], rng, counter) for _ in range(rng.randrange(3))]
            elif kind == "opt":
                kw[f"f{k}"] = self.value(f["cls"], rng, counter) if rng.random() < 0.7 else None
            elif kind == "dictval":
                kw[f"f{k}"] = {f"k{j}": self.value(f["cls"], rng, counter) for j in range(rng.randrange(3))}
            elif kind == "tup":
                kw[f"f{k}"] = (self.value(f["cls"], rng, counter), 5)
            elif kind == "union":
                kw[f"f{k}"] = self.value(rng.choice([f["cls"], f["cls2"]]) if f["cls2"] is not None else f["cls"], rng, counter)
        return self.cls[i](**kw)

    # ------------------------------------------------------------------ model wire
    def ht(self, i):
        spec = self.fam["classes"][i]
        fs = [["uid", "leaf"], ["mark", "leaf"], [f"own{i}", "leaf"]]
        for k, f in enumerate(spec["fields"]):
            t = self.ht(f["cls"])
            kind = f["kind"]
            if kind == "inst":
                ft = t
            elif kind in ("list", "opt", "dictval"):
                ft = ["list", t]
            elif kind == "tup":
                ft = ["tup", [t, "leaf"]]
            else:
                ft = ["union", [t, self.ht(f["cls2"])]] if f["cls2"] is not None else t
            fs.append([f"f{k}", ft])
        return ["dc", self.name(i), fs]

    def hv(self, obj, ht=None):
        """value for the model, directed by the shape (Optional = a list of 0 or 1 children)"""
        if ht is None:
            ht = self.ht(int(type(obj).__name__.split("_")[0][1:]))
        if ht == "leaf":
            return "leaf"
        tag = ht[0]
        if tag == "dc":
            if dataclasses.is_dataclass(obj) and not isinstance(obj, type):
                own = self.ht(int(type(obj).__name__.split("_")[0][1:]))
                ft = dict((n, t) for n, t in own[2])
                return ["inst", type(obj).__name__, obj.uid, [[f.name, self.hv(getattr(obj, f.name), ft[f.name])] for f in dataclasses.fields(obj)]]
            return "leaf"
        if tag == "list":
            if obj is None:
                return ["list", []]
            if isinstance(obj, dict):
                return ["list", [self.hv(v, ht[1]) for v in obj.values()]]
            if isinstance(obj, (list, tuple)):
                return ["list", [self.hv(v, ht[1]) for v in obj]]
            return ["list", [self.hv(obj, ht[1])]]
        if tag == "tup":
            return ["list", [self.hv(v, t) for v, t in zip(obj, ht[1])]]
        if tag == "union":
            # the value of a union position: rendered by its own class
            return self.hv(obj, None)
        return "leaf"

    def table(self):
        return {self.name(s["i"]): {**s["hooks"], "ctx": s["ctx"]} for s in self.fam["classes"]}


def count_hooked(w, obj):
    n = 0
    if dataclasses.is_dataclass(obj) and not isinstance(obj, type):
        i = int(type(obj).__name__.split("_")[0][1:])
        n += 1 if any(w.fam["classes"][i]["hooks"].values()) else 0
        for f in dataclasses.fields(obj):
            n += count_hooked(w, getattr(obj, f.name))
    elif isinstance(obj, dict):
        n += sum(count_hooked(w, v) for v in obj.values())
    elif isinstance(obj, (list, tuple)):
        n += sum(count_hooked(w, v) for v in obj)
    return n


def check_marks(w, obj, out, problems):
    """hook return values are what is used: every instance's dict carries mark+1 iff its class
    has a pre hook and `_post` == 1 iff it has a post hook"""
    if dataclasses.is_dataclass(obj) and not isinstance(obj, type):
        i = int(type(obj).__name__.split("_")[0][1:])
        h = w.fam["classes"][i]["hooks"]
        if not isinstance(out, dict):
            problems.append(f"instance {obj.uid} not rendered as a dict")
            return
        if out.get("mark") != (1 if h["pre_ser"] else 0):
            problems.append(f"instance {obj.uid}: mark={out.get('mark')} (pre hook {'declared' if h['pre_ser'] else 'absent'})")
        if out.get("_post", 0) != (1 if h["post_ser"] else 0):
            problems.append(f"instance {obj.uid}: _post={out.get('_post', 0)} (post hook {'declared' if h['post_ser'] else 'absent'})")
        for f in dataclasses.fields(obj):
            if f.name in out:
                check_marks(w, getattr(obj, f.name), out[f.name], problems)
    elif isinstance(obj, dict) and isinstance(out, dict):
        for k, v in obj.items():
            if k in out:
                check_marks(w, v, out[k], problems)
    elif isinstance(obj, (list, tuple)) and isinstance(out, list):
        for v, o in zip(obj, out):
            check_marks(w, v, o, problems)


def run_families(ctx, fams):
    import random

    from mashumaro.codecs.basic import BasicDecoder, BasicEncoder

    lines, metas = [], []
    for fi, fam in enumerate(fams):
        w = World(fam, f"{ctx.evaluations}_{fi}")
        try:
            rng = random.Random(fam["seed"])
            root = len(fam["classes"]) - 1
            spec = fam["classes"][root]
            obj = w.value(root, rng, [0])
            nh = count_hooked(w, obj)
            entries = []
            if spec["mixin"]:
                entries.append(("to_dict", True, False, lambda o: o.to_dict()))
                if spec["ctx"]:
                    entries.append(("to_dict+ctx", True, True, lambda o: o.to_dict(context=w.ctxobj)))
                if fam["mix"] == "orjson":
                    import orjson

                    entries.append(("to_jsonb", True, False, lambda o: orjson.loads(o.to_jsonb())))
                if fam["mix"] == "msgpack":
                    import msgpack

                    entries.append(("to_msgpack", True, False, lambda o: msgpack.unpackb(o.to_msgpack(), raw=False)))
            entries.append(("encoder", False, False, lambda o: BasicEncoder(w.cls[root]).encode(o)))
            entries.append(("encoder-list", False, False, lambda o: BasicEncoder(List[w.cls[root]]).encode([o])[0]))
            for ename, nailed, ctxflag, fn in entries:
                del w.log[:]
                case = {"family": fam, "entry": ename}
                ctx.count(case, nh >= 2, kind=f"entry:{ename}")
                try:
                    out = fn(obj)
                    err = None
                except Exception as e:  # noqa
                    out, err = None, f"{type(e).__name__}: {e}"[:200]
                trace = [list(e) for e in w.log]
                lines.append({"op": "hooks", "nailed": nailed, "context": ctxflag, "classes": w.table(), "ty": w.ht(root), "value": w.hv(obj)})
                problems = []
                if err is None:
                    check_marks(w, obj, out, problems)
                metas.append((case, trace, err, problems, "ser"))
            # ---------------- deserialization ----------------
            plain_fam_doc = None
            try:
                # the input document: the serialized form without the effects of serialization hooks
                plain_fam_doc = strip(to_plain(obj))
            except Exception:  # noqa
                pass
            if plain_fam_doc is not None:
                dentries = [("decoder", lambda d: BasicDecoder(w.cls[root]).decode(d))]
                if spec["mixin"]:
                    dentries.append(("from_dict", lambda d: w.cls[root].from_dict(d)))
                for ename, fn in dentries:
                    del w.log[:]
                    case = {"family": fam, "entry": ename}
                    ctx.count(case, nh >= 2, kind=f"entry:{ename}")
                    try:
                        back = fn(plain_fam_doc)
                        err = None
                    except Exception as e:  # noqa
                        back, err = None, f"{type(e).__name__}: {e}"[:200]
                    trace = [list(e) for e in w.log]
                    lines.append({"op": "hooks", "decode": True, "classes": w.table(), "ty": w.ht(root), "value": w.hv(obj)})
                    problems = []
                    if err is None:
                        check_de_marks(w, back, problems)
                    metas.append((case, trace, err, problems, "de"))
        finally:
            cleanup()
    outs = ctx.model(lines)
    for i, (case, trace, err, problems, direction) in enumerate(metas):
        m = outs[i] if outs else None
        has_union = any(f["kind"] == "union" and f["cls2"] is not None for c in case["family"]["classes"] for f in c["fields"])
        if err is not None:
            ctx.violation(case, {"error": err}, "the call succeeds", "(de)serialization of a conforming value raised", lambda f: False)
            continue
        if m is None:
            # no model: the statement itself, for union-free families
            continue
        impl_ok = trace == m["impl"]
        if has_union:
            ctx.bump("union family: implementation trace not compared with the model")
            if direction == "de":
                # hooks of speculatively tried union members are allowed by the statement (only instances of the
                # result are constrained): the marker check above covers "post hook once per result instance"
                if problems:
                    ctx.violation(case, {"problems": problems[:5]}, "hook return values are what is used, exactly once", "marker fields show a hook result ignored or applied twice", lambda f: False)
                continue
            if trace != m["spec"] or problems:
                # finding K7 (a)/(b) through a union: repeated pre events of one instance from failed member attempts, and
                # context flags decided by the FIRST member's call expression (K10); anything else is new
                k7 = norm_union(trace) == norm_union(m["spec"])
                ctx.violation(case, {"trace": trace, "problems": problems[:3]}, {"traversal": m["spec"]}, "hook events differ from the traversal of the value (union position)", lambda f, _k=k7: f["id"] == "K7" and _k)
            continue
        if trace != m["spec"]:
            ctx.violation(case, {"trace": trace}, {"traversal": m["spec"]}, "hook events differ from 'each hook once per instance, pre before and post after its fields, context to every class that opted in'",
                          lambda f, _ok=impl_ok: f["id"] == "K7" and _ok)
        if problems:
            ctx.violation(case, {"problems": problems[:5]}, "hook return values are what is used, exactly once", "marker fields show a hook result ignored or applied twice",
                          lambda f, _ok=impl_ok, _s=(trace != m["spec"]): f["id"] == "K7" and _ok and _s)
        if not impl_ok:
            ctx.disagreement(case, m["impl"], trace, "hooks")


def norm_union(trace):
    """a trace up to the two effects of union speculation: consecutive repetitions of the same pre event, context flags"""
    out = []
    for e in trace:
        k = [e[0], e[1], e[2]]
        if out and out[-1] == k and e[0] == "pre_ser":
            continue
        out.append(k)
    return out


def to_plain(obj):
    if dataclasses.is_dataclass(obj) and not isinstance(obj, type):
        return {f.name: to_plain(getattr(obj, f.name)) for f in dataclasses.fields(obj)}
    if isinstance(obj, dict):
        return {k: to_plain(v) for k, v in obj.items()}
    if isinstance(obj, (list, tuple)):
        return [to_plain(v) for v in obj]
    return obj


def strip(d):
    return d


def check_de_marks(w, obj, problems):
    if dataclasses.is_dataclass(obj) and not isinstance(obj, type):
        i = int(type(obj).__name__.split("_")[0][1:])
        h = w.fam["classes"][i]["hooks"]
        want = (10 if h["pre_de"] else 0) + (100 if h["post_de"] else 0)
        if obj.mark != want:
            problems.append(f"instance {obj.uid}: mark={obj.mark}, expected {want}")
        for f in dataclasses.fields(obj):
            check_de_marks(w, getattr(obj, f.name), problems)
    elif isinstance(obj, dict):
        for v in obj.values():
            check_de_marks(w, v, problems)
    elif isinstance(obj, (list, tuple)):
        for v in obj:
            check_de_marks(w, v, problems)


def run_nofield_variants(ctx, n):
    """a discriminator WITHOUT a field tries the variants in turn: each variant's pre-deserialize hook runs once per
    attempt, and the attempts of one call are the same whether the call is the first one (variants compiled on the
    way) or a later one.  Families: 2-4 variants, plain dataclasses or mixin subclasses, Config- or Annotated-based."""
    import dataclasses
    import typing

    from mashumaro import DataClassDictMixin
    from mashumaro.config import BaseConfig
    from mashumaro.types import Discriminator

    rng = ctx.rng
    for i in range(n):
        nv = rng.randint(2, 4)
        mode = rng.choice(["config", "annotated-plain", "annotated-mixin"])
        hit = rng.randrange(nv + 1)     # which variant accepts the input (nv = none does)
        case = {"nofield": {"variants": nv, "mode": mode, "accepts": hit}}
        ctx.count(case, True, kind=f"nofield:{mode}")
        trace = []

        def mk(name, bases, ann, ns):
            def pre(cls, d, _n=name):
                trace.append(f"pre {_n}")
                return d

            c = type(name, bases, {"__annotations__": ann, "__module__": __name__, "__pre_deserialize__": classmethod(pre), **ns})
            globals()[name] = c
            return dataclasses.dataclass(c)

        names = []
        try:
            if mode == "config":
                Base = mk(f"NF{i}_B", (DataClassDictMixin,), {}, {"Config": type("Config", (BaseConfig,), {"discriminator": Discriminator(include_subtypes=True)})})
            else:
                Base = mk(f"NF{i}_B", (DataClassDictMixin,) if mode == "annotated-mixin" else (), {}, {})
            names.append(Base.__name__)
            for k in range(nv):
                names.append(mk(f"NF{i}_V{k}", (Base,), {f"k{k}": int}, {}).__name__)
            if mode == "config":
                call = lambda d: Base.from_dict(d)   # noqa: E731
            else:
                H = mk(f"NF{i}_H", (DataClassDictMixin,), {"x": typing.Annotated[Base, Discriminator(include_subtypes=True)]}, {})
                names.append(H.__name__)
                call = lambda d: H.from_dict({"x": d})   # noqa: E731
            data = {f"k{hit}": 1} if hit < nv else {"zz": 1}
            runs = []
            for _ in range(3):
                trace.clear()
                try:
                    r = call(dict(data))
                    out = type(getattr(r, "x", r)).__name__
                except Exception as e:  # noqa
                    out = type(e).__name__
                runs.append((out, [t for t in trace if "_V" in t]))
        finally:
            for nm in names:
                globals().pop(nm, None)
        if runs[0] != runs[1] or runs[1] != runs[2]:
            ctx.violation(case, {"first_call": runs[0], "second_call": runs[1], "third_call": runs[2]}, "the hooks run by a call do not depend on whether it is the first call", "hooks of a variant ran twice on the first call", lambda f: False)
        elif any(runs[0][1].count(t) > 1 for t in runs[0][1]):
            ctx.violation(case, {"call": runs[0]}, "a variant is attempted at most once per call", "a variant's pre hook ran twice for one input", lambda f: False)


def run_field_variant_errors(ctx, n):
    """a discriminator WITH a field: the selected variant is deserialized once.  An exception raised INSIDE the variant
    (here by its pre-deserialize hook: KeyError / AttributeError / ValueError, always or only on the first invocation)
    is the caller's business: it must not be mistaken for "tag not registered yet" (a rescan and a second attempt, the
    hook running twice) nor be relabelled as SuitableVariantNotFoundError."""
    import dataclasses
    import typing

    from mashumaro import DataClassDictMixin
    from mashumaro.config import BaseConfig
    from mashumaro.types import Discriminator

    rng = ctx.rng
    model_lines, model_metas = [], []
    for i in range(n):
        mode = rng.choice(["config", "annotated-plain", "annotated-mixin"])
        exc = rng.choice([KeyError, AttributeError, ValueError])
        when = rng.choice(["always", "first"])
        warm = rng.random() < 0.5            # a successful call of another input before
        case = {"field_variant_error": {"mode": mode, "exception": exc.__name__, "when": when, "warm": warm}}
        ctx.count(case, True, kind=f"field-variant-error:{mode}")
        trace, fired = [], []

        def mk(name, bases, ann, ns, hook=False):
            def pre(cls, d, _n=name):
                trace.append(f"pre {_n}")
                if hook and d.get("boom") and (when == "always" or not fired):
                    fired.append(1)
                    raise exc("raised by the hook")
                return d

            c = type(name, bases, {"__annotations__": ann, "__module__": __name__, "__pre_deserialize__": classmethod(pre), **ns})
            globals()[name] = c
            return dataclasses.dataclass(c)

        names = []
        try:
            disc = Discriminator(field="type", include_subtypes=True)
            if mode == "config":
                Base = mk(f"FV{i}_B", (DataClassDictMixin,), {}, {"Config": type("Config", (BaseConfig,), {"discriminator": disc})})
            else:
                Base = mk(f"FV{i}_B", (DataClassDictMixin,) if mode == "annotated-mixin" else (), {}, {})
            V1 = mk(f"FV{i}_V1", (Base,), {"type": str, "a": int}, {"type": "v1", "a": 0}, hook=True)
            V2 = mk(f"FV{i}_V2", (Base,), {"type": str, "b": int}, {"type": "v2", "b": 0})
            names += [Base.__name__, V1.__name__, V2.__name__]
            if mode == "config":
                call = lambda d: Base.from_dict(d)   # noqa: E731
            else:
                H = mk(f"FV{i}_H", (DataClassDictMixin,), {"x": typing.Annotated[Base, disc]}, {})
                names.append(H.__name__)
                call = lambda d: H.from_dict({"x": d})   # noqa: E731
            if warm:
                call({"type": "v1", "a": 1})
            trace.clear()
            try:
                r = call({"type": "v1", "a": 2, "boom": True})
                out = "ok:" + type(getattr(r, "x", r)).__name__
            except Exception as e:  # noqa
                # the exception below the InvalidFieldValue wrapper(s) — not further: on a cold registry the lookup's own
                # KeyError is the implicit context of whatever is raised while it is handled
                root = e
                while type(root).__name__ == "InvalidFieldValue" and (root.__cause__ is not None or root.__context__ is not None):
                    root = root.__cause__ or root.__context__
                out = f"{type(e).__name__}<-{type(root).__name__}"
            hooks = [t for t in trace if t.endswith("_V1")]
        finally:
            for nm in names:
                globals().pop(nm, None)
        model_lines.append({"op": "dispatchcall", "registered": warm, "exists": True,
                            "beh": ([{"KeyError": "key", "AttributeError": "attr", "ValueError": "other"}[exc.__name__]] + (["returns"] if when == "first" else []))})
        res_cls = "value" if out.startswith("ok:") else ("notfound" if "SuitableVariantNotFoundError" in out else "raised:" + {"KeyError": "key", "AttributeError": "attr", "ValueError": "other"}.get(out.split("<-")[-1], "?"))
        model_metas.append((case, len(hooks), res_cls))
        if len(hooks) != 1:
            ctx.violation(case, {"outcome": out, "hook_runs": len(hooks)}, "the selected variant's pre-deserialize hook runs exactly once per call", "an exception raised inside the variant made the dispatcher call it again", lambda f: False)
        elif "SuitableVariantNotFoundError" in out:
            ctx.violation(case, {"outcome": out}, "an exception raised inside the selected variant is not reported as a missing variant", "exception from inside the variant relabelled SuitableVariantNotFoundError", lambda f: False)
    outs = ctx.model(model_lines) if model_lines else []
    for (case, runs, res_cls), mo in zip(model_metas, outs or []):
        if mo.get("invocations") != runs or mo.get("result") != res_cls:
            ctx.disagreement(case, mo, {"invocations": runs, "result": res_cls}, "dispatchcall")
        else:
            ctx.bump("dispatch calls compared with the model")


def run(ctx):
    ctx.rule = RULE
    ctx.lean_check("Mashu.Props.C19", THEOREMS, extra_targets=["Mashu.Dispatch"])
    run_nofield_variants(ctx, 60 if ctx.tier == "quick" else 600)
    run_field_variant_errors(ctx, 60 if ctx.tier == "quick" else 600)
    n = 500 if ctx.tier == "quick" else 9000
    done = 0
    while done < n and ctx.time_left() > 40:
        k = min(250, n - done)
        run_families(ctx, [draw_family(ctx.rng) for _ in range(k)])
        done += k
    from . import c19_recursive

    c19_recursive.run_recursive(ctx, 60 if ctx.tier == "quick" else 1500)


def replay(ctx, body):
    ctx.lean_check("Mashu.Props.C19", THEOREMS, extra_targets=["Mashu.Dispatch"])
    c = body["case"]
    if c and "recursive_alias" in c:
        from . import c19_recursive

        c19_recursive.run_recursive(ctx, 60)
    elif c and "nofield" in c:
        run_nofield_variants(ctx, 60)
    elif c and "field_variant_error" in c:
        run_field_variant_errors(ctx, 80)
    elif c:
        run_families(ctx, [c["family"]])
    return ctx.finish()
