"""C17 — generated code is closed and binds every type by identity.

Theorems (Props/C17.lean): refs_resolve_partial / register_resolves (every alias registered by
`setdefault` resolves to its own object, for every registration sequence with injective naming),
lookup_register_of_some, cleanId_identifier (an alias is always a valid identifier),
dotted_resolves, and the decided witnesses shared_name_misbinds / cleanId_collision (finding K6).

Tie (per generated program, covering every path of it, executed or not):
 * every `exec` of the library is captured (source text, globals, locals) by binding a module
   global `exec` into builder / common / pack / unpack, and every ensure_object_imported /
   ensure_module_imported call is logged;
 * closedness: every name a generated function loads as a global is bound in the captured
   globals or in builtins; every dotted chain rooted at an imported module resolves attribute by
   attribute;
 * identity: every object registered under an alias is what the alias is bound to; the rendered
   dotted name of every schema class evaluates to that very class;
 * the logged registration sequence is replayed in the Lean namespace model and compared with the
   real globals;
 * dynamic: the error-reporting paths of every field (missing key, invalid value) are executed and
   must raise the documented exception carrying the holder class and the annotated type.
Schemas: the generic grammar (codec and mixin paths) plus families aimed at naming: local classes,
same-named classes, functional Enum / NamedTuple, NewType, Literal of enum members, generic
dataclasses specialised with classes from other modules, MappingProxyType, nested containers.
"""
from __future__ import annotations

import ast
import builtins
import dataclasses
import dis
import enum
import sys
import types
import typing

from . import gen
from . import schema as S

THEOREMS = [
    "Mashu.Namespace.refs_resolve_partial",
    "Mashu.Namespace.register_resolves",
    "Mashu.Namespace.lookup_register_of_some",
    "Mashu.Namespace.cleanId_identifier",
    "Mashu.Namespace.dotted_resolves",
    "Mashu.Namespace.shared_name_misbinds",
    "Mashu.Namespace.cleanId_collision",
]
RULE = (
    "program = everything the library execs while building one schema (mixin class creation, Encoder and Decoder for it); schemas: type-directed generation "
    "(depth<=3 quick / 4 thorough) and naming families (module-level / local / same-named / functional classes, NewType, Literal[enum], generic specialisations "
    "over classes of other modules, MappingProxyType); per program: static closedness of every code object, alias identity, dotted-name identity, Lean replay of the "
    "registration log, dynamic execution of the per-field error paths; non-trivial = the program contains at least one generated function that refers to a schema class"
)


class Capture:
    """records every exec of the library and every ensure_* registration while active"""

    MODS = ("mashumaro.core.meta.code.builder", "mashumaro.core.meta.types.common", "mashumaro.core.meta.types.pack", "mashumaro.core.meta.types.unpack")

    def __init__(self):
        self.execs = []     # (source, globals, locals)
        self.regs = []      # (id(globals), name, obj)

    def __enter__(self):
        import importlib

        from mashumaro.core.meta.code.builder import CodeBuilder

        cap = self

        def wrapper(code, g=None, l=None):  # noqa: E741
            cap.execs.append((code, g, l))
            return builtins.exec(code, g, l)

        self.mods = [importlib.import_module(m) for m in self.MODS]
        for m in self.mods:
            m.exec = wrapper
        self._eo, self._em = CodeBuilder.ensure_object_imported, CodeBuilder.ensure_module_imported
        eo, em = self._eo, self._em

        def ensure_object_imported(self_, obj, name=None):
            cap.regs.append((id(self_.globals), name or obj.__name__, obj))
            return eo(self_, obj, name)

        def ensure_module_imported(self_, module):
            cap.regs.append((id(self_.globals), module.__name__, module))
            return em(self_, module)

        CodeBuilder.ensure_object_imported = ensure_object_imported
        CodeBuilder.ensure_module_imported = ensure_module_imported
        return self

    def __exit__(self, *a):
        from mashumaro.core.meta.code.builder import CodeBuilder

        for m in self.mods:
            if "exec" in m.__dict__:
                del m.exec
        CodeBuilder.ensure_object_imported = self._eo
        CodeBuilder.ensure_module_imported = self._em


def code_objects(co):
    yield co
    for c in co.co_consts:
        if isinstance(c, types.CodeType):
            yield from code_objects(c)


def global_loads(co, toplevel):
    """names the code object resolves in globals/builtins at run time"""
    out = set()
    for ins in dis.get_instructions(co):
        if ins.opname == "LOAD_GLOBAL":
            out.add(ins.argval)
        elif ins.opname == "LOAD_NAME" and toplevel:
            out.add(ins.argval)
    return out


def attr_chains(tree):
    """dotted chains Name.attr.attr… in the source"""
    for node in ast.walk(tree):
        if isinstance(node, ast.Attribute):
            chain = []
            n = node
            while isinstance(n, ast.Attribute):
                chain.append(n.attr)
                n = n.value
            if isinstance(n, ast.Name):
                yield n.id, list(reversed(chain))


def check_program(ctx, case, cap, schema_classes):
    """all static checks on one captured program; returns (n_functions, refers_to_schema_class)"""
    problems = []   # (kind, detail, k6_signature)
    refers = False
    nfun = 0
    by_globals = {}
    for gid, name, obj in cap.regs:
        by_globals.setdefault(gid, []).append((name, obj))
    seen_globals = {}
    for src, g, l in cap.execs:  # noqa: E741
        if g is None:
            continue
        seen_globals[id(g)] = g
        try:
            co = compile(src, "<generated>", "exec")
            tree = ast.parse(src)
        except SyntaxError as e:
            problems.append(("syntax", f"{e}", False))
            continue
        defined_top = {n.name for n in tree.body if isinstance(n, (ast.FunctionDef, ast.ClassDef))} | {t.id for n in tree.body if isinstance(n, ast.Assign) for t in n.targets if isinstance(t, ast.Name)}
        for c in code_objects(co):
            top = c is co
            if not top:
                nfun += 1
            for name in global_loads(c, top):
                if name in g or hasattr(builtins, name):
                    v = g.get(name)
                    if v is not None and any(v is sc for sc in schema_classes):
                        refers = True
                    continue
                if top and ((l is not None and name in l) or name in defined_top):
                    continue
                problems.append(("unbound", f"global name {name!r} is loaded by generated code but bound nowhere", False))
        for root, chain in attr_chains(tree):
            base = g.get(root)
            if not isinstance(base, types.ModuleType):
                continue
            cur = base
            path = root
            for a in chain:
                if isinstance(cur, (types.ModuleType, type)):
                    if not hasattr(cur, a):
                        k6 = True   # a class that is not reachable under its rendered dotted name
                        problems.append(("dotted", f"{path}.{a} does not resolve (module attribute missing)", k6))
                        break
                    cur = getattr(cur, a)
                    path += "." + a
                    if any(cur is sc for sc in schema_classes):
                        refers = True
                else:
                    break
    # identity of aliases
    collisions = set()
    for gid, regs in by_globals.items():
        g = seen_globals.get(gid)
        if g is None:
            continue
        for name, obj in regs:
            if name in g and g[name] is not obj and not (not isinstance(obj, type) and _safe_eq(g[name], obj)):
                collisions.add((name, type(obj).__name__, getattr(obj, "__qualname__", repr(obj))[:60]))
    for name, tn, qn in sorted(collisions):
        problems.append(("misbound", f"alias {name!r} registered for {tn} {qn} is bound to another object", True))
    # rendered dotted names of the schema classes
    from mashumaro.core.meta.helpers import is_local_type_name, type_name

    all_src = "\n".join(s for s, _g, _l in cap.execs)
    for sc in schema_classes:
        try:
            rn = type_name(sc)
        except Exception:  # noqa
            continue
        if is_local_type_name(rn) or rn not in all_src:
            continue
        for g in seen_globals.values():
            root = rn.split(".")[0].split("[")[0]
            if root in g and "[" not in rn:
                try:
                    val = eval(rn, g)  # noqa: S307 - rendered by the library itself
                except Exception as e:  # noqa
                    problems.append(("dotted", f"{rn} does not evaluate: {type(e).__name__}", True))
                    break
                if val is not sc:
                    problems.append(("misbound", f"{rn} evaluates to another object than the annotated class", True))
                break
    return problems, nfun, refers


def _safe_eq(a, b):
    try:
        return bool(a == b)
    except Exception:  # noqa
        return False


def model_replay(ctx, cap):
    """registration log of each builder through the Lean namespace model vs the real globals"""
    lines, metas = [], []
    by_globals = {}
    objs = {}
    for gid, name, obj in cap.regs:
        oid = objs.setdefault(id(obj), len(objs) + 1)
        by_globals.setdefault(gid, []).append((name, oid, obj))
    gl = {id(g): g for _s, g, _l in cap.execs if g is not None}
    for gid, regs in by_globals.items():
        if gid not in gl:
            continue
        lines.append({"op": "namespace", "regs": [[n, o] for n, o, _ in regs]})
        metas.append((gl[gid], regs, objs))
    return lines, metas


def k6_like(problems):
    return bool(problems) and all(p[2] for p in problems)


# ----------------------------------------------------------------------------------------
# schema sources
# ----------------------------------------------------------------------------------------


def grammar_program(ctx, ty, mixin):
    """build everything for one generated schema under capture"""
    from mashumaro.codecs.basic import BasicDecoder, BasicEncoder

    reg = S.Reg(mixin=mixin)
    cap = Capture()
    err = None
    with cap:
        try:
            ann = S.realize(ty, reg)
            BasicEncoder(ann)
            BasicDecoder(ann)
        except RecursionError:
            raise
        except Exception as e:  # noqa
            err = f"{type(e).__name__}: {e}"[:200]
    return cap, reg, list(reg.ids.keys()), err


_fam_made = []


def family_program(ctx, fam, idx):
    """naming families: returns (cap, classes, err, dynamic closures)"""
    from mashumaro import DataClassDictMixin
    from mashumaro.codecs.basic import BasicDecoder, BasicEncoder

    rng = ctx.rng
    cap = Capture()
    classes = []
    roots = []
    err = None
    mods = []

    def module(name):
        m = types.ModuleType(name)
        sys.modules[name] = m
        mods.append(name)
        return m

    def dc(name, mod, ann, bases=(), qual=None, register=True, ns=None):
        d = {"__annotations__": ann}
        d.update(ns or {})
        c = type(name, bases, d)
        c.__module__ = mod.__name__
        if qual:
            c.__qualname__ = qual
        if register:
            setattr(mod, name, c)
        c = dataclasses.dataclass(c)
        classes.append(c)
        return c

    with cap:
        try:
            m1, m2 = module(f"c17a_{idx}"), module(f"c17b_{idx}")
            mix = (DataClassDictMixin,) if rng.random() < 0.6 else ()
            kind = fam
            if kind == "plain":
                A = dc("A", m1, {"x": int, "d": typing.Optional[typing.List[int]]}, mix)
                R = dc("R", m1, {"a": A, "m": typing.Dict[str, A], "t": typing.Tuple[A, int]}, mix)
            elif kind == "two_modules_same_name":
                A1 = dc("Item", m1, {"x": int}, mix)
                A2 = dc("Item", m2, {"y": str}, mix)
                R = dc("R", m1, {"a": A1, "b": A2, "l": typing.List[A2]}, mix)
            elif kind == "local":
                A = dc("A", m1, {"x": int}, mix, qual=f"make_{idx}.<locals>.A", register=False)
                R = dc("R", m1, {"a": A, "o": typing.Optional[A]}, mix, qual=f"make_{idx}.<locals>.R", register=False)
            elif kind == "local_same_name":
                A1 = dc("A", m1, {"x": int}, mix, qual=f"f_{idx}.<locals>.A", register=False)
                A2 = dc("A", m1, {"y": str}, mix, qual=f"f_{idx}.<locals>.A", register=False)
                R = dc("R", m1, {"a": A1, "b": A2}, mix)
            elif kind == "cleanid_collision":
                A1 = dc("B", m1, {"x": int}, mix, qual=f"f_{idx}.<locals>.A.B", register=False)
                A2 = dc("A_B", m1, {"y": str}, mix, qual=f"f_{idx}.<locals>.A_B", register=False)
                R = dc("R", m1, {"a": A1, "b": A2}, mix)
            elif kind == "functional_enum":
                E = enum.Enum("Color", "RED GREEN")
                E.__module__ = m1.__name__
                m1.Paint = E   # assigned to another name than its __name__
                classes.append(E)
                R = dc("R", m1, {"e": E, "l": typing.List[E]}, mix)
            elif kind == "enum_literal_newtype":
                E = enum.Enum("Kind", {"A": "a", "B": "b"})
                E.__module__ = m2.__name__
                m2.Kind = E
                classes.append(E)
                NT = typing.NewType("UserId", int)
                NT.__module__ = m2.__name__
                m2.UserId = NT
                R = dc("R", m1, {"k": typing.Literal[E.A], "u": NT, "e": typing.Dict[str, E]}, mix)
            elif kind == "generic_other_module":
                T = typing.TypeVar("T")
                G = types.new_class("Box", (DataClassDictMixin, typing.Generic[T]) if mix else (typing.Generic[T],), {}, lambda ns: ns.update({"__annotations__": ({"x": T, "n": int} if rng.random() < 0.6 else {"x": T, "xs": typing.List[T]}), "__module__": m1.__name__}))
                m1.Box = G
                G = dataclasses.dataclass(G)
                classes.append(G)
                import decimal
                import ipaddress
                import uuid

                arg = rng.choice([decimal.Decimal, ipaddress.IPv4Address, uuid.UUID])
                S1 = types.new_class("SBox", (G[arg],), {}, lambda ns: ns.update({"__module__": m2.__name__}))
                m2.SBox = S1
                S1 = dataclasses.dataclass(S1)
                classes.append(S1)
                R = S1
            elif kind == "mappingproxy_namedtuple":
                NTc = typing.NamedTuple("Pt", [("x", int), ("y", typing.Optional[str])])
                NTc.__module__ = m1.__name__
                m1.Pt = NTc
                classes.append(NTc)
                R = dc("R", m1, {"mp": types.MappingProxyType[str, int], "p": NTc, "ps": typing.List[NTc]}, mix)
            else:
                raise ValueError(kind)
            roots.append(R)
            BasicEncoder(R)
            BasicDecoder(R)
            BasicEncoder(typing.List[R])
        except RecursionError:
            raise
        except Exception as e:  # noqa
            err = f"{type(e).__name__}: {e}"[:200]
    _fam_made.extend(mods)
    return cap, classes, roots, err


FAMILIES = ["plain", "two_modules_same_name", "local", "local_same_name", "cleanid_collision", "functional_enum", "enum_literal_newtype", "generic_other_module", "mappingproxy_namedtuple"]
K6_FAMILIES = {"local_same_name", "cleanid_collision", "functional_enum", "local"}


def dynamic_error_paths(ctx, case, roots, problems):
    """execute the error-reporting paths of every field of the root dataclasses"""
    from mashumaro.codecs.basic import BasicDecoder
    from mashumaro.exceptions import InvalidFieldValue, MissingField

    for R in roots:
        if not dataclasses.is_dataclass(R):
            continue
        try:
            dec = BasicDecoder(R).decode
        except Exception:  # noqa
            continue
        hints = typing.get_type_hints(R)
        for f in dataclasses.fields(R):
            for mode in ("missing", "invalid"):
                d = {}
                if mode == "invalid":
                    d[f.name] = object()
                try:
                    dec(d)
                except MissingField as e:
                    if mode == "missing" and e.field_name == f.name and e.holder_class is not R:
                        problems.append(("misbound", f"MissingField.holder_class of {f.name} is not the class", False))
                except InvalidFieldValue as e:
                    if e.holder_class is not R:
                        problems.append(("misbound", f"InvalidFieldValue.holder_class of {f.name} is not the class", False))
                except (NameError, AttributeError) as e:
                    problems.append(("unbound", f"error path of field {f.name!r} ({mode}) raised {type(e).__name__}: {e}"[:200], "has no attribute" in str(e) and "module" in str(e)))
                except Exception:  # noqa
                    pass
                ctx.bump("error_paths_executed")


def finish_program(ctx, case, cap, classes, roots, err, fam=None):
    problems = []
    if err is not None:
        # the library raised while building: a NameError / AttributeError of its own making is a violation
        own = err.startswith(("NameError", "AttributeError", "SyntaxError"))
        if own:
            problems.append(("build", err, fam in K6_FAMILIES))
    static, nfun, refers = check_program(ctx, case, cap, classes)
    problems += static
    if err is None:
        dynamic_error_paths(ctx, case, roots, problems)
    ctx.count(case, refers, kind=f"family:{fam}" if fam else "grammar")
    ctx.bump("generated_functions", nfun)
    ctx.bump("execs", len(cap.execs))
    if problems:
        k6 = k6_like(problems)
        ctx.violation(case, {"problems": [list(p[:2]) for p in problems[:6]]}, "every name generated code refers to is bound, and bound to the annotated object",
                      "generated code is not closed / binds a type by name to another object",
                      lambda f, _k=k6, _fam=fam: f["id"] == "K6" and _k and (_fam in K6_FAMILIES))
    return problems


def run_models(ctx, batch):
    lines, metas = [], []
    for case, cap in batch:
        ls, ms = model_replay(ctx, cap)
        for l, m in zip(ls, ms):  # noqa: E741
            lines.append(l)
            metas.append((case, m))
    outs = ctx.model(lines)
    if outs is None:
        return
    for (case, (g, regs, objs)), m in zip(metas, outs):
        inv = {n: o for n, o in m.get("globals", [])}
        for name, oid, obj in regs:
            real = g.get(name)
            real_id = objs.get(id(real))
            if inv.get(name) != real_id:
                ctx.disagreement(case, {"name": name, "model_obj": inv.get(name)}, {"real_obj": real_id}, "namespace replay")
                break


def cleanid_cases(ctx, n):
    """clean_id of the model vs the implementation on adversarial names"""
    import re

    from mashumaro.core.meta.types.common import clean_id

    rng = ctx.rng
    alphabet = list("aZ09_.<>[], -'\"\\\n") + ["é", "日", "٣", "²", "​", "𝒳", "ﬁ", "½", "́", "·"]
    lines, metas = [], []
    for _ in range(n):
        s = "".join(rng.choice(alphabet) for _ in range(rng.randrange(0, 12)))
        import unicodedata

        ns = unicodedata.normalize("NFKC", s)   # the model works on the normalized name
        chars = sorted(set(ns) | {"_"})
        lines.append({"op": "cleanid", "s": [ord(c) for c in ns], "word": [ord(c) for c in chars if re.match(r"\w", c)], "digit": [ord(c) for c in chars if re.match(r"\d", c)],
                      "idcont": [ord(c) for c in chars if ("_" + c).isidentifier()]})
        metas.append(s)
    outs = ctx.model(lines)
    for s, m in zip(metas, outs or []):
        ctx.count({"clean_id": s}, True, kind="clean_id")
        real = clean_id(s)
        got = "".join(chr(c) for c in m.get("id", []))
        if got != real:
            ctx.disagreement({"clean_id": s}, got, real, "clean_id")
        if not real.isidentifier() and not real == "_":
            ctx.violation({"clean_id": s}, {"alias": real}, "an alias is a valid identifier", "clean_id produced a non-identifier", lambda f: False)


def run(ctx):
    ctx.rule = RULE
    ctx.lean_check("Mashu.Props.C17", THEOREMS, extra_targets=["Mashu.Dispatch"])
    quick = ctx.tier == "quick"
    cleanid_cases(ctx, 300 if quick else 5000)
    batch = []
    nfam = 12 if quick else 150
    idx = 0
    for fam in FAMILIES:
        for _ in range(nfam):
            idx += 1
            cap, classes, roots, err = family_program(ctx, fam, f"{ctx.seed}_{idx}")
            case = {"family": fam, "idx": idx}
            finish_program(ctx, case, cap, classes, roots, err, fam=fam)
            batch.append((case, cap))
    run_models(ctx, batch)
    for mname in _fam_made:
        sys.modules.pop(mname, None)
    del _fam_made[:]
    def grammar_stream(n, depth):
        done = 0
        while done < n and ctx.time_left() > 40:
            batch = []
            for _ in range(min(250, n - done)):
                g = gen.G(ctx.rng, max_depth=depth)
                ty = g.ty()
                mixin = ctx.rng.random() < 0.6
                cap, reg, classes, err = grammar_program(ctx, ty, mixin)
                try:
                    case = {"ty": ty, "mixin": mixin}
                    if getattr(ctx, "case_extra", None):
                        case = {**case, **ctx.case_extra}
                    roots = [c for c in classes if dataclasses.is_dataclass(c)]
                    if err is not None and not err.startswith(("NameError", "AttributeError", "SyntaxError")):
                        ctx.bump("schema_rejected_by_library")
                    finish_program(ctx, case, cap, classes, roots, err)
                    batch.append((case, cap))
                finally:
                    reg.close()
                done += 1
            run_models(ctx, batch)

    n, depth = (700, 3) if quick else (12000, 4)
    grammar_stream(n, depth)
    # the same generator with every annotation wrapped in Annotated / NewType / TypeAliasType
    for mode in S.WRAP_MODES:
        with ctx.wrapped(mode):
            grammar_stream(120 if quick else 2000, depth)
    ctx.assumptions += [
        "CPython name resolution: LOAD_GLOBAL looks in the function's globals, then builtins; top-level statements of an exec'd snippet also see the builder's __dict__ (locals)",
        "attribute chains are resolved statically on modules and classes only",
    ]


def replay(ctx, body):
    ctx.lean_check("Mashu.Props.C17", THEOREMS, extra_targets=["Mashu.Dispatch"])
    c = body["case"]
    if c and "family" in c:
        cap, classes, roots, err = family_program(ctx, c["family"], "replay")
        finish_program(ctx, c, cap, classes, roots, err, fam=c["family"])
        run_models(ctx, [(c, cap)])
    elif c and "ty" in c:
        cap, reg, classes, err = grammar_program(ctx, c["ty"], c.get("mixin", True))
        finish_program(ctx, c, cap, classes, [x for x in classes if dataclasses.is_dataclass(x)], err)
        run_models(ctx, [(c, cap)])
        reg.close()
    elif c and "clean_id" in c:
        cleanid_cases(ctx, 50)
    return ctx.finish()
