"""C04 — format codecs are lossless and equal the format encoding of the basic form.

Theorems (Props/C04.lean): pack_natives / format_equals_basic (what a format dialect changes in
the serialized form is exactly: pass-through leaves stay objects, to be rendered by the format
library — mutual structural induction), format_roundtrip (decode(encode(v)) = v from
format_equals_basic + the round-trip theorem of C01 + the library law), format_dialects_pinned /
format_names_distinct over the tables extracted from the source.

Tie, for JSON (stdlib), orjson, YAML, MessagePack, TOML through Encoder/Decoder objects, one-shot
functions and mixin methods:
 * parse_F(encode_F(v)) == parse_F(ser_F(BasicEncoder(T).encode(v)))   (the format encoding of
   the basic form; for TOML of the basic form without nulls), natives normalised by the format
   library itself;
 * decode_F(encode_F(v)) == v for values the format can represent;
 * the model: `pack` under the format dialect extracted from the source (pass leaves, no-copy)
   vs the real BasicEncoder(T, default_dialect=FormatDialect) — stream shared with C02;
 * the library law used by format_roundtrip (the library renders a native leaf as the documented
   text / keeps it) is sampled per leaf kind.
"""
from __future__ import annotations

import dataclasses
import importlib
import datetime
import json
import math

from . import corelib, gen
from . import schema as S

THEOREMS = [
    "Mashu.pack_natives",
    "Mashu.format_equals_basic",
    "Mashu.format_roundtrip",
    "Mashu.ident_natives",
    "Mashu.format_names_distinct",
    "Mashu.PackF.step_own",
    "Mashu.PackF.run_own",
    "Mashu.PackF.unguarded_runs_parent_method",
    "Mashu.PackF.owner_guard_pinned",
]
RULE = (
    "type-directed generation (depth<=3 quick / 4 thorough) restricted per format to what the format can represent (string keys for JSON/orjson/msgpack/TOML, a table at the top "
    "for TOML, 64-bit ints, finite floats, no lone surrogates); per (schema, value) and format: Encoder/Decoder object, one-shot functions, mixin methods where the root is a "
    "dataclass; non-trivial = the value contains a native leaf of the format or a nested container"
)


def formats():
    out = {}
    from mashumaro.codecs import json as cj

    out["json"] = dict(Enc=cj.JSONEncoder, Dec=cj.JSONDecoder, enc1=cj.json_encode, dec1=cj.json_decode, parse=json.loads, ser=json.dumps, dialect=None, mixin=("mashumaro.mixins.json", "DataClassJSONMixin", "to_json", "from_json"))
    try:
        import orjson
        from mashumaro.codecs import orjson as co

        out["orjson"] = dict(Enc=co.ORJSONEncoder, Dec=co.ORJSONDecoder, enc1=co.json_encode, dec1=co.json_decode, parse=orjson.loads, ser=orjson.dumps, dialect="OrjsonDialect", mixin=("mashumaro.mixins.orjson", "DataClassORJSONMixin", "to_jsonb", "from_json"))
    except ImportError:
        pass
    try:
        import yaml
        from mashumaro.codecs import yaml as cy

        L = getattr(yaml, "CSafeLoader", yaml.SafeLoader)
        D = getattr(yaml, "CDumper", yaml.Dumper)
        out["yaml"] = dict(Enc=cy.YAMLEncoder, Dec=cy.YAMLDecoder, enc1=cy.yaml_encode, dec1=cy.yaml_decode, parse=lambda s: yaml.load(s, L), ser=lambda o: yaml.dump(o, Dumper=D, sort_keys=False), dialect=None, mixin=("mashumaro.mixins.yaml", "DataClassYAMLMixin", "to_yaml", "from_yaml"))
    except ImportError:
        pass
    try:
        import msgpack
        from mashumaro.codecs import msgpack as cm

        out["msgpack"] = dict(Enc=cm.MessagePackEncoder, Dec=cm.MessagePackDecoder, enc1=cm.msgpack_encode, dec1=cm.msgpack_decode, parse=lambda b: msgpack.unpackb(b, raw=False, strict_map_key=False), ser=lambda o: msgpack.packb(o, use_bin_type=True), dialect="MessagePackDialect", mixin=("mashumaro.mixins.msgpack", "DataClassMessagePackMixin", "to_msgpack", "from_msgpack"))
    except ImportError:
        pass
    try:
        import tomllib

        import tomli_w
        from mashumaro.codecs import toml as ct

        out["toml"] = dict(Enc=ct.TOMLEncoder, Dec=ct.TOMLDecoder, enc1=ct.toml_encode, dec1=ct.toml_decode, parse=tomllib.loads, ser=tomli_w.dumps, dialect="TOMLDialect", mixin=("mashumaro.mixins.toml", "DataClassTOMLMixin", "to_toml", "from_toml"))
    except ImportError:
        pass
    return out


def drop_nulls(x):
    if isinstance(x, dict):
        return {k: drop_nulls(v) for k, v in x.items() if v is not None}
    if isinstance(x, list):
        return [drop_nulls(v) for v in x]
    return x


def has_none(x):
    if x is None:
        return True
    if isinstance(x, dict):
        return any(has_none(v) for v in x.values())
    if isinstance(x, list):
        return any(has_none(v) for v in x)
    return False


def has_null_in_list(x):
    if isinstance(x, dict):
        return any(has_null_in_list(v) for v in x.values())
    if isinstance(x, list):
        return any(v is None or has_null_in_list(v) for v in x)
    return False


def representable(fmt, basic, top_ty):
    """can the FORMAT carry this basic-form document (the statement quantifies over those)"""
    def walk(x, top=False):
        if isinstance(x, bool) or x is None:
            return fmt != "toml" or x is not None or True
        if isinstance(x, int):
            return -(2 ** 63) <= x < 2 ** 63 if fmt in ("orjson", "msgpack", "toml") else True
        if isinstance(x, float):
            return math.isfinite(x)
        if isinstance(x, str):
            try:
                x.encode("utf-8")
            except UnicodeEncodeError:
                return False
            if fmt == "yaml" and any(ord(c) < 32 and c not in "\n\t" or 0x7F <= ord(c) <= 0x9F or c in "  ﻿\x85" for c in x):
                return False   # YAML line-break / non-printable normalisation
            if fmt == "toml" and any(c == "\r" for c in x):
                return False
            return True
        if isinstance(x, (bytes, bytearray)):
            return fmt == "msgpack"
        if isinstance(x, (datetime.datetime, datetime.date, datetime.time)):
            return True
        if isinstance(x, list):
            return all(walk(v) for v in x)
        if isinstance(x, dict):
            if fmt == "toml":
                # a TOML table lists its plain key/value pairs before its sub-tables: the ORDER of a mapping whose
                # table-valued entries precede scalar ones is not representable (the library law parse(ser(b)) == b
                # compares ordered mappings)
                def _is_tbl(v):
                    return isinstance(v, dict) or (isinstance(v, list) and v and all(isinstance(e, dict) for e in v))

                seen_tbl = False
                for v in x.values():
                    if _is_tbl(v):
                        seen_tbl = True
                    elif seen_tbl:
                        return False
            for k, v in x.items():
                if fmt in ("json", "orjson", "toml", "msgpack") and not isinstance(k, str):
                    return False
                if fmt == "yaml" and not isinstance(k, (str, int)) :
                    return False
                if isinstance(k, str) and not walk(k):
                    return False
                if not walk(v):
                    return False
            return True
        return False

    if fmt == "toml" and not isinstance(basic, dict):
        return False
    if fmt == "toml" and has_null_in_list(basic):
        return False
    return walk(basic, True)


def run_cases(ctx, cases, fmts):
    from mashumaro.codecs.basic import BasicEncoder

    for ty, value in cases:
        reg = S.Reg(mixin=True)
        try:
            try:
                ann = S.realize(ty, reg)
                obj = S.from_v(value, reg)
            except RecursionError:
                raise
            except Exception:  # noqa
                ctx.bump("build_error")
                continue
            try:
                basic = BasicEncoder(ann).encode(obj)
            except RecursionError:
                raise
            except Exception:  # noqa
                ctx.bump("basic_encode_raises")
                continue
            union = corelib.has_union(ty)
            lossy = not lossless_value(obj)
            for fname, F in fmts.items():
                if not representable(fname, basic, ty):
                    ctx.bump(f"skip:{fname}:not representable")
                    continue
                case = {"ty": ty, "value": value, "format": fname}
                ctx.count(case, not isinstance(ty, str), kind=f"format:{fname}")
                # what the format makes of the basic form
                try:
                    if fname == "toml":
                        # "the omission of nulls in TOML": the option omit_none of a plain dialect, through the basic codec
                        ref_basic = BasicEncoder(ann, default_dialect=omit_none_dialect()).encode(obj)
                    else:
                        ref_basic = basic
                    want = render_natives(F["parse"](F["ser"](ref_basic)))
                except Exception as e:  # noqa
                    ctx.bump(f"skip:{fname}:library rejects the basic form")
                    continue
                entries = [("codec", lambda: F["Enc"](ann).encode(obj), lambda d: F["Dec"](ann).decode(d)),
                           ("oneshot", lambda: F["enc1"](obj, ann), lambda d: F["dec1"](d, ann))]
                if isinstance(ty, list) and ty[0] == "dc":
                    mx = mixin_twin(ann, obj, F, reg)
                    if mx is not None:
                        entries.append(mx)
                for ename, enc, dec in entries:
                    c2 = {**case, "entry": ename}
                    try:
                        doc = enc()
                    except RecursionError:
                        raise
                    except Exception as e:  # noqa
                        if not library_accepts_native_form(F, ann, obj):
                            ctx.bump(f"skip:{fname}:library rejects the native form (not representable)")
                            break
                        ctx.violation(c2, {"encode_error": f"{type(e).__name__}: {e}"[:200]}, "encoding a representable value succeeds", "format encoder raised", lambda f, _u=union: f["id"] == "K10" and _u)
                        continue
                    try:
                        got = F["parse"](doc)
                    except Exception as e:  # noqa
                        ctx.violation(c2, {"parse_error": f"{type(e).__name__}: {e}"[:200]}, "the encoded document is parsable by the format's own library", "document not parsable", lambda f: False)
                        continue
                    got = render_natives(got)
                    if not deep_eq(got, want):
                        ctx.violation(c2, {"parsed_document": S.canon(got, reg)}, {"format_encoding_of_basic_form": S.canon(want, reg)}, "the encoded document is not the format encoding of the basic form",
                                      lambda f, _u=union: f["id"] == "K10" and _u)
                    # round trip
                    try:
                        back = dec(doc)
                    except RecursionError:
                        raise
                    except Exception as e:  # noqa
                        if fname == "toml" and has_none(basic):
                            ctx.bump("skip:toml:null in the value (TOML has no null; the key is omitted)")
                            continue
                        if not (union or lossy):
                            ctx.violation(c2, {"decode_error": f"{type(e).__name__}: {e}"[:200]}, "decode(encode(v)) returns", "format decoder raised on its own encoder's output", lambda f: False)
                        continue
                    if ename == "mixin":
                        continue   # compared inside mixin_twin's decoder wrapper
                    if fname == "toml" and has_none(basic):
                        continue
                    if not (union or lossy) and not py_equal(back, obj, reg):
                        ctx.violation(c2, {"decoded": S.canon(back, reg)}, {"original": S.canon(obj, reg)}, "decode(encode(v)) != v", lambda f, _u=union: f["id"] in ("K12", "K10") and _u)
        finally:
            reg.close()


def library_accepts_native_form(F, ann, obj):
    """is the value representable: does the format library accept the document in which the
    format's native types are left as objects (computed through the basic codec)"""
    import importlib

    from mashumaro.codecs.basic import BasicEncoder

    try:
        if F["dialect"]:
            mod = {"OrjsonDialect": "mashumaro.mixins.orjson", "MessagePackDialect": "mashumaro.mixins.msgpack", "TOMLDialect": "mashumaro.mixins.toml"}[F["dialect"]]
            D = getattr(importlib.import_module(mod), F["dialect"])
            nat = BasicEncoder(ann, default_dialect=D).encode(obj)
        else:
            nat = BasicEncoder(ann).encode(obj)
        F["ser"](nat)
        return True
    except Exception:  # noqa
        return False


def omit_none_dialect():
    from mashumaro.dialect import Dialect

    return type("OmitNone", (Dialect,), {"omit_none": True})


def render_natives(x):
    """native objects a format hands back -> their documented basic rendering"""
    from base64 import encodebytes

    if isinstance(x, (bytes, bytearray)):
        return encodebytes(bytes(x)).decode()
    if isinstance(x, (datetime.datetime, datetime.date, datetime.time)):
        return x.isoformat()
    if isinstance(x, dict):
        return {k: render_natives(v) for k, v in x.items()}
    if isinstance(x, list):
        return [render_natives(v) for v in x]
    return x


def py_equal(a, b, reg):
    """equal as Python values (mapping order is not part of equality), same classes"""
    try:
        if a == b and type(a) is type(b):
            return True
    except Exception:  # noqa
        pass
    return S.same(S.canon(a, reg), S.canon(b, reg))


def lossless_value(obj):
    """the statement's exclusions: NaN, regex flags, named / sub-minute timezones, timedeltas beyond float precision"""
    import re

    def walk(x):
        if isinstance(x, float):
            return math.isfinite(x)
        if isinstance(x, re.Pattern):
            return x.flags == re.compile("").flags
        if isinstance(x, datetime.timezone):
            off = x.utcoffset(None)
            return off.microseconds == 0 and off.seconds % 60 == 0 and x.tzname(None).startswith("UTC")
        if isinstance(x, datetime.timedelta):
            return datetime.timedelta(seconds=x.total_seconds()) == x
        if isinstance(x, (datetime.datetime, datetime.time)):
            return x.tzinfo is None or walk(x.tzinfo) if isinstance(x.tzinfo, datetime.timezone) else x.tzinfo is None
        if isinstance(x, dict):
            return all(walk(k) and walk(v) for k, v in x.items())
        if isinstance(x, (list, tuple, set, frozenset)) or type(x).__name__ in ("deque", "ChainMap"):
            try:
                return all(walk(v) for v in (x.maps if hasattr(x, "maps") else x))
            except TypeError:
                return True
        if dataclasses.is_dataclass(x) and not isinstance(x, type):
            return all(walk(getattr(x, f.name)) for f in dataclasses.fields(x))
        return True

    return walk(obj)


def deep_eq(a, b):
    if type(a) is not type(b) and not (isinstance(a, (int, float)) and isinstance(b, (int, float)) and not isinstance(a, bool) and not isinstance(b, bool)):
        return False
    if isinstance(a, dict):
        return len(a) == len(b) and set(a) == set(b) and all(deep_eq(a[k], b[k]) for k in a)
    if isinstance(a, list):
        return len(a) == len(b) and all(deep_eq(x, y) for x, y in zip(a, b))
    if isinstance(a, float) or isinstance(b, float):
        return a == b
    return a == b


_MIX = {}


def mixin_twin(ann, obj, F, reg):
    """the same dataclass with the format mixin as base: to_<fmt> / from_<fmt>"""
    import importlib

    modname, cname, to_m, from_m = F["mixin"]
    try:
        Mixin = getattr(importlib.import_module(modname), cname)
    except Exception:  # noqa
        return None
    if not dataclasses.is_dataclass(ann):
        return None
    try:
        ns = {"__annotations__": dict(getattr(ann, "__annotations__", {}))}
        for f in dataclasses.fields(ann):
            if f.default is not dataclasses.MISSING or f.default_factory is not dataclasses.MISSING or f.metadata or not f.init:
                ns[f.name] = dataclasses.field(default=f.default, default_factory=f.default_factory, metadata=f.metadata, init=f.init) if f.default_factory is dataclasses.MISSING else dataclasses.field(default_factory=f.default_factory, metadata=f.metadata, init=f.init)
        if "Config" in ann.__dict__:
            ns["Config"] = ann.__dict__["Config"]
        T = type(ann.__name__ + "Fm", (Mixin,), ns)
        T.__module__ = ann.__module__
        import sys

        setattr(sys.modules[ann.__module__], T.__name__, T)
        T = dataclasses.dataclass(T)
        tw = object.__new__(T)
        for f in dataclasses.fields(ann):
            object.__setattr__(tw, f.name, getattr(obj, f.name))
    except Exception:  # noqa
        return None

    def dec(doc):
        back = getattr(T, from_m)(doc)
        return back

    return ("mixin", lambda: getattr(tw, to_m)(), dec)


def library_law(ctx, fmts):
    """what format_roundtrip assumes of the libraries: parse_F(ser_F(x)) for a native leaf x is the
    documented text of x (orjson: datetime/date/time/UUID) or x itself (msgpack: bytes; TOML: date objects)"""
    import uuid

    n = 0
    samples = {
        "orjson": [datetime.datetime(2024, 2, 29, 1, 2, 3), datetime.datetime(2024, 2, 29, 1, 2, 3, 456), datetime.datetime(2024, 2, 29, tzinfo=datetime.timezone.utc),
                   datetime.datetime(2024, 2, 29, tzinfo=datetime.timezone(datetime.timedelta(minutes=-30))), datetime.date(1, 1, 1), datetime.time(1, 2, 3), datetime.time(1, 2, 3, 4), uuid.UUID(int=5)],
        "msgpack": [b"", b"\x00\xff", bytearray(b"ab")],
        "toml": [datetime.datetime(2024, 2, 29, 1, 2, 3), datetime.date(2024, 2, 29), datetime.time(1, 2, 3, 4000)],
    }
    for fname, vals in samples.items():
        if fname not in fmts:
            continue
        F = fmts[fname]
        for v in vals:
            n += 1
            try:
                got = F["parse"](F["ser"]({"k": v}))["k"]
            except Exception as e:  # noqa
                ctx.violation({"library_law": fname, "value": repr(v)}, {"error": f"{type(e).__name__}: {e}"[:200]}, "the library carries its native type", "library law failed", lambda f: False)
                continue
            if fname == "orjson":
                want = v.isoformat() if not isinstance(v, uuid.UUID) else str(v)
            else:
                want = bytes(v) if isinstance(v, (bytes, bytearray)) else v
            if got != want:
                ctx.violation({"library_law": fname, "value": repr(v)}, {"got": repr(got)}, {"documented": repr(want)}, "the library renders a native leaf differently from the documented text", lambda f: False)
    ctx.bump("library_law_samples", n)


def run_orjson_options(ctx):
    """Config.orjson_options / the orjson_options keyword are the class's OWN: the document of every class
    equals orjson.dumps(basic form with natives, option=<options in effect for THAT class>), whatever other
    ORJSON classes with other options exist in the process (and in whatever order they were created)"""
    import sys
    import types
    import typing

    try:
        import orjson
        from mashumaro.config import BaseConfig
        from mashumaro.mixins.orjson import DataClassORJSONMixin
    except Exception:  # noqa
        return
    m = types.ModuleType("c04_orjson_options")
    sys.modules[m.__name__] = m
    rng = ctx.rng
    OPTS = [None, 0, orjson.OPT_OMIT_MICROSECONDS, orjson.OPT_SORT_KEYS, orjson.OPT_NAIVE_UTC | orjson.OPT_UTC_Z, orjson.OPT_OMIT_MICROSECONDS | orjson.OPT_SORT_KEYS]
    try:
        classes = []
        order = [rng.choice(OPTS) for _ in range(6)]
        for i, opt in enumerate(order):
            ns = {"__annotations__": {"z": datetime.datetime, "a": typing.Dict[str, int]}, "__module__": m.__name__}
            if opt is not None:
                ns["Config"] = type("Config", (BaseConfig,), {"orjson_options": opt})
            C = type(f"OJ{i}", (DataClassORJSONMixin,), ns)
            setattr(m, C.__name__, C)
            classes.append((dataclasses.dataclass(C), opt))
        v = dict(z=datetime.datetime(2024, 2, 29, 1, 2, 3, 456789), a={"b": 1, "a": 2})
        for C, opt in classes:
            obj = C(**v)
            for kw_opt in (None, orjson.OPT_SORT_KEYS | orjson.OPT_OMIT_MICROSECONDS):
                case = {"template": "orjson_options", "class_options": opt, "keyword": kw_opt, "creation_order": order}
                ctx.count(case, True, kind="template:orjson_options")
                eff = kw_opt if kw_opt is not None else (opt or 0)
                want = orjson.dumps({"z": v["z"], "a": v["a"]}, option=eff)
                try:
                    got = obj.to_jsonb(**({"orjson_options": kw_opt} if kw_opt is not None else {}))
                except Exception as e:  # noqa
                    ctx.violation(case, {"error": f"{type(e).__name__}: {e}"[:200]}, "to_jsonb succeeds", "to_jsonb failed", lambda f: False)
                    continue
                if got != want:
                    ctx.violation(case, {"document": got.decode()}, {"orjson.dumps(native form, option=options of this class)": want.decode()},
                                  "the orjson options in effect are not those of the class / call", lambda f: False)
    finally:
        sys.modules.pop(m.__name__, None)


def run_templates(ctx, fmts):
    """format-specific shapes: Self-typed nodes carrying the format's native types (every nesting
    level must be treated like the top), and user default_dialects that re-define a native type"""
    import importlib
    import sys
    import types
    import typing

    from mashumaro.codecs.basic import BasicDecoder, BasicEncoder
    from mashumaro.dialect import Dialect
    from typing_extensions import Self

    m = types.ModuleType("c04_templates")
    sys.modules[m.__name__] = m
    try:
        for fname, F in fmts.items():
            modname, cname, to_m, from_m = F["mixin"]
            Mixin = getattr(importlib.import_module(modname), cname)
            ann = {"name": str, "payload": bytes, "when": datetime.datetime, "day": datetime.date, "weight": typing.Optional[int], "child": typing.Optional[Self], "kids": typing.List[Self]}
            ns = {"__annotations__": ann, "weight": None, "child": None, "kids": dataclasses.field(default_factory=list), "__module__": m.__name__}
            C = type(f"Node_{fname}", (Mixin,), ns)
            C.__module__ = m.__name__
            setattr(m, C.__name__, C)
            C = dataclasses.dataclass(C, kw_only=True)

            def node(i, depth):
                kw = dict(name=f"n{i}", payload=bytes([i, 255 - i]), when=datetime.datetime(2024, 2, 29, 1, 2, i % 60), day=datetime.date(2024, 1, 1 + i % 28))
                if depth > 0:
                    kw["child"] = node(i + 1, depth - 1)
                    kw["kids"] = [node(i + 2, 0)] if fname != "toml" or True else []
                    kw["weight"] = i
                return C(**kw)

            for depth in (0, 1, 2):
                obj = node(depth, depth)
                case = {"template": f"Self-typed node with native leaves, depth {depth}", "format": fname}
                ctx.count(case, True, kind=f"template:{fname}")
                try:
                    doc = getattr(obj, to_m)()
                    got = render_natives(F["parse"](doc))
                    ref = BasicEncoder(C, default_dialect=omit_none_dialect()).encode(obj) if fname == "toml" else BasicEncoder(C).encode(obj)
                    want = render_natives(F["parse"](F["ser"](ref)))
                    back = getattr(C, from_m)(doc)
                except Exception as e:  # noqa
                    ctx.violation(case, {"error": f"{type(e).__name__}: {e}"[:300]}, "format mixin encodes / decodes a Self-typed class", "format mixin failed on a Self-typed class", lambda f: False)
                    continue
                if not deep_eq(got, want):
                    ctx.violation(case, {"parsed_document": repr(got)[:500]}, {"format_encoding_of_basic_form": repr(want)[:500]}, "nested Self instance is not encoded like the top-level one", lambda f: False)
                if back != obj:
                    ctx.violation(case, {"decoded": repr(back)[:500]}, {"original": repr(obj)[:500]}, "decode(encode(v)) != v for a Self-typed class", lambda f: False)
            # an instance of a SUBCLASS held in positions typed with its base class: the document is the
            # format encoding of the basic form (to_dict keeps the subclass's members, so must every format)
            def dcm(name, bases, ann, ns):
                c = type(name, bases, {"__annotations__": ann, "__module__": m.__name__, **ns})
                setattr(m, name, c)
                return dataclasses.dataclass(c, kw_only=True)

            Base = dcm(f"Base_{fname}", (Mixin,), {"kind": str}, {"kind": "base"})
            Sub = dcm(f"Sub_{fname}", (Base,), {"kind": str, "extra": int, "tags": typing.List[str]}, {"kind": "sub", "extra": 0, "tags": dataclasses.field(default_factory=list)})
            SubSub = dcm(f"SubSub_{fname}", (Sub,), {"deep": str}, {"deep": "d"})
            Hold = dcm(f"Hold_{fname}", (Mixin,), {"one": Base, "many": typing.List[Base], "by_key": typing.Dict[str, Base]}, {})
            hv = Hold(one=Sub(extra=7, tags=["t"]), many=[Base(), Sub(extra=1), SubSub(extra=2, deep="x")], by_key={"k": SubSub(extra=3)})
            case = {"template": "subclass instances in positions typed with the base class", "format": fname}
            ctx.count(case, True, kind=f"template:{fname}")
            try:
                got = F["parse"](getattr(hv, to_m)())
                want = hv.to_dict()
                if not deep_eq(got, want):
                    ctx.violation(case, {"parsed_document": repr(got)[:500]}, {"basic_form": repr(want)[:500]}, "members of a subclass instance are lost in the format document", lambda f: False)
            except Exception as e:  # noqa
                ctx.violation(case, {"error": f"{type(e).__name__}: {e}"[:300]}, "format mixin encodes subclass instances", "format mixin failed on a subclass instance", lambda f: False)
            # a call-time dialect that overrides nothing, used through the basic form first and then through the format
            # (and in the reverse order): every format keeps its own native leaves whatever was compiled before
            from mashumaro.config import ADD_DIALECT_SUPPORT, BaseConfig

            class Quiet(Dialect):
                serialize_by_alias = False

            for order in ("dict-first", "format-first"):
                DS = dcm(f"DS_{fname}_{order.split('-')[0]}", (Mixin,), {"payload": bytes, "when": datetime.datetime, "day": datetime.date, "opt": typing.Optional[int]},
                         {"opt": None, "Config": type("Config", (BaseConfig,), {"code_generation_options": [ADD_DIALECT_SUPPORT]})})
                dv = DS(payload=b"\x00\xff", when=datetime.datetime(2024, 2, 29, 1, 2, 3), day=datetime.date(2024, 2, 29))
                case = {"template": f"call-time dialect through two formats of one class ({order})", "format": fname}
                ctx.count(case, True, kind=f"template:{fname}")
                try:
                    steps = [lambda: dv.to_dict(dialect=Quiet), lambda: getattr(dv, to_m)(dialect=Quiet)]
                    if order == "format-first":
                        steps.reverse()
                    outs = [st() for st in steps]
                    if order == "format-first":
                        outs.reverse()
                    basic, doc = outs
                    if not deep_eq(basic, dv.to_dict()):
                        ctx.violation(case, {"to_dict_with_dialect": repr(basic)[:300]}, {"to_dict": repr(dv.to_dict())[:300]}, "the basic form changed after the format method was compiled for the same dialect", lambda f: False)
                    if not deep_eq(render_natives(F["parse"](doc)), render_natives(F["parse"](getattr(dv, to_m)()))):
                        ctx.violation(case, {"document_with_dialect": repr(doc)[:300]}, {"document": repr(getattr(dv, to_m)())[:300]}, "format document under a dialect that overrides nothing differs from the plain format document", lambda f: False)
                    back = [getattr(DS, from_m)(doc, dialect=Quiet), DS.from_dict(basic, dialect=Quiet)]
                    if order == "format-first":
                        back = [DS.from_dict(basic, dialect=Quiet), getattr(DS, from_m)(doc, dialect=Quiet)]
                    if any(x != dv for x in back):
                        ctx.violation(case, {"decoded": repr(back)[:400]}, {"original": repr(dv)[:300]}, "decode(encode(v)) != v under a call-time dialect", lambda f: False)
                except Exception as e:  # noqa
                    ctx.violation(case, {"error": f"{type(e).__name__}: {e}"[:300]}, "format mixin honours a call-time dialect", "call-time dialect through two formats failed", lambda f: False)
            # a user default_dialect that re-defines one of the format's native types: the user's wins, in both directions
            class Hex(Dialect):
                serialization_strategy = {
                    bytes: {"serialize": lambda b: "hex:" + bytes(b).hex(), "deserialize": lambda s: bytes.fromhex(s[4:])},
                    datetime.date: {"serialize": lambda d: "day:" + d.isoformat(), "deserialize": lambda s: datetime.date.fromisoformat(s[4:])},
                }

            for shape, val in ((typing.Dict[str, typing.List[bytes]], {"k": [b"\x00\xff", b""]}), (typing.Dict[str, datetime.date], {"d": datetime.date(2024, 2, 29)})):
                case = {"template": f"user default_dialect over a native type: {shape}", "format": fname}
                ctx.count(case, True, kind=f"template:{fname}")
                try:
                    doc = F["Enc"](shape, default_dialect=Hex).encode(val)
                    got = F["parse"](doc)
                    want = F["parse"](F["ser"](BasicEncoder(shape, default_dialect=Hex).encode(val)))
                    back = F["Dec"](shape, default_dialect=Hex).decode(doc)
                except Exception as e:  # noqa
                    ctx.violation(case, {"error": f"{type(e).__name__}: {e}"[:300]}, "a codec with a user default_dialect encodes and decodes", "codec with default_dialect failed", lambda f: False)
                    continue
                if not deep_eq(got, want):
                    ctx.violation(case, {"parsed_document": repr(got)[:300]}, {"basic_codec_with_the_same_dialect": repr(want)[:300]}, "the user's strategy for a native type is not honoured by the format encoder", lambda f: False)
                if back != val:
                    ctx.violation(case, {"decoded": repr(back)[:300]}, {"original": repr(val)[:300]}, "decode(encode(v)) != v under a user default_dialect", lambda f: False)
    finally:
        sys.modules.pop(m.__name__, None)


def gen_cases(ctx, n, depth):
    cases = []
    from .c01 import fix_aliases

    for _ in range(n):
        g = gen.G(ctx.rng, max_depth=depth, features={"omit": False, "noninit": False})
        ty = fix_aliases(g.ty(), ctx.rng)   # aliases only together with serialize_by_alias / allow_deserialization_not_by_alias
        if ctx.rng.random() < 0.5 and not (isinstance(ty, list) and ty[0] in ("dc", "td", "map")):
            # TOML needs a table at the top: wrap into a dataclass-free mapping
            ty = ["map", "dict", "str", ty]
            cases.append((ty, ["map", "dict", [[["s", "k"], g.val(ty[3])]]]))
            continue
        cases.append((ty, g.val(ty)))
    return cases


# ---------------------------------------------------------------------------------------
# per-format methods over class trees (Mashu.PackF): which class's method packs a subclass instance
# ---------------------------------------------------------------------------------------

PACKF_FLAVOURS = {
    "msgpack": ("mashumaro.mixins.msgpack", "DataClassMessagePackMixin", "to_msgpack", "__mashumaro_to_dict_msgpack__"),
    "orjson": ("mashumaro.mixins.orjson", "DataClassORJSONMixin", "to_jsonb", "__mashumaro_to_dict_jsonb__"),
    # plain dataclasses (no mixin) held by a DataClassDictMixin class: their to_dict method too is compiled on demand,
    # for the annotated class, when the holder is compiled
    "plain-dict": ("mashumaro", "DataClassDictMixin", "to_dict", "__mashumaro_to_dict__"),
}


def gen_packf(rng):
    n = rng.randint(2, 5)
    parents = [None] + [rng.choice([i - 1, i - 1, rng.randrange(i)]) for i in range(1, n)]
    events, defined, holders = [], 0, []
    npack = rng.randint(2, 8)
    packs = 0
    while defined < n or packs < npack:
        r = rng.random()
        if defined < n and (defined == 0 or r < 0.35 or packs >= npack):
            events.append({"d": [defined, parents[defined]]})
            defined += 1
        elif r < 0.55 or not holders:
            b = rng.randrange(defined)
            events.append({"h": b})
            holders.append(b)
        else:
            b = rng.choice(holders)
            desc = [c for c in range(defined) if b in _chain(parents, c)]
            events.append({"p": [b, rng.choice(desc)]})
            packs += 1
    return {"flavour": rng.choice(sorted(PACKF_FLAVOURS)), "events": events}


def _chain(parents, c):
    out = [c]
    while parents[out[-1]] is not None:
        out.append(parents[out[-1]])
    return out


def run_packf(ctx, hs):
    import sys
    import types as _types

    lines, metas = [], []
    for h in hs:
        modname, cname, call, meth = PACKF_FLAVOURS[h["flavour"]]
        Mixin = getattr(importlib.import_module(modname), cname)
        m = _types.ModuleType(f"c04_packf_{ctx.evaluations}_{len(metas)}")
        sys.modules[m.__name__] = m
        parse = {"msgpack": lambda b: __import__("msgpack").unpackb(b), "orjson": lambda b: __import__("orjson").loads(b), "plain-dict": lambda b: b}[h["flavour"]]
        plain = h["flavour"] == "plain-dict"
        cls, parents, hold = {}, {}, {}
        outs, own = [], []
        case = {"packf": h}
        try:
            for e in h["events"]:
                if "d" in e:
                    i, p = e["d"]
                    parents[i] = p
                    c = type(f"K{i}", (cls[p],) if p is not None else (() if plain else (Mixin,)), {"__annotations__": {f"f{i}": int}, f"f{i}": 100 + i, "__module__": m.__name__})
                    setattr(m, c.__name__, c)
                    cls[i] = dataclasses.dataclass(c, kw_only=True)
                elif "h" in e:
                    b = e["h"]
                    if b not in hold:
                        c = type(f"H{b}", (Mixin,), {"__annotations__": {"x": cls[b]}, "__module__": m.__name__})
                        setattr(m, c.__name__, c)
                        hold[b] = dataclasses.dataclass(c)
                else:
                    b, c = e["p"]
                    doc = parse(getattr(hold[b](cls[c]()), call)())["x"]
                    # every class adds one member: the members present identify the class whose method ran
                    ch = _chain(parents, c)
                    owner = next((o for o in ch if set(doc) == {f"f{a}" for a in _chain(parents, o)}), None)
                    outs.append(f"by:{c}:{owner}" if owner is not None else f"fields:{sorted(doc)}")
                own.append(sorted(i for i, c in cls.items() if meth in c.__dict__))
        except Exception as e:  # noqa
            ctx.violation(case, {"error": f"{type(e).__name__}: {e}"[:300]}, "format mixin packs instances of subclasses", "per-format packing failed", lambda f: False)
            continue
        finally:
            sys.modules.pop(m.__name__, None)
        ctx.count(case, any("p" in e and e["p"][0] != e["p"][1] for e in h["events"]), kind=f"packf:{h['flavour']}")
        for k, (e, o) in enumerate(zip([e for e in h["events"] if "p" in e], outs)):
            if o != f"by:{e['p'][1]}:{e['p'][1]}":
                ctx.violation({"packf": {**h, "events": h["events"]}, "pack": k}, {"observed": o, "instance_of": e["p"][1]},
                              "an instance is encoded with all members of its own class in every format (as to_dict does)", "members of a subclass instance are lost in the format document", lambda f: False)
                break
        lines.append({"op": "packf", "events": h["events"], "plain": plain})
        metas.append((case, outs, own))
    res = ctx.model(lines) if lines else []
    for (case, outs, own), mo in zip(metas, res or []):
        if mo.get("outs") != outs:
            ctx.disagreement(case, mo.get("outs"), outs, "packf outcomes")
        elif [sorted(set(x)) for x in mo.get("own", [])] != own:
            ctx.disagreement(case, [sorted(set(x)) for x in mo.get("own", [])], own, "packf own-method sets")
        else:
            ctx.bump("packf own-method traces compared")


def run(ctx):
    ctx.rule = RULE
    ctx.lean_check("Mashu.Props.C04", THEOREMS, extra_targets=["Mashu.Dispatch"])
    run_packf(ctx, [gen_packf(ctx.rng) for _ in range(150 if ctx.tier == "quick" else 3000)])
    fmts = formats()
    ctx.extra["formats"] = sorted(fmts)
    library_law(ctx, fmts)
    run_templates(ctx, fmts)
    for _ in range(3 if ctx.tier == "quick" else 40):
        run_orjson_options(ctx)
    n, depth = (700, 3) if ctx.tier == "quick" else (12000, 4)
    done = 0
    while done < n and ctx.time_left() > 40:
        k = min(350, n - done)
        run_cases(ctx, gen_cases(ctx, k, depth), fmts)
        done += k
    for mode in S.WRAP_MODES:
        if ctx.time_left() > 60:
            with ctx.wrapped(mode):
                run_cases(ctx, gen_cases(ctx, 100 if ctx.tier == "quick" else 1500, depth), fmts)
    ctx.assumptions += [
        "the format libraries (json, orjson, PyYAML, msgpack, tomllib/tomli_w) are parameters: parse_F(ser_F(b)) = b on what the format can represent, natives rendered as documented (sampled on every run)",
    ]


def replay(ctx, body):
    ctx.lean_check("Mashu.Props.C04", THEOREMS, extra_targets=["Mashu.Dispatch"])
    fmts = formats()
    c = body["case"]
    if c and "packf" in c:
        run_packf(ctx, [c["packf"]])
        return ctx.finish()
    if c and "ty" in c:
        run_cases(ctx, [(c["ty"], c["value"])], {c["format"]: fmts[c["format"]]} if c.get("format") in fmts else fmts)
    elif c and "library_law" in c:
        library_law(ctx, fmts)
    elif c and c.get("template") == "orjson_options":
        for _ in range(3):
            run_orjson_options(ctx)
    elif c and "template" in c:
        run_templates(ctx, fmts)
    return ctx.finish()
