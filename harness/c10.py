"""C10 — the most specific customization wins.

Theorems (Props/C10.lean): resolve_is_lexmin (for the type-key and source orders extracted from
the source on this run), directions_agree, field_option_wins, specific_key_wins, *_order_pinned.
Tie: for one field of type Annotated[List[int], "k"] every subset of the 14 levels
(field serialize/deserialize option, field serialization_strategy, {call dialect, Config.dialect,
Config.serialization_strategy, default dialect} x {Annotated alias, exact type, origin}) enabled
at once with marker functions; the marker observed in to_dict / from_dict / Encoder / Decoder
output identifies the level that applied (thorough: all 2^14 subsets).
"""
from __future__ import annotations

import dataclasses
import typing

THEOREMS = [
    "Mashu.Resolve.resolve_is_lexmin",
    "Mashu.Resolve.directions_agree",
    "Mashu.Resolve.field_option_wins",
    "Mashu.Resolve.specific_key_wins",
    "Mashu.Resolve.key_order_pinned",
    "Mashu.Resolve.source_order_pinned",
    "Mashu.Subst.substImpl_deep_eq_subst",
    "Mashu.Subst.annotated_key_substituted",
    "Mashu.Subst.pySubscript_eq",
    "Mashu.Subst.shallow_annotated_keeps_variable",
    "Mashu.Subst.subst_annotated_recursive_pinned",
    "Mashu.Subst.bind_follows_own_list",
    "Mashu.Subst.base_order_swaps_arguments",
    "Mashu.Subst.params_follow_own_list_pinned",
]
RULE = (
    "subset of the 14 customization levels for one field (2 unkeyed field levels + 4 keyed levels x 3 type keys), each level registers a marker function for both directions, "
    "for one direction only (dict-valued strategy) or pass_through; entry points: mixin with a call dialect, codec with a default dialect; shape: the field declared with its concrete type, or in a generic dataclass as Annotated[List[T], tag] with T bound to int by a subclass / the codec's type argument; "
    "non-trivial = at least two levels enabled; quick samples subsets, thorough enumerates all 2^14"
)

KEYS = ["annotated_type", "type", "origin_type"]
SOURCES = ["callDialect", "configDialect", "config", "defaultDialect"]
ANN = typing.Annotated[typing.List[int], "k"]
KEY_OBJ = {"annotated_type": ANN, "type": typing.List[int], "origin_type": list}


def marker(tag):
    def f(value, _t=tag):
        return f"<{_t}>"

    return f


def reg_obj(reg, tag):
    """registration object for a keyed level: SerializationStrategy (both), dict (one), pass_through"""
    from mashumaro.helper import pass_through
    from mashumaro.types import SerializationStrategy

    if reg == "pass":
        return pass_through
    if reg == "both":
        class S(SerializationStrategy):
            def serialize(self, value, _t=tag):
                return f"<{_t}>"

            def deserialize(self, value, _t=tag):
                return f"<{_t}>"

        return S()
    if reg == "ser":
        return {"serialize": marker(tag)}
    if reg == "de":
        return {"deserialize": marker(tag)}
    raise ValueError(reg)


def model_reg(reg, tag):
    if reg is None:
        return None
    if reg == "pass":
        return {"ser": "pass", "de": "pass"}
    return {"ser": tag if reg in ("both", "ser") else None, "de": tag if reg in ("both", "de") else None}


def draw(rng, bits=None):
    """levels: dict name -> reg kind"""
    L = {}
    names = ["field_ser", "field_de", "field_strategy"] + [f"{k}:{s}" for k in KEYS for s in SOURCES]
    if bits is None:
        p = rng.choice([0.15, 0.3, 0.5])
        for n in names:
            if rng.random() < p:
                L[n] = True
    else:
        # 14 bits: field option (both directions together), field strategy, 12 keyed
        order = ["field_opt", "field_strategy"] + names[3:]
        for i, n in enumerate(order):
            if bits >> i & 1:
                if n == "field_opt":
                    L["field_ser"] = True
                    L["field_de"] = True
                else:
                    L[n] = True
    out = {}
    for n in L:
        if n in ("field_ser", "field_de"):
            out[n] = rng.choice(["fn", "fn", "pass"]) if bits is None else "fn"
        else:
            out[n] = rng.choice(["both", "both", "ser", "de", "pass"]) if bits is None else "both"
    return out


T10 = typing.TypeVar("T10")
GEN_ANN = typing.Annotated[typing.List[T10], "k"]     # becomes ANN once T10 is bound to int


def build_and_observe(levels, entry, idx, shape="plain"):
    """returns (ser_marker, de_marker): '<tag>' | 'builtin' | 'pass' | ('error', msg)"""
    from mashumaro import DataClassDictMixin, field_options, pass_through
    from mashumaro.codecs.basic import BasicDecoder, BasicEncoder
    from mashumaro.config import ADD_DIALECT_SUPPORT, BaseConfig
    from mashumaro.dialect import Dialect

    def strategies(src):
        d = {}
        for k in KEYS:
            reg = levels.get(f"{k}:{src}")
            if reg:
                d[KEY_OBJ[k]] = reg_obj(reg, f"{k}:{src}")
        return d

    md = {}
    if levels.get("field_ser"):
        md["serialize"] = pass_through if levels["field_ser"] == "pass" else marker("field_ser")
    if levels.get("field_de"):
        md["deserialize"] = pass_through if levels["field_de"] == "pass" else marker("field_de")
    if levels.get("field_strategy"):
        md["serialization_strategy"] = reg_obj(levels["field_strategy"], "field_strategy")
    cfg = {}
    cd = strategies("configDialect")
    if cd:
        cfg["dialect"] = type("CfgD", (Dialect,), {"serialization_strategy": cd})
    cs = strategies("config")
    if cs:
        cfg["serialization_strategy"] = cs
    calld = strategies("callDialect")
    defd = strategies("defaultDialect")
    call_dialect = type("CallD", (Dialect,), {"serialization_strategy": calld}) if (calld and entry == "mixin") else None
    def_dialect = type("DefD", (Dialect,), {"serialization_strategy": defd}) if (defd and entry == "codec") else None
    if entry == "mixin":
        cfg["code_generation_options"] = [ADD_DIALECT_SUPPORT]
    ns = {"__annotations__": {"f": ANN if shape == "plain" else GEN_ANN}, "Config": type("Config", (BaseConfig,), cfg)}
    if md:
        ns["f"] = dataclasses.field(metadata=field_options(**md))
    bases = (DataClassDictMixin,) if entry == "mixin" else ()
    if shape != "plain":
        bases = (typing.Generic[T10],) + bases
    import types as _types

    cls = _types.new_class(f"C10_{idx}", bases, exec_body=lambda n: n.update(ns))
    cls.__module__ = __name__
    globals()[cls.__name__] = cls
    try:
        cls = dataclasses.dataclass(cls)
        if shape == "generic":
            # the type variable is bound to int: by a subclass (mixin) or by the codec's type argument
            if entry == "mixin":
                sub = _types.new_class(f"C10_{idx}_S", (cls[int],), exec_body=lambda n: n.update({"__annotations__": {}}))
                sub.__module__ = __name__
                globals()[sub.__name__] = sub
                cls = dataclasses.dataclass(sub)
                ctor = cls
            else:
                ctor, cls = cls, cls[int]
        else:
            ctor = cls
        value = [1, 2]

        def classify(x, orig):
            if isinstance(x, str) and x.startswith("<"):
                return x[1:-1]
            if x is orig:
                return "pass"
            return "builtin"

        if entry == "mixin":
            obj = ctor(value)
            kw = {"dialect": call_dialect} if call_dialect else {}
            s = obj.to_dict(**kw)["f"]
            inp = [3, 4]
            d = cls.from_dict({"f": inp}, **kw).f
        else:
            obj = ctor(value)
            s = BasicEncoder(cls, default_dialect=def_dialect).encode(obj)["f"]
            inp = [3, 4]
            d = BasicDecoder(cls, default_dialect=def_dialect).decode({"f": inp}).f
        return classify(s, value), classify(d, inp)
    finally:
        globals().pop(f"C10_{idx}", None)
        globals().pop(f"C10_{idx}_S", None)


def run_batch(ctx, batch):
    lines, metas = [], []
    for item in batch:
        levels, entry = item[0], item[1]
        shape = item[2] if len(item) > 2 else "plain"
        eff = dict(levels)
        # a codec has no call dialect; the mixin path here has no default dialect
        for k in KEYS:
            eff.pop(f"{k}:callDialect" if entry == "codec" else f"{k}:defaultDialect", None)
        try:
            real = build_and_observe(eff, entry, ctx.evaluations + len(metas), shape)
        except Exception as e:  # noqa
            real = ("error", f"{type(e).__name__}: {e}"[:200])
        keyed = {k: {s: model_reg(eff.get(f"{k}:{s}"), f"{k}:{s}") for s in SOURCES} for k in KEYS}
        lines.append(
            {
                "op": "resolve",
                "field_ser": ({"fn": "field_ser", "pass": "pass"}.get(eff.get("field_ser"))),
                "field_de": ({"fn": "field_de", "pass": "pass"}.get(eff.get("field_de"))),
                "field_strategy": model_reg(eff.get("field_strategy"), "field_strategy"),
                "keyed": keyed,
            }
        )
        metas.append((eff, entry, real, shape))
    outs = ctx.model(lines)
    for (eff, entry, real, shape), m in zip(metas, outs or [None] * len(metas)):
        case = {"levels": eff, "entry": entry, "shape": shape}
        ctx.count(case, len(eff) >= 2, kind=f"entry:{entry}:{shape}")
        ctx.bump(f"nlevels:{min(len(eff), 6)}")
        if real[0] == "error":
            ctx.violation(case, {"error": real[1]}, "class / codec builds and runs", "customized field failed", lambda f: False)
            continue
        if m is None:
            continue
        exp = (m["spec_ser"] or "builtin", m["spec_de"] or "builtin")
        imp = (m["ser"] or "builtin", m["de"] or "builtin")
        if tuple(real) != exp:
            ctx.violation(case, {"observed": list(real), "lexicographic_minimum": list(exp)}, "the marker identifies the lexicographic minimum of the enabled levels", "a less specific / lower level customization was applied", lambda f: False)
        if tuple(real) != imp:
            ctx.disagreement(case, list(imp), list(real), "resolve")


# ---------------------------------------------------------------------------------------
# binding type parameters in a field type (Mashu.Subst): helpers.substitute_type_params vs the model
# ---------------------------------------------------------------------------------------

_TVS = [typing.TypeVar(f"S10_{i}") for i in range(4)]
_CONS = {"List": (typing.List, 1), "Set": (typing.Set, 1), "Dict": (typing.Dict, 2), "Tuple": (typing.Tuple, None), "Optional": (typing.Optional, 1)}
_ORIGIN_NAME = {list: "List", set: "Set", dict: "Dict", tuple: "Tuple"}


def gen_gty(rng, depth, allow_var=True, top=True):
    r = rng.random()
    if depth <= 0 or r < 0.25:
        if allow_var and rng.random() < 0.6:
            return ["var", rng.randrange(3)]
        return ["app", rng.choice(["int", "str", "bytes"]), []]
    if r < 0.5:
        inner = gen_gty(rng, depth - 1, allow_var, False)
        if inner[0] == "ann":          # Annotated[Annotated[X, a], b] is flattened by typing itself
            inner = inner[1]
        return ["ann", inner, rng.choice(["k", "tag"])]
    con = rng.choice(["List", "Set", "Dict", "Tuple", "List"])
    n = _CONS[con][1] or rng.randint(1, 3)
    return ["app", con, [gen_gty(rng, depth - 1, allow_var, False) for _ in range(n)]]


def real_gty(g):
    if g[0] == "var":
        return _TVS[g[1]]
    if g[0] == "ann":
        return typing.Annotated[real_gty(g[1]), g[2]]
    if not g[2]:
        return {"int": int, "str": str, "bytes": bytes}[g[1]]
    args = tuple(real_gty(a) for a in g[2])
    return _CONS[g[1]][0][args if len(args) > 1 else args[0]]


def unreal_gty(t):
    if isinstance(t, typing.TypeVar):
        return ["var", _TVS.index(t)]
    if typing.get_origin(t) is typing.Annotated:
        inner, *meta = typing.get_args(t)
        return ["ann", unreal_gty(inner), meta[0]] if len(meta) == 1 else ["ann?", repr(t)]
    if t in (int, str, bytes):
        return ["app", t.__name__, []]
    o = typing.get_origin(t)
    if o in _ORIGIN_NAME:
        return ["app", _ORIGIN_NAME[o], [unreal_gty(a) for a in typing.get_args(t)]]
    return ["?", repr(t)]


def run_subst(ctx, n):
    from mashumaro.core.meta.helpers import substitute_type_params

    rng = ctx.rng
    lines, metas = [], []
    fixed = [
        (["ann", ["app", "List", [["var", 0]]], "k"], [[0, ["app", "int", []]]]),
        (["ann", ["var", 0], "k"], [[0, ["app", "int", []]]]),
        (["app", "Dict", [["app", "str", []], ["ann", ["app", "List", [["var", 1]]], "k"]]], [[1, ["app", "int", []]]]),
        (["ann", ["app", "Dict", [["var", 0], ["ann", ["var", 1], "tag"]]], "k"], [[0, ["app", "str", []]], [1, ["app", "List", [["var", 0]]]]]),
    ]
    cases = fixed + [(gen_gty(rng, rng.randint(1, 4)), [[v, gen_gty(rng, rng.randint(0, 2), allow_var=rng.random() < 0.3)] for v in rng.sample(range(3), rng.randint(0, 3))]) for _ in range(n)]
    for g, sigma in cases:
        # (typing itself flattens Annotated[Annotated[X, a], b]: a bound value is never an Annotated at its top)
        sigma = [[v, t[1] if t[0] == "ann" else t] for v, t in sigma]
        case = {"subst": g, "sigma": sigma}
        try:
            real = substitute_type_params(real_gty(g), {_TVS[v]: real_gty(t) for v, t in sigma})
            got = unreal_gty(real)
        except Exception as e:  # noqa
            ctx.violation(case, {"error": f"{type(e).__name__}: {e}"[:200]}, "substitution of bound type parameters is defined", "substitute_type_params raised", lambda f: False)
            continue
        lines.append({"op": "subst", "ty": g, "sigma": sigma})
        metas.append((case, got))
    outs = ctx.model(lines) if lines else []
    for (case, got), m in zip(metas, outs or []):
        nested = case["subst"][0] == "ann" and case["subst"][1][0] != "var" or "ann" in repr(case["subst"][1:])
        ctx.count(case, bool(nested), kind="subst")
        if got != m.get("spec"):
            ctx.violation(case, {"substituted": got, "full_substitution": m.get("spec")},
                          "every customization key of a specialised generic field is computed from the fully substituted field type", "a bound type variable is left in the key", lambda f: False)
        elif got != m.get("impl"):
            ctx.disagreement(case, m.get("impl"), got, "substitute_type_params")


def run_bindparams(ctx, n):
    """generic dataclasses whose own parameter list (Generic[...]) orders the type variables differently from their
    first appearance in the bases: resolve_type_params must bind the i-th argument to the i-th OWN parameter"""
    import itertools
    import types as _types

    from mashumaro.core.meta.helpers import collect_type_params, get_orig_bases, resolve_type_params

    rng = ctx.rng
    lines, metas = [], []
    perms = [p for k in (1, 2, 3) for p in itertools.permutations(range(k))]
    for i in range(n):
        own = list(rng.choice(perms))                 # order of the variables in Generic[...]
        k = len(own)
        basep = list(rng.choice([p for p in perms if len(p) == k]))   # order in which the parent is subscripted
        tvs = [_TVS[j] for j in range(k)]
        base = _types.new_class(f"BP10_{i}_B", (typing.Generic[tuple(tvs)],), exec_body=lambda ns: ns.update({"__annotations__": {f"m{j}": tvs[j] for j in range(k)}}))
        base = dataclasses.dataclass(base)
        child = _types.new_class(f"BP10_{i}_C", (base[tuple(tvs[j] for j in basep)], typing.Generic[tuple(tvs[j] for j in own)]), exec_body=lambda ns: ns.update({"__annotations__": {}}))
        child = dataclasses.dataclass(child)
        args = [int, str, bytes][:k]
        case = {"bindparams": {"own": own, "parent_subscript": basep}}
        ctx.count(case, own != basep, kind="bindparams")
        collected = []
        for b in get_orig_bases(child):
            for tp in collect_type_params(b):
                if tp not in collected:
                    collected.append(tp)
        got = resolve_type_params(child, tuple(args))[child]
        # statement: the i-th argument binds the i-th own parameter
        want = {tvs[own[j]]: args[j] for j in range(k)}
        if got != want:
            ctx.violation(case, {"bound": {str(a): str(b) for a, b in got.items()}}, {"expected": {str(a): str(b) for a, b in want.items()}},
                          "the arguments of a generic class bind its own parameters in order", lambda f: False)
        lines.append({"op": "bindparams", "own": own, "collected": [_TVS.index(t) for t in collected]})
        metas.append((case, [_TVS.index(t) for t in got]))
    outs = ctx.model(lines) if lines else []
    for (case, order), mo in zip(metas, outs or []):
        if mo.get("order") != order:
            ctx.disagreement(case, mo.get("order"), order, "resolve_type_params order")


def run(ctx):
    ctx.rule = RULE
    ctx.lean_check("Mashu.Props.C10", THEOREMS, extra_targets=["Mashu.Dispatch"])
    run_subst(ctx, 600 if ctx.tier == "quick" else 8000)
    run_bindparams(ctx, 120 if ctx.tier == "quick" else 1500)
    rng = ctx.rng
    if ctx.tier == "quick":
        n = 2500
        batch = [(draw(rng), rng.choice(["mixin", "mixin", "codec"]), rng.choice(["plain", "plain", "generic"])) for _ in range(n)]
        for i in range(0, n, 500):
            if ctx.time_left() < 30:
                break
            run_batch(ctx, batch[i : i + 500])
    else:
        allb = []
        for bits in range(1 << 14):
            allb.append((draw(rng, bits), "mixin"))
            allb.append((draw(rng, bits), "codec"))
        for i in range(0, len(allb), 1000):
            if ctx.time_left() < 60:
                ctx.notes.append(f"exhaustive enumeration stopped at {i} of {len(allb)} (time budget)")
                break
            run_batch(ctx, allb[i : i + 1000])
        else:
            ctx.exhaustive = True
        extra = [(draw(rng), rng.choice(["mixin", "codec"]), rng.choice(["plain", "generic"])) for _ in range(6000)]
        for i in range(0, len(extra), 1000):
            if ctx.time_left() < 30:
                break
            run_batch(ctx, extra[i : i + 1000])


def replay(ctx, body):
    c = body["case"]
    if "bindparams" in c:
        run_bindparams(ctx, 200)
        return ctx.finish()
    if "subst" in c:
        from mashumaro.core.meta.helpers import substitute_type_params

        real = substitute_type_params(real_gty(c["subst"]), {_TVS[v]: real_gty(t) for v, t in c["sigma"]})
        out = ctx.model([{"op": "subst", "ty": c["subst"], "sigma": c["sigma"]}])
        ctx.count(c, True)
        if out and unreal_gty(real) != out[0].get("spec"):
            ctx.violation(c, {"substituted": unreal_gty(real), "full_substitution": out[0].get("spec")}, "keys computed from the fully substituted field type", "a bound type variable is left in the key", lambda f: False)
        return ctx.finish()
    run_batch(ctx, [(c["levels"], c["entry"], c.get("shape", "plain"))])
    return ctx.finish()
