"""C08 — serialization options only project the plain output.

Theorems (Props/C08.lean): todict_is_projection (every option vector × field list × instance),
resolve_order + resolve_*_first (lookup order extracted from the source), forwarded_eq_spec.
Tie: real classes built for option vectors (config × Config.dialect × call dialect × default
dialect × code-generation flags × keyword arguments × sort_keys × lazy) and field archetypes;
`to_dict(**kw)` items (order and content) vs the model's implementation function and vs the
specification `project`.
"""
from __future__ import annotations

import dataclasses
import datetime
import ipaddress
import itertools
import typing

from . import schema as S

THEOREMS = [
    "Mashu.ToDict.todict_is_projection",
    "Mashu.ToDict.implField_eq",
    "Mashu.ToDict.literalField_eq",
    "Mashu.ToDict.resolve_order",
    "Mashu.ToDict.resolve_call_first",
    "Mashu.ToDict.resolve_cfgdialect_second",
    "Mashu.ToDict.resolve_config_third",
    "Mashu.ToDict.forwarded_eq_spec",
]
RULE = (
    "option vector drawn from {unset,False,True}^3 (omit_none, omit_default, serialize_by_alias) per namespace (Config, Config.dialect, call dialect, codec default dialect) "
    "x sort_keys x lazy_compilation x subsets of {TO_DICT_ADD_OMIT_NONE_FLAG, TO_DICT_ADD_BY_ALIAS_FLAG} x keyword arguments; classes of 3-6 fields from 10 archetypes "
    "(nullable/defaulted/aliased/identity or converting packers/omitted); 3 instances per class (defaults, other values, Nones); non-trivial = at least one option or flag set; "
    "thorough additionally enumerates the 864-point lattice on a fixed template"
)

D1 = datetime.datetime(2024, 1, 2, 3, 4, 5)
D2 = datetime.datetime(1999, 12, 31, 23, 59, 59)

# name suffix, annotation, default (MISSING = none), nullable, ident, other value, packer
ARCH = [
    ("req_int", int, dataclasses.MISSING, False, True, 7, None),
    ("opt_int_none", typing.Optional[int], None, True, True, 3, None),
    ("opt_int_5", typing.Optional[int], 5, True, True, 6, None),
    ("opt_dt_none", typing.Optional[datetime.datetime], None, True, False, D1, lambda v: v.isoformat()),
    ("opt_list_fac", typing.Optional[typing.List[int]], ("factory", [1]), True, False, [2, 3], lambda v: list(v)),
    ("dt_def", datetime.datetime, D2, False, False, D1, lambda v: v.isoformat()),
    ("str_def", str, "x", False, True, "y", None),
    ("any_req", typing.Any, dataclasses.MISSING, True, True, "a", None),
    ("int_none", int, None, True, True, 4, None),
    ("list_def", typing.List[int], ("factory", []), False, False, [5], lambda v: list(v)),
    ("float_nan", float, float("nan"), False, True, 1.5, None),
    # nullable through forms other than Optional[X] (finding F41: omit_none ignored them)
    ("union3_none", typing.Union[int, str, None], dataclasses.MISSING, True, True, "s", None),
    ("lit_none", typing.Literal[1, None], 1, True, True, None, None),
    # a tuple default whose items are not literals (omit_default compares with the default: finding F69)
    ("tup_ip_def", typing.Tuple[ipaddress.IPv4Address, ...], (ipaddress.IPv4Address("10.0.0.1"),), False, False, (), lambda v: [str(x) for x in v]),
    ("tup_inf_def", typing.Tuple[float, ...], (float("inf"), 1.0), False, False, (2.0,), lambda v: list(v)),
]
OPTS = ("omit_none", "omit_default", "serialize_by_alias")


def _is_fac(dv):
    """("factory", value): the default comes from a default_factory (a plain tuple is an ordinary default value)"""
    return isinstance(dv, tuple) and len(dv) == 2 and dv[0] == "factory"


def draw_case(rng, template=None):
    """returns a dict describing class + option vector + call"""
    if template is not None:
        return template
    n = rng.randint(3, 6)
    archs = [rng.randrange(len(ARCH)) for _ in range(n)]
    # required fields first (dataclass rule)
    archs.sort(key=lambda i: ARCH[i][2] is not dataclasses.MISSING)
    fields = []
    names = ["zeta", "alpha", "mid", "beta", "omega", "gamma"]
    rng.shuffle(names)
    for k, ai in enumerate(archs):
        fields.append({"arch": ai, "name": f"{names[k]}_{ARCH[ai][0]}", "alias": (f"AL{k}'x" if rng.random() < 0.45 else None), "skip": rng.random() < 0.08})
    tri = lambda p=0.5: rng.choice([None, None, False, True]) if rng.random() < p else None  # noqa
    case = {
        "fields": fields,
        "config": {o: tri(0.6) for o in OPTS},
        "config_dialect": ({o: tri(0.6) for o in OPTS} if rng.random() < 0.35 else None),
        "call_dialect": ({o: tri(0.7) for o in OPTS} if rng.random() < 0.35 else None),
        "default_dialect": ({o: tri(0.7) for o in OPTS} if rng.random() < 0.25 else None),
        "sort_keys": rng.random() < 0.3,
        "lazy": rng.random() < 0.2,
        "omit_none_flag": rng.random() < 0.4,
        "by_alias_flag": rng.random() < 0.4,
        "kw_omit_none": None,
        "kw_by_alias": None,
    }
    r = rng.random()
    if r < 0.15:
        case["config_style"] = "plain"
    elif r < 0.3:
        case["config_style"] = "plain-inherited"
    if case["omit_none_flag"] and rng.random() < 0.6:
        case["kw_omit_none"] = rng.random() < 0.5
    if case["by_alias_flag"] and rng.random() < 0.6:
        case["kw_by_alias"] = rng.random() < 0.5
    if case["default_dialect"] is not None:
        case["call_dialect"] = None  # codec entry point: no call dialect, no keyword arguments
        case["kw_omit_none"] = None
        case["kw_by_alias"] = None
    return case


def build(case, idx):
    from mashumaro import DataClassDictMixin, field_options
    from mashumaro.config import ADD_DIALECT_SUPPORT, TO_DICT_ADD_BY_ALIAS_FLAG, TO_DICT_ADD_OMIT_NONE_FLAG, BaseConfig
    from mashumaro.dialect import Dialect

    def mkdialect(d, name):
        if d is None:
            return None
        return type(name, (Dialect,), {k: v for k, v in d.items() if v is not None})

    ann, ns = {}, {}
    for f in case["fields"]:
        a = ARCH[f["arch"]]
        ann[f["name"]] = a[1]
        kw = {}
        md = {}
        if f["alias"]:
            md["alias"] = f["alias"]
        if f["skip"]:
            md["serialize"] = "omit"
        if md:
            kw["metadata"] = field_options(**md)
        if a[2] is not dataclasses.MISSING:
            if _is_fac(a[2]):
                val = a[2][1]
                kw["default_factory"] = (lambda v: (lambda: list(v)))(val)
            else:
                kw["default"] = a[2]
        if kw:
            ns[f["name"]] = dataclasses.field(**kw)
    cfg = {k: v for k, v in case["config"].items() if v is not None}
    flags = []
    if case["omit_none_flag"]:
        flags.append(TO_DICT_ADD_OMIT_NONE_FLAG)
    if case["by_alias_flag"]:
        flags.append(TO_DICT_ADD_BY_ALIAS_FLAG)
    if case["call_dialect"] is not None:
        flags.append(ADD_DIALECT_SUPPORT)
    cfg["code_generation_options"] = flags
    if case["sort_keys"]:
        cfg["sort_keys"] = True
    if case["lazy"]:
        cfg["lazy_compilation"] = True
    cd = mkdialect(case["config_dialect"], "CfgDialect")
    if cd is not None:
        cfg["dialect"] = cd
    style = case.get("config_style", "base")
    if style == "base":
        ns["Config"] = type("Config", (BaseConfig,), cfg)
    elif style == "plain":
        # a plain `class Config:` (the README style), every option in its own namespace
        ns["Config"] = type("Config", (), cfg)
    else:
        # a plain Config INHERITING its options from a plain parent (shared settings class)
        keys = sorted(cfg)
        parent = type("CommonConfig", (), {k: cfg[k] for k in keys[::2]})
        ns["Config"] = type("Config", (parent,), {k: cfg[k] for k in keys[1::2]})
    ns["__annotations__"] = ann
    use_codec = case["default_dialect"] is not None
    cls = type(f"C08_{idx}", () if use_codec else (DataClassDictMixin,), ns)
    cls.__module__ = __name__
    globals()[cls.__name__] = cls
    cls = dataclasses.dataclass(cls)
    return cls, mkdialect(case["call_dialect"], "CallDialect"), mkdialect(case["default_dialect"], "DefDialect")


def instances(case, rng):
    """three value vectors: all defaults/other, other values, Nones where nullable"""
    out = []
    for mode in ("default", "other", "none", "mixed"):
        vals = []
        for f in case["fields"]:
            a = ARCH[f["arch"]]
            dv = a[2]
            has_def = dv is not dataclasses.MISSING
            if mode == "default" and has_def:
                vals.append(list(dv[1]) if _is_fac(dv) else dv)
            elif mode == "none" and a[3]:
                vals.append(None)
            elif mode == "mixed":
                c = rng.random()
                if c < 0.35 and a[3]:
                    vals.append(None)
                elif c < 0.7 and has_def:
                    vals.append(list(dv[1]) if _is_fac(dv) else dv)
                else:
                    vals.append(a[5])
            else:
                vals.append(a[5])
        out.append(vals)
    return out


def py_eq_default(raw, dv):
    import math

    if isinstance(dv, float) and math.isnan(dv):
        return isinstance(raw, float) and math.isnan(raw)   # comp_expr is `not isnan(value)`
    try:
        return bool(raw == dv)
    except Exception:
        return False


def model_line(case, vals):
    fields = []
    eqs = []
    for f, raw in zip(case["fields"], vals):
        a = ARCH[f["arch"]]
        dv = a[2]
        has_def = dv is not dataclasses.MISSING
        dval = (list(dv[1]) if _is_fac(dv) else dv) if has_def else None
        packed = raw if (a[6] is None or raw is None) else a[6](raw)
        craw = S.canon(raw, None)
        fields.append(
            {
                "name": f["name"],
                "alias": f["alias"],
                "nullable": a[3],
                "ident": a[4],
                "default": (["some", S.canon(dval, None)] if has_def else None),
                "skip": f["skip"],
                "raw": craw,
                "packed": S.canon(packed, None),
            }
        )
        if has_def:
            e = py_eq_default(raw, dval)
            if e != S.same(craw, S.canon(dval, None)):
                eqs.append([craw, S.canon(dval, None), e])
    src = {}
    for o in OPTS:
        src[o] = {
            "callDialect": (case["call_dialect"] or {}).get(o),
            "configDialect": (case["config_dialect"] or {}).get(o),
            "config": case["config"].get(o),
            "defaultDialect": (case["default_dialect"] or {}).get(o),
        }
    return {
        "op": "todict",
        "fields": fields,
        "eq": eqs,
        **src,
        "omit_none_flag": case["omit_none_flag"],
        "by_alias_flag": case["by_alias_flag"],
        "sort_keys": case["sort_keys"],
        "kw_omit_none": case["kw_omit_none"],
        "kw_by_alias": case["kw_by_alias"],
        "via_call_dialect": case["call_dialect"] is not None,
    }


def real_call(case, cls, calld, defd, vals):
    from mashumaro.codecs.basic import BasicEncoder

    obj = cls(*vals)
    kw = {}
    if case["kw_omit_none"] is not None:
        kw["omit_none"] = case["kw_omit_none"]
    if case["kw_by_alias"] is not None:
        kw["by_alias"] = case["kw_by_alias"]
    before = [S.canon(getattr(obj, f["name"]), None) for f in case["fields"]]
    if defd is not None:
        r = BasicEncoder(cls, default_dialect=defd).encode(obj)
    else:
        if calld is not None:
            kw["dialect"] = calld
        r = obj.to_dict(**kw)
    after = [S.canon(getattr(obj, f["name"]), None) for f in case["fields"]]
    return [[k, S.canon(v, None)] for k, v in r.items()], (not S.same(before, after))


def k13(case):
    """finding K13: a call dialect that sets omit_none / serialize_by_alias while the matching
    keyword flag is enabled and not passed explicitly"""
    cd = case["call_dialect"] or {}
    return (case["omit_none_flag"] and case["kw_omit_none"] is None and cd.get("omit_none") is not None) or (
        case["by_alias_flag"] and case["kw_by_alias"] is None and cd.get("serialize_by_alias") is not None
    )


def run_batch(ctx, cases):
    lines, metas = [], []
    for idx, case in enumerate(cases):
        try:
            cls, calld, defd = build(case, ctx.evaluations + idx)
        except Exception as e:
            ctx.violation(case, {"build_error": repr(e)[:300]}, "class builds", "class does not build under this option vector", lambda f: False)
            continue
        try:
            for vals in instances(case, ctx.rng):
                try:
                    real, mutated = real_call(case, cls, calld, defd, vals)
                    out = {"ok": real}
                except Exception as e:
                    out, mutated = {"err": f"{type(e).__name__}: {e}"[:200]}, False
                lines.append(model_line(case, vals))
                metas.append((case, [S.canon(v, None) for v in vals], out, mutated))
        finally:
            globals().pop(cls.__name__, None)
    outs = ctx.model(lines)
    for i, (case, vals, out, mutated) in enumerate(metas):
        c = {"options": case, "values": vals}
        nontriv = any(v is not None for d in (case["config"], case["config_dialect"] or {}, case["call_dialect"] or {}, case["default_dialect"] or {}) for v in d.values()) or case["omit_none_flag"] or case["by_alias_flag"] or case["sort_keys"]
        ctx.count(c, nontriv, kind=("incremental?" if False else None))
        for k in ("omit_none_flag", "by_alias_flag", "sort_keys", "lazy"):
            if case[k]:
                ctx.bump(f"opt:{k}")
        for ns in ("config_dialect", "call_dialect", "default_dialect"):
            if case[ns] is not None:
                ctx.bump(f"ns:{ns}")
        if mutated:
            ctx.violation(c, out, "serialization does not mutate the object", "to_dict mutated the instance", lambda f: False)
        if "err" in out:
            ctx.violation(c, out, "to_dict returns", "to_dict raised", lambda f: False)
            continue
        if not outs:
            continue
        m = outs[i]
        if "impl" not in m:
            ctx.disagreement(c, m, out, "todict")
            continue
        spec_ok = S.same(m["spec"], out["ok"])
        impl_ok = S.same(m["impl"], out["ok"])
        if not spec_ok:
            ctx.violation(c, {"impl": out["ok"], "PROJECT": m["spec"]}, "to_dict_o(x) == PROJECT(o, plain), content and order", "to_dict differs from the projection of the plain output", lambda f: f["id"] == "K13" and k13(case) and impl_ok)
        if not impl_ok:
            ctx.disagreement(c, m["impl"], out["ok"], "todict")


def lattice(ctx):
    """the complete lattice {unset,F,T}^3 x sort_keys x 4 flag sets x 4 dialect settings on a fixed template"""
    tmpl_fields = [{"arch": i, "name": f"f{i}_{ARCH[i][0]}", "alias": (f"A{i}" if i % 2 == 0 else None), "skip": False} for i in (0, 1, 2, 3, 4, 5, 6, 8)]
    tmpl_fields.sort(key=lambda f: ARCH[f["arch"]][2] is not dataclasses.MISSING)
    out = []
    for on, od, sba in itertools.product([None, False, True], repeat=3):
        for sk in (False, True):
            for onf, baf in itertools.product((False, True), repeat=2):
                for dial in ("none", "config", "call", "default"):
                    d = {"omit_none": True, "omit_default": None, "serialize_by_alias": True}
                    out.append(
                        {
                            "fields": tmpl_fields,
                            "config": {"omit_none": on, "omit_default": od, "serialize_by_alias": sba},
                            "config_dialect": d if dial == "config" else None,
                            "call_dialect": d if dial == "call" else None,
                            "default_dialect": d if dial == "default" else None,
                            "sort_keys": sk,
                            "lazy": False,
                            "omit_none_flag": onf,
                            "by_alias_flag": baf,
                            "kw_omit_none": None,
                            "kw_by_alias": None,
                        }
                    )
    return out


def run(ctx):
    ctx.rule = RULE
    ctx.lean_check("Mashu.Props.C08", THEOREMS, extra_targets=["Mashu.Dispatch"])
    n = 2500 if ctx.tier == "quick" else 20000
    done = 0
    while done < n and ctx.time_left() > 30:
        k = min(350, n - done)
        run_batch(ctx, [draw_case(ctx.rng) for _ in range(k)])
        done += k
    if ctx.tier == "thorough":
        lat = lattice(ctx)
        for i in range(0, len(lat), 300):
            if ctx.time_left() < 30:
                break
            run_batch(ctx, lat[i : i + 300])
        ctx.extra["lattice_points_enumerated"] = len(lat)
    ctx.assumptions += [
        "Python == between a field value and its default enters the model as a table computed by the harness",
        "the per-field packers (isoformat, list copy) are applied by the harness; C08 is about keys, order and omission, not about value conversion",
    ]


def replay(ctx, body):
    c = body["case"]
    run_batch(ctx, [c["options"]])
    return ctx.finish()
