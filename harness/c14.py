"""C14 — behaviour is independent of compilation timing, call order and threads.

Theorems (Props/C14.lean): lazy_bisim (every class mode x every history of calls and
reference-resolution events == the eager class; stub condition, baked arguments and forwarded
flags extracted from the source), first_call_terminates / spec_never_diverges, define_total,
interleaving_independent + thread_finishes (threads; PARTIAL: atomic attribute access assumed),
stub_in_dialect_method_diverges (what F5 repaired).

Tie: real classes in four modes (eager / lazy_compilation / postponed by a forward reference /
both) over the dict, orjson, msgpack, toml, yaml and json mixins, with nested classes of the
same mode and fields whose handling depends on the format dialect; random histories of calls
over all slots (with and without dialect, with and without caller-supplied en/decoders) and the
event that makes the forward reference resolvable; every outcome is compared with a fresh
eager twin and with the outcome the Lean state machine predicts for that slot.  Support (not
proof): barrier-released threads making the first call at once.
"""
from __future__ import annotations

import dataclasses
import datetime
import sys
import threading
from typing import Optional

from . import c13
from .c13 import canon, cleanup, make_dialect, mk

THEOREMS = [
    "Mashu.Lazy.lazy_bisim",
    "Mashu.Lazy.run_ok",
    "Mashu.Lazy.call_ok",
    "Mashu.Lazy.first_call_terminates",
    "Mashu.Lazy.spec_never_diverges",
    "Mashu.Lazy.define_total",
    "Mashu.Lazy.tables_pinned",
    "Mashu.Lazy.interleaving_independent",
    "Mashu.Lazy.thread_finishes",
    "Mashu.Lazy.stub_in_dialect_method_diverges",
    "Mashu.DiscrF.acts_inv",
    "Mashu.DiscrF.ok_interleave",
    "Mashu.DiscrF.programFixed_ok",
    "Mashu.DiscrF.concurrent_rescans_keep_inv",
    "Mashu.DiscrF.register_first_breaks_inv",
    "Mashu.DiscrF.rescan_order_pinned",
]
RULE = (
    "case = mixin (dict/orjson/msgpack/toml/yaml/json) x mode (eager, lazy_compilation, postponed forward reference, lazy+postponed) x ADD_DIALECT_SUPPORT x "
    "Config.allow_postponed_evaluation x fields (date, bytes, datetime, Optional[int], nested class of the same mode, forward-referenced class) x "
    "history of events: call slot s with dialect k|none and custom en/decoder|none, or 'the forward reference becomes resolvable'; "
    "oracle: fresh eager twin (references resolvable at creation, lazy_compilation off) called with the same arguments; "
    "non-trivial = the first call of some slot happens through a stub (lazy or postponed mode)"
)

MODES = ["eager", "lazy", "postponed", "lazy_postponed"]


def mixin_info():
    """mixin name -> (class, [slot dict])"""
    import json as _json

    from mashumaro import DataClassDictMixin

    base = [
        {"name": "to_dict", "unpack": False, "fmt": "dict", "coder": None, "kw": None, "dd": None, "via": None},
        {"name": "from_dict", "unpack": True, "fmt": "dict", "coder": None, "kw": None, "dd": None, "via": "to_dict"},
    ]
    out = {"dict": (DataClassDictMixin, base)}
    try:
        import orjson
        from mashumaro.mixins.orjson import DataClassORJSONMixin

        out["orjson"] = (DataClassORJSONMixin, base + [
            {"name": "to_jsonb", "unpack": False, "fmt": "jsonb", "coder": "orjson.dumps", "kw": "option", "dd": 101, "via": None,
             "custom": lambda o, **kw: b" " + orjson.dumps(o, **kw)},
            {"name": "from_json", "unpack": True, "fmt": "json", "coder": "orjson.loads", "kw": None, "dd": 101, "via": "to_jsonb",
             "custom": lambda d: {**orjson.loads(d), "_custom": 1} if isinstance(orjson.loads(d), dict) else orjson.loads(d)},
        ])
    except ImportError:
        pass
    try:
        import msgpack
        from mashumaro.mixins.msgpack import DataClassMessagePackMixin

        out["msgpack"] = (DataClassMessagePackMixin, base + [
            {"name": "to_msgpack", "unpack": False, "fmt": "msgpack", "coder": "default_encoder", "kw": None, "dd": 102, "via": None,
             "custom": lambda o: b"\xc0" + msgpack.packb(o, use_bin_type=True)},
            {"name": "from_msgpack", "unpack": True, "fmt": "msgpack", "coder": "default_decoder", "kw": None, "dd": 102, "via": "to_msgpack",
             "custom": lambda d: {**msgpack.unpackb(d, raw=False), "_custom": 1}},
        ])
    except ImportError:
        pass
    try:
        import tomllib

        import tomli_w
        from mashumaro.mixins.toml import DataClassTOMLMixin

        out["toml"] = (DataClassTOMLMixin, base + [
            {"name": "to_toml", "unpack": False, "fmt": "toml", "coder": "tomli_w.dumps", "kw": None, "dd": 103, "via": None,
             "custom": lambda o: "# custom\n" + tomli_w.dumps(o)},
            {"name": "from_toml", "unpack": True, "fmt": "toml", "coder": "tomllib.loads", "kw": None, "dd": 103, "via": "to_toml",
             "custom": lambda d: {**tomllib.loads(d), "_custom": 1}},
        ])
    except ImportError:
        pass
    try:
        import yaml  # noqa
        from mashumaro.mixins.yaml import DataClassYAMLMixin

        out["yaml"] = (DataClassYAMLMixin, base)
    except ImportError:
        pass
    from mashumaro.mixins.json import DataClassJSONMixin

    out["json"] = (DataClassJSONMixin, base)
    return out


FIELDS = ["date", "bytes", "datetime", "optint", "inner", "innerlist"]


def draw_case(rng, tier, info):
    mixin = rng.choice([m for m in ["dict", "orjson", "msgpack", "toml", "orjson", "msgpack", "yaml", "json"] if m in info])
    mode = rng.choice(MODES + ["lazy", "postponed"])
    slots = info[mixin][1]
    fields = rng.sample(FIELDS, rng.randint(1, 4))
    if mixin == "toml":
        fields = [f for f in fields if f not in ("bytes",)] or ["date"]
    case = {
        "mixin": mixin,
        "mode": mode,
        "support": rng.random() < 0.7,
        "cfg_allow_postponed": rng.random() < 0.92,
        "fields": fields,
        "dialects": [c13.draw_dialect_spec(rng, f"L{k}") for k in range(2)],
        "events": [],
        "hooks": rng.random() < 0.4,
    }
    for d in case["dialects"]:
        # keep the documents decodable: markers in both directions or none
        if d.get("date") in ("ser",):
            d["date"] = "both"
        d["int"] = None
        d["opts"].pop("serialize_by_alias", None)
    n = rng.randint(3, 10 if tier == "quick" else 18)
    resolve_at = rng.randrange(n + 1) if "postponed" in mode else None
    if resolve_at is not None and rng.random() < 0.4:
        resolve_at = 0
    for i in range(n):
        if resolve_at == i:
            case["events"].append("resolve")
        if rng.random() < 0.25:
            # a codec object for the class is created here (and used before every later call): creating
            # and using codecs must never change what the class itself does
            case["events"].append({"codec": rng.choice([None, 0, 1])})
        s = rng.randrange(len(slots))
        d = rng.choice([None, None, 0, 1])
        coder = "custom" if (slots[s].get("custom") and rng.random() < 0.25) else None
        ev = {"slot": s, "dialect": d, "coder": coder}
        if slots[s]["name"] == "to_jsonb" and rng.random() < 0.4:
            ev["orjson_options"] = True   # a caller-supplied encoder keyword (OPT_INDENT_2 | OPT_SORT_KEYS)
        case["events"].append(ev)
    if resolve_at == n:
        case["events"].append("resolve")
    case["seed"] = rng.randrange(1 << 30)
    return case


class World:
    """real classes of one case in a given mode"""

    def __init__(self, case, uid, mode, info):
        from mashumaro.config import ADD_DIALECT_SUPPORT, BaseConfig

        self.case, self.uid, self.mode = case, uid, mode
        self.mixin, self.slots = info[case["mixin"]]
        self.lazy = "lazy" in mode
        self.postponed = "postponed" in mode
        self.later_name = f"Later_{uid}"
        self.later = None
        cfg = {"code_generation_options": [ADD_DIALECT_SUPPORT] if case["support"] else [], "lazy_compilation": self.lazy,
               "allow_postponed_evaluation": case["cfg_allow_postponed"]}
        self.Config = type("Config", (BaseConfig,), cfg)
        self.created = False
        self.create_error = None
        self.Inner = None
        self.cls = None

    def resolve(self):
        if self.later is None:
            self.later = mk(self.later_name, (self.mixin,), {"__annotations__": {"x": int, "d": datetime.date}, "Config": self.Config})

    def create(self):
        ann, ns = {}, {"Config": self.Config}
        fs = self.case["fields"]
        if "inner" in fs or "innerlist" in fs:
            self.Inner = mk(f"Inner_{self.uid}", (self.mixin,), {"__annotations__": {"d": datetime.date, "o": Optional[int]}, "o": None, "Config": self.Config})
        for f in fs:
            if f == "date":
                ann["date"] = datetime.date
            elif f == "bytes":
                ann["bytes"] = bytes
            elif f == "datetime":
                ann["datetime"] = datetime.datetime
            elif f == "optint":
                ann["optint"] = Optional[int]
                ns["optint"] = None
            elif f == "inner":
                ann["inner"] = self.Inner
            elif f == "innerlist":
                ann["innerlist"] = list[self.Inner]
        if self.postponed or self.mode == "eager_with_later":
            ann["later"] = f"Optional[{self.later_name}]"
            ns["later"] = None
        ns["__annotations__"] = ann
        self.hooklog = []
        if self.case.get("hooks"):
            log = self.hooklog

            def __pre_serialize__(self_):
                log.append("pre_ser")
                return self_

            def __post_serialize__(self_, d):
                log.append("post_ser")
                return d

            def __pre_deserialize__(cls_, d):
                log.append("pre_de")
                return d

            def __post_deserialize__(cls_, obj):
                log.append("post_de")
                return obj

            ns.update({"__pre_serialize__": __pre_serialize__, "__post_serialize__": __post_serialize__,
                       "__pre_deserialize__": classmethod(__pre_deserialize__), "__post_deserialize__": classmethod(__post_deserialize__)})
        try:
            self.cls = mk(f"W_{self.uid}", (self.mixin,), ns, kw_only=True)
        except Exception as e:  # noqa
            self.create_error = type(e).__name__
        self.created = True

    def instance(self, seed):
        import random

        rng = random.Random(seed)
        kw = {}
        for f in self.case["fields"]:
            if f == "date":
                kw[f] = datetime.date(2020 + rng.randrange(5), 1 + rng.randrange(12), 1 + rng.randrange(28))
            elif f == "bytes":
                kw[f] = rng.choice([b"", b"ab\x00", b"\xff\xfe"])
            elif f == "datetime":
                kw[f] = datetime.datetime(2021, 1 + rng.randrange(12), 3, 4, 5, 6)
            elif f == "optint":
                kw[f] = rng.choice([None, 3])
            elif f == "inner":
                kw[f] = self.Inner(d=datetime.date(2019, 9, 9), o=rng.choice([None, 1]))
            elif f == "innerlist":
                kw[f] = [self.Inner(d=datetime.date(2018, 8, 8), o=None)] * rng.randrange(3)
        if "later" in getattr(self.cls, "__annotations__", {}) and self.later is not None:
            kw["later"] = self.later(x=3, d=datetime.date(2017, 7, 7))
        return self.cls(**kw)

    def call(self, slot_idx, dialect, coder, seed, extra=None):
        """-> ["ok", canon] | ["unresolved"] | ["typeerror"] | ["diverged"] | ["error", type]"""
        from mashumaro.exceptions import UnresolvedTypeReferenceError

        if self.create_error:
            return ["define-raises", self.create_error]
        slot = self.slots[slot_idx]
        kw = dict(extra or {})
        if dialect is not None:
            kw["dialect"] = dialect
        try:
            obj = self.instance(seed)
            del self.hooklog[:]
            if not slot["unpack"]:
                if coder:
                    kw["encoder"] = slot["custom"]
                return ["ok", canon(getattr(obj, slot["name"])(**kw)), list(self.hooklog)]
            # input document: produced by an independent eager twin elsewhere -> passed in via self.doc
            doc = self.docs[(slot_idx, self._dkey(dialect))]
            if coder:
                kw["decoder"] = slot["custom"]
            return ["ok", canon(getattr(self.cls, slot["name"])(doc, **kw)), list(self.hooklog)]
        except UnresolvedTypeReferenceError:
            return ["unresolved"]
        except RecursionError:
            return ["diverged"]
        except TypeError as e:
            if "unexpected keyword argument 'dialect'" in str(e):
                return ["typeerror"]
            return ["error", f"TypeError: {e}"[:160]]
        except Exception as e:  # noqa
            return ["error", f"{type(e).__name__}: {e}"[:160]]

    def make_codec(self, dialect):
        from mashumaro.codecs.basic import BasicDecoder, BasicEncoder

        if not hasattr(self, "codecs"):
            self.codecs = []
        if self.create_error:
            return
        try:
            self.codecs.append((BasicEncoder(self.cls, default_dialect=dialect), BasicDecoder(self.cls, default_dialect=dialect)))
        except Exception as e:  # noqa
            self.codecs.append(type(e).__name__)

    def use_codecs(self, seed):
        from mashumaro.exceptions import UnresolvedTypeReferenceError

        out = []
        for c in getattr(self, "codecs", []):
            if isinstance(c, str):
                out.append(["codec-create-error", c])
                continue
            try:
                doc = c[0].encode(self.instance(seed))
                out.append(["ok", canon(doc), canon(c[1].decode(doc))])
            except UnresolvedTypeReferenceError:
                out.append(["unresolved"])
            except RecursionError:
                out.append(["diverged"])
            except Exception as e:  # noqa
                out.append(["error", f"{type(e).__name__}: {e}"[:160]])
        del self.hooklog[:]
        return out

    def _dkey(self, dialect):
        return None if dialect is None else dialect.__name__


def slot_params(slot):
    return {"fmt": slot["fmt"], "coder": slot["coder"], "coder_kwargs": slot["kw"], "default_dialect": slot["dd"]}


def model_lines(case, info):
    slots = info[case["mixin"]][1]
    lines = []
    for si, slot in enumerate(slots):
        evs = []
        for e in case["events"]:
            if e == "resolve":
                evs.append("resolve")
            elif "codec" in e:
                continue
            elif e["slot"] == si:
                evs.append({"dialect": e["dialect"], "coder": ("custom" if e["coder"] else None)})
        lines.append({
            "op": "lazy", "lazy": "lazy" in case["mode"], "cfg_allow_postponed": case["cfg_allow_postponed"], "support": case["support"],
            "unpack": slot["unpack"], "resolvable": "postponed" not in case["mode"], "params": slot_params(slot), "events": evs,
        })
    return lines


def run_case(ctx, case, cid, info, model=None):
    uid = f"c{cid}"
    slots = info[case["mixin"]][1]
    dialects = [make_dialect(s, f"LD{k}_{uid}") for k, s in enumerate(case["dialects"])]
    real = World(case, uid, case["mode"], info)
    # the eager twin: same fields incl. the `later` field when the real class has one, the referenced class defined first
    twin = World(case, uid + "e", "eager_with_later" if real.postponed else "eager", info)
    try:
        if real.postponed:
            twin.resolve()
        twin.create()
        # documents for unpack calls come from the twin's packers (never from the class under test)
        docs = {}
        tw_obj_seed = case["seed"]
        for si, slot in enumerate(slots):
            if slot["unpack"]:
                via = [i for i, s in enumerate(slots) if s["name"] == slot["via"]][0]
                for d in [None] + dialects:
                    if d is not None and not case["support"]:
                        continue
                    try:
                        o = twin.instance(tw_obj_seed)
                        docs[(si, None if d is None else d.__name__)] = getattr(o, slots[via]["name"])(**({"dialect": d} if d is not None else {}))
                    except Exception:  # noqa
                        pass
        # without support, an unpack call given a dialect ignores it: feed the default document
        for si, slot in enumerate(slots):
            if slot["unpack"] and not case["support"]:
                for d in dialects:
                    if (si, None) in docs:
                        docs[(si, d.__name__)] = docs[(si, None)]
        real.docs = twin.docs = docs
        real.create()
        outs, wants = [], []
        stubbed = False
        first_seen = set()
        for e in case["events"]:
            if e == "resolve":
                real.resolve()
                outs.append(None)
                wants.append(None)
                continue
            if "codec" in e:
                cd = dialects[e["codec"]] if e["codec"] is not None else None
                unresolved_now = real.postponed and real.later is None
                real.make_codec(cd)
                twin.make_codec(cd)
                if unresolved_now and getattr(real, "codecs", None) and real.codecs[-1] == "UnresolvedTypeReferenceError":
                    # the documented error while the reference cannot be resolved (postponed evaluation
                    # switched off for this builder): no codec exists, nothing to compare later
                    real.codecs.pop()
                    if getattr(twin, "codecs", None):
                        twin.codecs.pop()
                    ctx.bump("codec creation refused with the documented error")
                outs.append(None)
                wants.append(None)
                ctx.bump("codec objects created on the class under test")
                continue
            d = dialects[e["dialect"]] if e["dialect"] is not None else None
            if slots[e["slot"]]["unpack"] and (e["slot"], None if d is None else d.__name__) not in docs:
                # the format cannot carry this value under this dialect (e.g. TOML with omit_none=False)
                outs.append(["skipped"])
                wants.append(["skipped"])
                ctx.bump("skipped:no-input-document")
                continue
            extra = None
            if e.get("orjson_options"):
                import orjson

                extra = {"orjson_options": orjson.OPT_INDENT_2 | orjson.OPT_SORT_KEYS}
            if not real.create_error and not (real.postponed and real.later is None):
                cg, cw = real.use_codecs(case["seed"]), twin.use_codecs(case["seed"])
                if cg != cw:
                    ctx.violation({"case": case, "event": len(outs)}, {"got": cg}, {"eager_twin": cw}, "codec objects of the class give other results than those of the eagerly compiled twin", lambda f: False)
            got = real.call(e["slot"], d, e["coder"], case["seed"], extra)
            if real.create_error:
                want = ["define-raises", real.create_error]
            elif real.postponed and real.later is None:
                # before the referenced class exists the only acceptable outcomes are the documented
                # error — or a TypeError for a keyword the signature does not have
                want = ["typeerror"] if (d is not None and not case["support"] and not slots[e["slot"]]["unpack"]) else ["unresolved"]
            else:
                want = twin.call(e["slot"], d, e["coder"], case["seed"], extra)
            if e["slot"] not in first_seen:
                first_seen.add(e["slot"])
                if case["mode"] != "eager":
                    stubbed = True
            outs.append(got)
            wants.append(want)
        # a class whose creation raises: the statement allows only the documented error when
        # postponed evaluation was switched off by the class itself
        if real.create_error:
            legit = real.postponed and not case["cfg_allow_postponed"] and "lazy" not in case["mode"] and real.create_error == "UnresolvedTypeReferenceError"
            if not legit:
                ctx.violation({"case": case}, {"class_creation": real.create_error}, "class creation succeeds (lazy or postponed compilation)", "class statement raised", lambda f: False)
        k = 0
        per_slot_idx = {si: 0 for si in range(len(slots))}
        for ei, e in enumerate(case["events"]):
            if e == "resolve" or "codec" in e:
                continue
            got, want = outs[ei], wants[ei]
            c = {"case": case, "event": ei}
            if got != want and not real.create_error:
                ctx.violation(c, {"got": got}, {"eager_twin": want}, f"call #{ei} ({slots[e['slot']]['name']}, mode {case['mode']}) differs from the eagerly compiled twin", lambda f: False)
            if model is not None and got[0] == "skipped":
                per_slot_idx[e["slot"]] += 1
            elif model is not None:
                m = model[e["slot"]]
                if m["impl"] == "define-raises":
                    pred = ["define-raises"]
                else:
                    o = m["impl"][per_slot_idx[e["slot"]]]
                    if isinstance(o, dict):
                        fmt, dd, kw, md, mc = o["ran"]
                        md_obj = dialects[md] if md is not None else None
                        if real.postponed and real.later is None:
                            pred = ["model-ran-before-resolution"]
                        else:
                            ex = None
                            if e.get("orjson_options"):
                                import orjson

                                ex = {"orjson_options": orjson.OPT_INDENT_2 | orjson.OPT_SORT_KEYS}
                            pred = twin.call(e["slot"], md_obj, mc == "custom", case["seed"], ex)
                    else:
                        pred = [o]
                per_slot_idx[e["slot"]] += 1
                if pred[0] != got[0] or (pred[0] == "ok" and pred != got):
                    ctx.disagreement(c, pred, got, "lazy-history")
                if m["impl"] != m["spec"]:
                    ctx.bump("model_impl_differs_from_spec")
        ctx.count({"case": {k: v for k, v in case.items() if k != "dialects"}}, stubbed, kind=f"mode:{case['mode']}")
        ctx.bump(f"mixin:{case['mixin']}")
        ctx.bump("calls", sum(1 for e in case["events"] if e != "resolve" and "codec" not in e))
        for o in outs:
            if o is not None:
                ctx.bump(f"outcome:{o[0]}")
    finally:
        cleanup()


def thread_stress(ctx, n_classes, n_threads, info):
    """support only: barrier-released threads make the first call of a lazily compiled class"""
    rng = ctx.rng
    bad = 0
    old = sys.getswitchinterval()
    sys.setswitchinterval(1e-6)
    try:
        for ci in range(n_classes):
            case = draw_case(rng, "quick", info)
            case["mode"] = "lazy"
            case["events"] = []
            w = World(case, f"t{ci}", "lazy", info)
            t = World(case, f"t{ci}e", "eager", info)
            w.docs = t.docs = {}
            w.create(), t.create()
            want = t.call(0, None, None, case["seed"])[:2]
            obj = w.instance(case["seed"])
            barrier = threading.Barrier(n_threads)
            res = [None] * n_threads

            def work(i):
                barrier.wait()
                try:
                    res[i] = ["ok", canon(obj.to_dict())]
                except Exception as e:  # noqa
                    res[i] = ["error", f"{type(e).__name__}: {e}"[:160]]

            ths = [threading.Thread(target=work, args=(i,)) for i in range(n_threads)]
            [x.start() for x in ths]
            [x.join() for x in ths]
            ctx.bump("thread_first_calls", n_threads)
            for r in res:
                if r != want:
                    bad += 1
                    ctx.violation({"threads": n_threads, "case": case}, {"got": r}, {"eager_twin": want}, "a thread making the first call of a lazily compiled class got a different result", lambda f: False)
                    break
            cleanup()
    finally:
        sys.setswitchinterval(old)
    ctx.extra["thread_stress"] = {"classes": n_classes, "threads_per_class": n_threads, "mismatches": bad, "role": "support, not proof"}


def run(ctx):
    ctx.rule = RULE
    ctx.lean_check("Mashu.Props.C14", THEOREMS, extra_targets=["Mashu.Dispatch"])
    info = mixin_info()
    ctx.extra["mixins"] = sorted(info)
    quick = ctx.tier == "quick"
    n = 500 if quick else 8000
    # corpus first: witnesses of repaired findings (must pass; they suppress nothing)
    corpus = [w["case"] for f in ctx.known if f.get("status") == "fixed" for w in f.get("witness", {}).get("cases", []) if w["case"]["mixin"] in info]
    ctx.bump("corpus(fixed findings)", len(corpus))
    cases = corpus + [draw_case(ctx.rng, ctx.tier, info) for _ in range(n)]
    n = len(cases)
    lines, index = [], []
    for c in cases:
        ls = model_lines(c, info)
        index.append((len(lines), len(ls)))
        lines.extend(ls)
    ms = ctx.model(lines)
    for cid, c in enumerate(cases):
        if ctx.time_left() < 60:
            ctx.notes.append(f"case loop stopped at {cid} of {n} (time budget)")
            break
        a, k = index[cid]
        run_case(ctx, c, cid, info, ms[a : a + k] if ms else None)
    run_generic_orders(ctx, 12 if quick else 24)
    from . import c14_schedules

    c14_schedules.run_schedules(ctx, 8 if quick else 30)
    thread_stress(ctx, 30 if quick else 400, 8, info)
    ctx.assumptions.append("threads: attribute reads/writes and exec are atomic under the GIL; races inside CPython, functools.lru_cache or the builder's shared __dict__ are outside the model (PARTIAL for schedules)")


def replay(ctx, body):
    if isinstance(body.get("case"), dict) and "schedule" in body["case"]:
        from . import c14_schedules

        c14_schedules.run_schedules(ctx, 30)
        return ctx.finish()
    if isinstance(body.get("case"), dict) and "generic_order" in body["case"]:
        run_generic_orders(ctx, 24)
        return ctx.finish()
    ctx.lean_check("Mashu.Props.C14", THEOREMS, extra_targets=["Mashu.Dispatch"])
    info = mixin_info()
    c = body["case"]
    if c and "threads" in c:
        thread_stress(ctx, 20, c["threads"], info)
    elif c:
        case = c["case"]
        ms = ctx.model(model_lines(case, info))
        run_case(ctx, case, 0, info, ms)
    return ctx.finish()


def run_generic_orders(ctx, n):
    """order of first use of generic specialisations: a lazily compiled (or postponed) holder of Page[m1.Item]
    and one of Page[m2.Item] — two classes with ONE name in different modules — used in every order of first
    calls; every outcome must be the one of the eagerly compiled twin"""
    import dataclasses
    import itertools
    import sys
    import types
    import typing

    from mashumaro import DataClassDictMixin
    from mashumaro.config import BaseConfig

    T = typing.TypeVar("T")
    calls = ["to1", "to2", "from1", "from2"]
    orders = list(itertools.permutations(calls))
    ctx.rng.shuffle(orders)
    made = []

    def world(uid, lazy):
        mods = []
        for k in (1, 2):
            m = types.ModuleType(f"c14gen_{uid}_{k}")
            sys.modules[m.__name__] = m
            made.append(m.__name__)
            mods.append(m)
        cfg = type("Config", (BaseConfig,), {"lazy_compilation": lazy})

        def dc(mod, name, ann, ns=None, bases=(DataClassDictMixin,)):
            d = {"__annotations__": ann, "__module__": mod.__name__, "Config": cfg, **(ns or {})}
            c = type(name, bases, d)
            setattr(mod, name, c)
            return dataclasses.dataclass(c)

        I1 = dc(mods[0], "Item", {"name": str})
        I2 = dc(mods[1], "Item", {"name": str, "price": int})
        Page = types.new_class("Page", (DataClassDictMixin, typing.Generic[T]), {}, lambda ns: ns.update({"__annotations__": {"items": typing.List[T]}, "__module__": mods[0].__name__, "Config": cfg}))
        setattr(mods[0], "Page", Page)
        Page = dataclasses.dataclass(Page)
        R1 = dc(mods[0], "Response", {"page": Page[I1]})
        R2 = dc(mods[1], "Response", {"page": Page[I2]})
        v1, v2 = R1(Page([I1("a")])), R2(Page([I2("b", 7)]))
        d1, d2 = {"page": {"items": [{"name": "a"}]}}, {"page": {"items": [{"name": "b", "price": 7}]}}
        return {"to1": lambda: v1.to_dict(), "to2": lambda: v2.to_dict(), "from1": lambda: canon(R1.from_dict(d1)), "from2": lambda: canon(R2.from_dict(d2))}

    def run(fns, order):
        out = {}
        for c in order:
            try:
                out[c] = ["ok", fns[c]()]
            except RecursionError:
                out[c] = ["diverged"]
            except Exception as e:  # noqa
                out[c] = ["error", f"{type(e).__name__}: {e}"[:160]]
        return out

    try:
        for i, order in enumerate(orders[:n]):
            case = {"generic_order": list(order)}
            ctx.count(case, True, kind="generic-specialisation order")
            want = run(world(f"{ctx.seed}_{i}e", False), calls)
            got = run(world(f"{ctx.seed}_{i}l", True), order)
            if got != want:
                diff = {k: got[k] for k in calls if got[k] != want[k]}
                ctx.violation(case, {"lazy": diff}, {"eager_twin": {k: want[k] for k in diff}}, "results depend on the order in which generic specialisations were first used", lambda f: False)
    finally:
        for mname in made:
            sys.modules.pop(mname, None)
