"""Extraction of the splice sites: every place where builder.py / pack.py / unpack.py paste a
schema-supplied string (alias, TypedDict key, discriminator field, allowed-keys set) into
generated source text, with the conversion used (`!r`/repr or raw)."""
from __future__ import annotations

import ast

from . import core

# (file, function) -> expressions (as unparsed source) that carry schema-supplied strings there
TAINTED = {
    ("mashumaro/core/meta/code/builder.py", "_add_unpack_method_lines"): {"allowed_keys_str"},
    ("mashumaro/core/meta/code/builder.py", "_add_pack_method_lines"): {"k"},
    ("mashumaro/core/meta/code/builder.py", "__pack_method_set_value"): {"alias", "fname_or_alias"},
    ("mashumaro/core/meta/code/builder.py", "build"): {"alias", "alias or fname"},
    ("mashumaro/core/meta/types/pack.py", "pack_typed_dict"): {"key"},
    ("mashumaro/core/meta/types/unpack.py", "unpack_typed_dict"): {"key"},
    # (_add_body of the discriminated-union builder and of the Literal builder)
    ("mashumaro/core/meta/types/unpack.py", "_add_body"): {"discriminator.field", "self.discriminator.field", "literal_value.name"},
    # the NAME of an enum member used in a Literal (arbitrary for functional-API enums)
    ("mashumaro/core/meta/types/pack.py", "pack_literal"): {"literal_value.name"},
}


def _joined_repr(node: ast.AST) -> bool:
    """is the expression `<sep>.join(map(repr, X))` or `<sep>.join(repr(i) for i in X)`"""
    if isinstance(node, ast.Call) and isinstance(node.func, ast.Attribute) and node.func.attr == "join" and node.args:
        a = node.args[0]
        if isinstance(a, ast.Call) and isinstance(a.func, ast.Name) and a.func.id == "map" and a.args and isinstance(a.args[0], ast.Name) and a.args[0].id == "repr":
            return True
        if isinstance(a, ast.GeneratorExp) and isinstance(a.elt, ast.Call) and isinstance(a.elt.func, ast.Name) and a.elt.func.id == "repr":
            return True
    return False


def sites() -> list[dict]:
    out = []
    for (path, fn), names in sorted(TAINTED.items()):
        src = (core.REPO / path).read_text()
        tree = ast.parse(src)
        for node in ast.walk(tree):
            if isinstance(node, ast.FunctionDef) and node.name == fn:
                # assignments that pre-render a tainted variable
                prerendered = {}
                for st in ast.walk(node):
                    if isinstance(st, ast.Assign) and len(st.targets) == 1 and isinstance(st.targets[0], ast.Name) and st.targets[0].id in names:
                        prerendered[st.targets[0].id] = _joined_repr(st.value)
                for js in ast.walk(node):
                    if not isinstance(js, ast.JoinedStr):
                        continue
                    vals = js.values
                    for i, fv in enumerate(vals):
                        if not isinstance(fv, ast.FormattedValue):
                            continue
                        expr = ast.unparse(fv.value)
                        if expr.startswith("(") and expr.endswith(")"):
                            expr = expr[1:-1]
                        if expr not in names:
                            continue
                        if fn == "_add_pack_method_lines" and expr == "k":
                            # only the dict-literal of field keys, not the encoder kwargs
                            seg = ast.get_source_segment(src, js) or ""
                            if "=" in seg and ":" not in seg:
                                continue
                        prev = vals[i - 1] if i > 0 else None
                        quoted = isinstance(prev, ast.Constant) and isinstance(prev.value, str) and prev.value[-1:] in ("'", '"')
                        if fv.conversion == 114:
                            conv = "repr"
                        elif prerendered.get(expr):
                            conv = "repr"
                        else:
                            conv = "raw"
                        out.append({"file": path, "line": js.lineno, "var": expr, "conv": conv, "quoted": bool(quoted), "function": fn})
    out.sort(key=lambda s: (s["file"], s["line"], s["var"]))
    return out
