"""C07, inherited members over arbitrary inheritance graphs (Props/C07.lean, section Mro).

For a generated class graph (chains, diamonds, non-dataclass ancestors in between, re-declarations
with another default status / init flag / nullability, plain defaults, bare annotations) the leaf is
created with the mixin, and

* the builder's view `CodeBuilder(leaf).dataclass_fields` taken BEFORE @dataclass processes the
  leaf (the moment the mixin compiles) is compared, Field object by Field object, with the model's
  `collect` (walk direction from Generated.lean) and with what `dataclasses` then really binds
  (`leaf.__dataclass_fields__[name] is view[name]`);
* from_dict is run on the empty input, the full input and every single-key input and compared with
  the expectation derived from `dataclasses.fields(leaf)` alone;
* members annotated in NON-dataclass ancestors are not constructor parameters: they must never be
  required nor read (C07 "members that are not constructor parameters are never read").
"""
from __future__ import annotations

import dataclasses
import typing

KINDS = ["req", "def", "noinit", "optnone", "optdef", "fac", "plain", "bare"]


def gen_graph(rng):
    """nodes in definition order; node = {bases:[idx], dc:bool, decl:[(name, kind)]}; last node = leaf"""
    n = rng.choice([2, 3, 3, 4, 4, 5])
    names = ["x", "y", "z", "w"][: rng.randint(1, 4)]
    nodes = []
    for i in range(n):
        if i == 0:
            bases = []
        else:
            k = 1 if rng.random() < 0.6 else 2
            cand = list(range(i))
            # prefer recent classes so that chains get deep; diamonds arise from k == 2
            bases = sorted({rng.choice(cand[-2:]) if rng.random() < 0.7 else rng.choice(cand) for _ in range(k)}, reverse=True)
        dc = True if i == n - 1 else rng.random() < 0.8
        decl = []
        if dc:
            for nm in names:
                if rng.random() < (0.55 if i == 0 else 0.35):
                    decl.append([nm, rng.choice(KINDS)])
        else:
            # a plain class in between: its annotated attributes are not dataclass members.  It only
            # uses names of its own (re-annotating a dataclass field from a non-dataclass class makes
            # typing.get_type_hints and dataclasses.fields disagree about the type — not a C07 matter)
            for nm in ("u", "v"):
                if rng.random() < 0.5:
                    decl.append([nm, rng.choice(["plain", "bare"])])
        nodes.append({"bases": bases, "dc": dc, "decl": decl})
    return {"nodes": nodes, "names": names}


def _field(kind, tag):
    if kind == "req":
        return dataclasses.field(), int
    if kind == "def":
        return dataclasses.field(default=tag), int
    if kind == "noinit":
        return dataclasses.field(default=tag, init=False), int
    if kind == "optnone":
        return dataclasses.field(default=None), typing.Optional[int]
    if kind == "optdef":
        return dataclasses.field(default=tag), typing.Optional[int]
    if kind == "fac":
        # same value type as the other kinds: in a diamond dataclasses lets the LAST base's whole field
        # table win while typing.get_type_hints follows the MRO, so conflicting TYPES of one member are
        # ambiguous by themselves (not a mashumaro matter); default status / init / nullability still vary
        return dataclasses.field(default_factory=lambda t=tag: t), int
    if kind == "plain":
        return tag, int
    return dataclasses.MISSING, int   # bare annotation


def build(graph, idx):
    """returns (leaf_undecorated_factory_result) = dict with classes, leaf (not yet decorated), or raises TypeError (MRO conflict)"""
    from mashumaro import DataClassDictMixin

    classes = []
    for i, nd in enumerate(graph["nodes"]):
        leaf = i == len(graph["nodes"]) - 1
        ann, ns = {}, {}
        for j, (nm, kind) in enumerate(nd["decl"]):
            v, t = _field(kind, 100 * (i + 1) + j)
            ann[nm] = t
            if v is not dataclasses.MISSING:
                ns[nm] = v
        ns["__annotations__"] = ann
        ns["__module__"] = __name__
        bases = tuple(classes[b] for b in nd["bases"])
        if leaf and not any(issubclass(b, DataClassDictMixin) for b in bases):
            bases = bases + (DataClassDictMixin,)
        c = type(f"G07_{idx}_{i}", bases, ns)
        if nd["dc"] and not leaf:
            c = dataclasses.dataclass(kw_only=True)(c)
        classes.append(c)
    return classes


def run_graphs(ctx, graphs):
    from mashumaro.core.meta.code.builder import CodeBuilder
    from mashumaro.exceptions import MissingField

    lines, metas = [], []
    for g in graphs:
        idx = ctx.evaluations
        case = {"graph": g}
        try:
            classes = build(g, idx)
        except TypeError as e:
            if "MRO" in str(e) or "duplicate base" in str(e) or "non-default argument" in str(e) or "mutable default" in str(e):
                ctx.bump("graph_rejected_by_python")
                continue
            ctx.violation(case, {"build_error": f"{type(e).__name__}: {e}"[:300]}, "class builds", "class does not build", lambda f: False)
            continue
        except Exception as e:  # noqa
            ctx.violation(case, {"build_error": f"{type(e).__name__}: {e}"[:300]}, "class builds", "class does not build", lambda f: False)
            continue
        leaf = classes[-1]
        # --- the builder's view at compile time (leaf not processed by @dataclass yet) ---
        try:
            view = dict(CodeBuilder(leaf).dataclass_fields)
        except Exception as e:  # noqa
            ctx.violation(case, {"error": f"{type(e).__name__}: {e}"[:300]}, "dataclass_fields computable", "builder could not collect the fields", lambda f: False)
            continue
        ids = {}

        def fid(f):
            return ids.setdefault(id(f), len(ids))

        ancs = []
        for a in leaf.__mro__[1:]:
            if dataclasses.is_dataclass(a):
                ancs.append([[n, fid(f)] for n, f in a.__dataclass_fields__.items()])
            else:
                ancs.append(None)
        own = []
        for nm in leaf.__dict__.get("__annotations__", {}):
            v = leaf.__dict__.get(nm, dataclasses.MISSING)
            own.append([nm, fid(v) if isinstance(v, dataclasses.Field) else None])
        keys = list(g["names"]) + sorted({nm for nd in g["nodes"] for nm, _k in nd["decl"]} - set(g["names"]))
        impl_view = [ids.get(id(view[k])) if k in view else None for k in keys]
        unknown = [k for k in keys if k in view and id(view[k]) not in ids]
        try:
            leafd = dataclasses.dataclass(kw_only=True)(leaf)
        except TypeError:
            ctx.bump("graph_rejected_by_python")
            continue
        ctx.count(case, len(g["nodes"]) >= 3, kind=f"mro_nodes:{len(g['nodes'])}")
        # what dataclasses binds: the very Field object for every name the view knows
        real = leafd.__dataclass_fields__
        for k in keys:
            if k in view and (k not in real or real[k] is not view[k]):
                ctx.violation(case, {"member": k, "builder_sees": repr(view[k])[:200], "dataclasses_binds": repr(real.get(k))[:200]},
                              "the Field the builder consults is the one dataclasses binds the parameter to", "builder consults another class's Field for an inherited member", lambda f: False)
        if unknown:
            ctx.violation(case, {"members": unknown}, "every Field in the view comes from an ancestor or the own namespace", "Field of unknown origin", lambda f: False)
        lines.append({"op": "mro", "ancs": ancs, "own": own, "keys": keys})
        metas.append((case, impl_view))
        # --- behaviour: expectation from dataclasses.fields alone ---
        flds = {f.name: f for f in dataclasses.fields(leafd)}
        non_members = [k for k in keys if k not in flds]   # annotated only in non-dataclass ancestors (or ClassVar-like): not parameters
        inputs = [{}, {k: 5 for k in flds}, {k: 5 for k in keys}] + [{k: 5} for k in keys]
        for d in inputs:
            dd = dict(d)
            exp = None
            for f in flds.values():
                has_def = f.default is not dataclasses.MISSING or f.default_factory is not dataclasses.MISSING
                if f.init and f.name not in dd and not has_def:
                    exp = ("missing", f.name)
                    break
            if exp is None:
                # the constructor itself is the reference for the values (an init=False member with a plain
                # default is not assigned by __init__ at all: attribute lookup along the MRO decides)
                ref = leafd(**{f.name: dd[f.name] for f in flds.values() if f.init and f.name in dd})
                exp = ("ok", {n: getattr(ref, n) for n in flds})
            try:
                o = leafd.from_dict(dict(dd))
                got = ("ok", {n: getattr(o, n) for n in flds})
            except MissingField as e:
                got = ("missing", e.field_name)
            except Exception as e:  # noqa
                got = ("other", f"{type(e).__name__}: {e}"[:200])
            ctx.bump("mro_inputs")
            if list(got) != list(exp):
                ctx.violation({"graph": g, "input": dd}, {"impl": list(got), "expected": list(exp), "non_members": non_members},
                              "field == input if key present (constructor parameters only) else the default dataclasses holds; members that are not constructor parameters are never read or required",
                              "inherited member handled with the wrong Field / non-parameter read", lambda f: False)
        for c in classes:
            globals().pop(c.__name__, None)
    outs = ctx.model(lines) if lines else []
    for (case, impl_view), m in zip(metas, outs or []):
        if m.get("view") != impl_view:
            ctx.disagreement(case, m.get("view"), impl_view, "dataclass_fields view (Field identities)")
        if m.get("view") != m.get("spec"):
            ctx.disagreement(case, m.get("view"), m.get("spec"), "model view vs nearest-ancestor spec")
