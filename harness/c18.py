"""C18 — no hidden sharing or mutation.

Theorems (Props/C18.lean): default_shares_nothing, shared_only_listed (packS_byRef, mutual
structural induction over the grammar, every argument value), listed_free_is_shared_coll/_map,
converted_not_shared_coll.

Tie: for generated (schema, value, no_copy set N): the identity graph of the real argument and
of the real result of BasicEncoder(T, default_dialect=N-dialect) / to_dict are intersected on
mutable containers and compared with the identities the Lean sharing model predicts; model-free
predicates on the implementation: argument deep-equal before/after (no mutation), N = {} and no
Any position => empty intersection, every shared container has a listed class; decoding: input
deep-equal before/after and result/input intersection empty outside Any positions; a stream of
class families where no_copy_collections comes from Config.dialect of a parent, an overriding
subclass Config, a nested class with its own Config, or the call dialect.
"""
from __future__ import annotations

import collections
import copy
import dataclasses
import types
import typing

from . import corelib, gen
from . import schema as S

THEOREMS = [
    "Mashu.Share.default_shares_nothing",
    "Mashu.Share.shared_only_listed",
    "Mashu.Share.packS_byRef",
    "Mashu.Share.listed_free_is_shared_coll",
    "Mashu.Share.listed_free_is_shared_map",
    "Mashu.Share.converted_not_shared_coll",
    "Mashu.Share.byRef_empty",
]
RULE = (
    "type-directed generation (depth<=3 quick / 4 thorough) restricted to schemas without union / TypedDict (Any allowed and tracked), a conforming value with at least one "
    "mutable container where possible, a no_copy set N drawn from subsets of {list, dict, set, frozenset, deque, OrderedDict, Counter, defaultdict, MappingProxyType} "
    "(N = {} in a third of the cases); encode through the codec with default_dialect and through the mixin; decode of the basic form; "
    "non-trivial = the value contains a mutable container; plus class-family templates for the provenance of no_copy_collections"
)

ORIGINS = {
    "list": list, "set": set, "frozenset": frozenset, "deque": collections.deque,
    "dict": dict, "odict": collections.OrderedDict, "counter": collections.Counter,
    "mproxy": types.MappingProxyType, "ddict": collections.defaultdict,
}
MUTABLE = (list, dict, set, collections.deque, collections.OrderedDict, collections.Counter, collections.defaultdict, collections.ChainMap)


def containers(obj, acc=None, all_objects=False):
    """id -> object for every mutable container reachable from obj (dataclass instances are
    walked through, tuples / frozensets / mappingproxies are walked through but not counted)"""
    if acc is None:
        acc = {}
    if isinstance(obj, MUTABLE):
        if id(obj) in acc:
            return acc
        acc[id(obj)] = obj
    if isinstance(obj, collections.ChainMap):
        for m in obj.maps:
            containers(m, acc)
    elif isinstance(obj, (dict, types.MappingProxyType)):
        for k, v in obj.items():
            containers(k, acc)
            containers(v, acc)
    elif isinstance(obj, (list, tuple, set, frozenset, collections.deque)):
        for v in obj:
            containers(v, acc)
    elif dataclasses.is_dataclass(obj) and not isinstance(obj, type):
        for f in dataclasses.fields(obj):
            if hasattr(obj, f.name):
                containers(getattr(obj, f.name), acc)
    return acc


def to_sv(obj, ids, keep=None):
    """Python object -> the sharing model's value (ids: id(obj) -> small int; keep: small int -> object)"""
    def nid(o):
        k = ids.setdefault(id(o), len(ids) + 1)
        if keep is not None:
            keep[k] = o
        return k

    if isinstance(obj, collections.ChainMap):
        return ["box", nid(obj), "chainmap", [to_sv(m, ids, keep) for m in obj.maps]]
    if isinstance(obj, (dict, types.MappingProxyType)):
        return ["kv", nid(obj), type(obj).__name__, [[to_sv(k, ids, keep), to_sv(v, ids, keep)] for k, v in obj.items()]]
    if isinstance(obj, (list, set, frozenset, collections.deque)):
        return ["box", nid(obj), type(obj).__name__, [to_sv(v, ids, keep) for v in obj]]
    if isinstance(obj, tuple):
        return ["box", nid(obj), "tuple", [to_sv(v, ids, keep) for v in obj]]
    if dataclasses.is_dataclass(obj) and not isinstance(obj, type):
        return ["box", nid(obj), "inst", [to_sv(getattr(obj, f.name), ids, keep) for f in dataclasses.fields(obj)]]
    return ["atom"]


def plain(ty):
    for n in S.ty_nodes(ty):
        if not isinstance(n, str) and n[0] in ("union", "td"):
            return False
    return True


def has_any(ty):
    return any(n == "any" for n in S.ty_nodes(ty))


def draw_nocopy(rng):
    if rng.random() < 0.33:
        return []
    k = rng.choice([1, 1, 2, 3, len(ORIGINS)])
    return sorted(rng.sample(sorted(ORIGINS), k))


def nocopy_dialect(N):
    from mashumaro.dialect import Dialect

    return type("NC", (Dialect,), {"no_copy_collections": tuple(ORIGINS[n] for n in N)})


def deep_snapshot(obj):
    try:
        return copy.deepcopy(obj)
    except Exception:  # noqa
        return None


def run_cases(ctx, cases):
    from mashumaro.codecs.basic import BasicDecoder, BasicEncoder

    lines, metas = [], []
    for ty, value, N in cases:
        reg = S.Reg(mixin=True)
        keep = False
        try:
            try:
                ann = S.realize(ty, reg)
                obj = S.from_v(value, reg)
            except RecursionError:
                raise
            except Exception:  # noqa
                ctx.bump("build_error")
                continue
            case = {"ty": ty, "value": value, "no_copy": N}
            arg_c = containers(obj)
            ctx.count(case, bool(arg_c), kind=f"N:{len(N)}")
            before = S.canon(obj, reg)
            try:
                enc = BasicEncoder(ann, default_dialect=nocopy_dialect(N))
                res = enc.encode(obj)
            except RecursionError:
                raise
            except Exception as e:  # noqa
                ctx.bump("encode_raises")
                continue
            after = S.canon(obj, reg)
            if not S.same(before, after):
                ctx.violation(case, {"after": after}, {"before": before}, "serialization mutated its argument", lambda f: False)
            res_c = containers(res)
            shared = sorted(set(arg_c) & set(res_c))
            ids, keepobj = {}, {}
            sv = to_sv(obj, ids, keepobj)
            shared_small = sorted(ids[i] for i in shared if i in ids)
            ctx.bump("shared:nonempty" if shared else "shared:empty")
            # model-free predicates
            if not N and not has_any(ty) and shared:
                ctx.violation(case, {"shared": [type(arg_c[i]).__name__ for i in shared]}, "default dialect: the result shares no mutable container with the argument", "result shares a container with the argument under the default dialect", lambda f: False)
            elif not has_any(ty):
                listed = tuple(ORIGINS[n] for n in N)
                bad = [type(arg_c[i]).__name__ for i in shared if type(arg_c[i]) not in listed and not _inside_shared(arg_c[i], [arg_c[j] for j in shared if type(arg_c[j]) in listed])]
                if bad:
                    ctx.violation(case, {"shared_unlisted": bad}, {"no_copy_collections": N}, "a container of a class not listed in no_copy_collections is shared", lambda f: False)
            # result may be mutated freely without touching the argument (default dialect)
            if not N and not has_any(ty):
                _scribble(res)
                if not S.same(before, S.canon(obj, reg)):
                    ctx.violation(case, {"after_mutating_result": S.canon(obj, reg)}, {"before": before}, "mutating the result changed the argument", lambda f: False)
            lines.append({"op": "share", "ty": ty, "value": sv, "no_copy": {n: True for n in N}})
            metas.append((case, shared_small, ids, reg, keepobj))
            keep = True
            # ---------------- decoding ----------------
            try:
                data = BasicEncoder(ann).encode(obj)
                d_before = deep_snapshot(data)
                back = BasicDecoder(ann).decode(data)
            except RecursionError:
                raise
            except Exception:  # noqa
                continue
            if d_before is not None and not _deep_eq(d_before, data):
                ctx.violation(case, {"input_after": repr(data)[:300]}, {"input_before": repr(d_before)[:300]}, "deserialization mutated its input", lambda f: False)
            if not has_any(ty):
                sh = set(containers(data)) & set(containers(back))
                if sh:
                    ctx.violation(case, {"shared": [type(containers(data)[i]).__name__ for i in sh]}, "the deserialized result shares no typed container with the input", "deserialization result shares a container with its input", lambda f: False)
            ctx.bump("decode_checked")
        finally:
            if not keep:
                reg.close()
    outs = ctx.model(lines)
    for i, (case, shared_small, ids, reg, keepobj) in enumerate(metas):
        try:
            if outs is None:
                continue
            m = outs[i]
            if "shared" not in m:
                ctx.disagreement(case, m, shared_small, "share: driver")
                continue
            # the model lists the TOP of each shared subtree; the implementation's intersection
            # contains everything below those tops as well
            tops = set(m["shared"])
            want = set()
            for t in tops:
                if t in keepobj:
                    want |= {ids[j] for j in containers(keepobj[t]) if j in ids}
            got = set(shared_small)
            if got != want:
                ctx.disagreement(case, {"tops": sorted(tops), "closure": sorted(want)}, sorted(got), "share")
        finally:
            reg.close()


def _inside_shared(o, tops):
    for t in tops:
        if id(o) in containers(t):
            return True
    return False


def _scribble(res):
    """mutate every mutable container of the result"""
    for c in list(containers(res).values()):
        try:
            if isinstance(c, list):
                c.append("scribble")
            elif isinstance(c, dict):
                c["scribble"] = 1
        except Exception:  # noqa
            pass


def _deep_eq(a, b):
    try:
        return a == b and repr(a) == repr(b)
    except Exception:  # noqa
        return True


# ----------------------------------------------------------------------------------------
# where no_copy_collections comes from
# ----------------------------------------------------------------------------------------


def run_families(ctx, n):
    from mashumaro import DataClassDictMixin
    from mashumaro.codecs.basic import BasicEncoder
    from mashumaro.config import ADD_DIALECT_SUPPORT, BaseConfig
    from mashumaro.dialect import Dialect

    rng = ctx.rng
    for i in range(n):
        # effective N per class, computed here from the documented lookup order:
        # call dialect > Config.dialect > default dialect
        pN = rng.choice([[], ["list"], ["list", "dict"], ["dict"]])
        child_overrides = rng.random() < 0.6
        cN = rng.choice([[], ["list"], ["dict"]]) if child_overrides else pN
        nested_N = rng.choice([[], ["list"]])
        callN = rng.choice([None, None, [], ["list", "dict"]])
        uid = f"f18_{ctx.evaluations}_{i}"

        def cfg(N, support=True):
            d = {"code_generation_options": [ADD_DIALECT_SUPPORT] if support else []}
            if N:
                d["dialect"] = nocopy_dialect(N)
            return type("Config", (BaseConfig,), d)

        names = []

        def mkc(name, bases, ns):
            c = type(name, bases, ns)
            c.__module__ = __name__
            globals()[name] = c
            names.append(name)
            return dataclasses.dataclass(c)

        try:
            Nested = mkc(f"N_{uid}", (DataClassDictMixin,), {"__annotations__": {"xs": typing.List[int], "m": typing.Dict[str, int]}, "Config": cfg(nested_N, support=False)})
            Parent = mkc(f"P_{uid}", (DataClassDictMixin,), {"__annotations__": {"tags": typing.List[str], "attrs": typing.Dict[str, int], "conv": typing.List[typing.Optional[int]], "inner": Nested}, "Config": cfg(pN)})
            ns = {"__annotations__": {"scores": typing.List[int]}}
            if child_overrides:
                ns["Config"] = cfg(cN)
            Child = mkc(f"C_{uid}", (Parent,), ns)
            for cls, ownN in ((Parent, pN), (Child, cN)):
                kw = {"tags": ["a"], "attrs": {"k": 1}, "conv": [1, None], "inner": Nested(xs=[1], m={"z": 2})}
                if cls is Child:
                    kw["scores"] = [5]
                obj = cls(**kw)
                effN = callN if callN is not None else ownN
                call_kw = {"dialect": nocopy_dialect(callN)} if callN is not None else {}
                case = {"family": {"parent_N": pN, "child_overrides": child_overrides, "child_N": cN, "nested_N": nested_N, "call_N": callN, "cls": cls.__name__.split("_")[0]}}
                ctx.count(case, True, kind="family")
                res = obj.to_dict(**call_kw)
                expect_shared = set()
                # (conv: List[Optional[int]] — Optional of a conversion-free type is conversion-free)
                for fname, val in (("tags", obj.tags), ("attrs", obj.attrs), ("conv", obj.conv)) + ((("scores", obj.scores),) if cls is Child else ()):
                    if type(val).__name__ in effN:
                        expect_shared.add(fname)
                # the nested class uses ITS OWN config
                nested_expect = {"xs"} if "list" in nested_N else set()
                got_shared = {f for f in ("tags", "attrs", "conv", "scores") if f in res and hasattr(obj, f) and res[f] is getattr(obj, f)}
                got_nested = {f for f in ("xs", "m") if res["inner"][f] is getattr(obj.inner, f)}
                if got_shared != expect_shared or got_nested != nested_expect:
                    ctx.violation(case, {"shared_fields": sorted(got_shared), "shared_nested": sorted(got_nested)}, {"shared_fields": sorted(expect_shared), "shared_nested": sorted(nested_expect)}, "containers passed by reference do not match the no_copy_collections in effect for the class", lambda f: False)
        finally:
            for nme in names:
                globals().pop(nme, None)


def run_format_histories(ctx, n):
    """to_dict(dialect=D) must not share containers whatever format methods were called with D before
    (the format mixins' own dialects carry no_copy_collections; their per-dialect packers are kept in
    per-format caches): histories of calls over (format method | to_dict) x (dialect | none)"""
    from mashumaro.config import ADD_DIALECT_SUPPORT, BaseConfig
    from mashumaro.dialect import Dialect

    mixins = []
    try:
        from mashumaro.mixins.orjson import DataClassORJSONMixin

        mixins.append((DataClassORJSONMixin, "to_jsonb"))
    except Exception:  # noqa
        pass
    try:
        from mashumaro.mixins.msgpack import DataClassMessagePackMixin

        mixins.append((DataClassMessagePackMixin, "to_msgpack"))
    except Exception:  # noqa
        pass
    if not mixins:
        return
    rng = ctx.rng
    for i in range(n):
        mixin, fmeth = mixins[i % len(mixins)]
        uid = f"h18_{ctx.evaluations}_{i}"
        names = []

        def mkc(name, bases, ns):
            c = type(name, bases, ns)
            c.__module__ = __name__
            globals()[name] = c
            names.append(name)
            return dataclasses.dataclass(c)

        try:
            cfg = type("Config", (BaseConfig,), {"code_generation_options": [ADD_DIALECT_SUPPORT]})
            Nested = mkc(f"HN_{uid}", (mixin,), {"__annotations__": {"xs": typing.List[int]}, "Config": cfg})
            Top = mkc(f"HT_{uid}", (mixin,), {"__annotations__": {"tags": typing.List[str], "attrs": typing.Dict[str, int], "inner": Nested}, "Config": cfg})
            dialects = [type(f"HD{k}_{uid}", (Dialect,), {}) for k in range(2)]
            obj = Top(tags=["a"], attrs={"k": 1}, inner=Nested(xs=[1]))
            hist = [(rng.choice([fmeth, "to_dict"]), rng.choice([None, 0, 1])) for _ in range(rng.randint(2, 7))]
            case = {"format_history": {"mixin": mixin.__name__, "calls": hist}}
            ctx.count(case, True, kind="format-history")
            for k, (meth, d) in enumerate(hist):
                kw = {"dialect": dialects[d]} if d is not None else {}
                res = getattr(obj, meth)(**kw)
                if meth == "to_dict":
                    shared = [f for f in ("tags", "attrs") if res[f] is getattr(obj, f)] + (["inner.xs"] if res["inner"]["xs"] is obj.inner.xs else [])
                    if shared:
                        ctx.violation({**case, "call": k}, {"shared": shared}, "to_dict under a dialect without no_copy_collections shares no container with the object, whatever was called before",
                                      "to_dict result shares containers after an earlier format call with the same dialect", lambda f: False)
                        break
        finally:
            for nme in names:
                globals().pop(nme, None)


def gen_cases(ctx, n, depth):
    cases = []
    tries = 0
    while len(cases) < n and tries < n * 20:
        tries += 1
        g = gen.G(ctx.rng, max_depth=depth)
        ty = g.ty()
        if not plain(ty):
            continue
        cases.append((ty, g.val(ty), draw_nocopy(ctx.rng)))
    return cases


def run(ctx):
    ctx.rule = RULE
    ctx.lean_check("Mashu.Props.C18", THEOREMS, extra_targets=["Mashu.Dispatch"])
    n, depth = (5000, 3) if ctx.tier == "quick" else (60000, 4)
    done = 0
    while done < n and ctx.time_left() > 40:
        k = min(500, n - done)
        run_cases(ctx, gen_cases(ctx, k, depth))
        done += k
    for mode in S.WRAP_MODES:
        if mode == "abc":
            continue   # no_copy_collections lists concrete annotation types: Sequence[int] is not `list`
        if ctx.time_left() > 60:
            with ctx.wrapped(mode):
                run_cases(ctx, gen_cases(ctx, 400 if ctx.tier == "quick" else 5000, depth))
    run_families(ctx, 150 if ctx.tier == "quick" else 2500)
    run_format_histories(ctx, 120 if ctx.tier == "quick" else 2000)
    ctx.assumptions += [
        "object identity is CPython's id(); non-mutation is monitored on the implementation only (a pure model cannot mutate)",
        "Any / pass_through positions hand objects on by reference in both directions (excepted by the statement) and are tracked by the model as references",
    ]


def replay(ctx, body):
    ctx.lean_check("Mashu.Props.C18", THEOREMS, extra_targets=["Mashu.Dispatch"])
    c = body["case"]
    if c and "format_history" in c:
        run_format_histories(ctx, 120)
    elif c and "family" in c:
        run_families(ctx, 200)
    elif c:
        run_cases(ctx, [(c["ty"], c["value"], c["no_copy"])])
    return ctx.finish()
