import sys, json, random, time
sys.path.insert(0, '/verif')
from harness import core
core.import_repo()
from harness import schema as S, gen, corelib

seed = int(sys.argv[1]) if len(sys.argv) > 1 else 0
N = int(sys.argv[2]) if len(sys.argv) > 2 else 300
mode = sys.argv[3] if len(sys.argv) > 3 else 'pack'
rng = random.Random(seed)
cases = []
reals = []
regs = []
t0 = time.time()
for i in range(N):
    g = gen.G(rng, max_depth=3)
    ty = g.ty()
    entry = 'codec'
    if isinstance(ty, list) and ty[0] == 'dc' and rng.random() < 0.5:
        entry = 'mixin'
    reg = S.Reg(mixin=(entry == 'mixin') or rng.random() < 0.5)
    val = g.val(ty)
    if mode == 'pack':
        out, r, val = corelib.real_pack(ty, val, reg, entry)
        oracle = S.build_oracle(ty, [val], reg, 'pack')
        case = {"op": "pack", "ty": ty, "value": val, "oracle": oracle, "nailed": entry == "mixin"}
    else:
        out0, r0, val = corelib.real_pack(ty, val, reg, entry)
        if 'ok' not in out0:
            continue
        data = out0['ok']
        if mode == 'unpackc':
            data = S.norm_v(g.corrupt(data, 0.2), reg)
        out, r, mut = corelib.real_unpack(ty, data, reg, entry)
        oracle = S.build_oracle(ty, [data], reg, 'unpack')
        case = {"op": "unpack", "ty": ty, "value": data, "oracle": oracle, "nailed": entry == "mixin"}
    cases.append(case); reals.append(out); regs.append(reg)
t1 = time.time()
drv = core.Driver()
outs = drv.run([json.dumps(c) for c in cases])
t2 = time.time()
if outs is None:
    print(drv.err); sys.exit(1)
bad = 0
kinds = {}
for c, real, o, reg in zip(cases, reals, outs, regs):
    m = json.loads(o)
    if 'build_error' in real:
        kinds['build_error'] = kinds.get('build_error', 0) + 1
        if kinds['build_error'] <= 3: print('BUILD', real, json.dumps(c['ty'])[:300])
        continue
    ok, why = corelib.compare(m, real, reg)
    k = 'ok' if 'ok' in real else 'err:' + real['err']['kind']
    kinds[k] = kinds.get(k, 0) + 1
    if not ok:
        bad += 1
        if bad <= 5:
            print('DISAGREE', why); print(' ty', json.dumps(c['ty'])); print(' val', json.dumps(c['value'])); print(' model', json.dumps(m)[:600]); print(' real ', json.dumps(real)[:600])
print(kinds, 'bad', bad, 'gen+real %.1fs model %.1fs' % (t1 - t0, t2 - t1))
