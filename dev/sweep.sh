#!/bin/bash
# usage: dev/sweep.sh [tier] [seed]   runs all 20 checks on /repo's working tree (4 at a time), prints the summary lines
tier=${1:-quick}; seed=${2:-0}
cd /verif || exit 2
ids=$(python3 -c "import json;print(' '.join(json.loads(l)['id'] for l in open('properties.jsonl')))")
printf '%s\n' $ids | xargs -P 4 -I{} sh -c "VERIF_SEED=$seed python3 run.py {} --tier $tier 2>&1 | grep -E '^\[C[0-9]+\]|VIOLATION' | head -3"
