#!/bin/bash
# Runs every repro script of notes/preexisting/ on the pinned snapshot (a scratch git worktree of /repo at the
# snapshot commit) and on /repo's working tree.  A script that is clean on the snapshot and reports a violation on
# the working tree is a REGRESSION of one of the repairs made here (this is how F56, F59 and F60 were found).
# usage: dev/regression_guard.sh      (creates and removes /tmp/wtbase_guard)
snap=$(git -C /repo log --format=%h --grep='^snapshot' | tail -1)
wt=/tmp/wtbase_guard
git -C /repo worktree remove --force $wt 2>/dev/null
git -C /repo worktree add --detach $wt $snap -q || exit 2
reg=0
for f in /verif/notes/preexisting/*.py; do
  b=$(cd $wt && PYTHONPATH=$wt timeout 60 /venv/bin/python $f 2>&1 | grep -c "VIOLATION\|DEFECT REPRODUCED\|Traceback")
  h=$(cd /repo && timeout 60 /venv/bin/python $f 2>&1 | grep -c "VIOLATION\|DEFECT REPRODUCED\|Traceback")
  if [ "$b" = "0" ] && [ "$h" != "0" ]; then echo "REGRESSION? $(basename $f)"; reg=1; fi
  echo "$(basename $f) snapshot=$b head=$h" >> /tmp/regression_guard.out
done
git -C /repo worktree remove --force $wt
exit $reg
