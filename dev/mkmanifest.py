"""Regenerate MANIFEST.json from the per-property registry below (kept in one place)."""
import json, sys
sys.path.insert(0, '/verif')
PROPS = json.load(open('/verif/dev/manifest_props.json'))
ALL = [json.loads(l)['id'] for l in open('/verif/properties.jsonl')]
checks = []
na = []
for pid in ALL:
    p = PROPS.get(pid)
    if not p or p.get('na'):
        na.append({"property_id": pid, "reason": (p or {}).get('na', 'check not built yet in this round (see DESIGN.md section 12)')})
        continue
    checks.append({
        "property_id": pid,
        "quick_cmd": f"python3 run.py {pid} --tier quick",
        "thorough_cmd": f"python3 run.py {pid} --tier thorough",
        "evidence_file": f"evidence/{pid}.json",
        "replay_cmd_template": f"python3 run.py {pid} --replay {{path}}",
        "engine": "lean-model+correspondence",
        "level_claimed": {"category": "proof", "text": p['text'], "design_ref": p.get('design_ref', 'DESIGN.md section 7')},
        "level_note": p['note'],
        "technique": p['technique'],
    })
m = {
    "version": 1,
    "setup_cmd": "cd /verif && ./setup.sh",
    "hooks": {"guard": "MASHUMARO_VERIF", "enable": "no source hooks: the harness wraps exec/ensure_* from outside at import time", "baseline_off_cmd": "cd /repo && /venv/bin/python -m pytest -ra -q -p no:cacheprovider --timeout=900 --continue-on-collection-errors", "source_commits": [], "add_only": True},
    "engines": [{"name": "lean-model+correspondence", "path": "run.py", "serves_properties": [c['property_id'] for c in checks], "kind_free_text": "Lean 4 theorems about an executable model (lean/Mashu), tables regenerated from /repo's source each run (harness/extract.py), differential correspondence model vs implementation (harness/), failing-input search on the implementation"}],
    "checks": checks,
    "not_applicable": na,
    "notes": "See DESIGN.md. Fix commits in /repo are listed in known_findings.json (status fixed)."
}
json.dump(m, open('/verif/MANIFEST.json', 'w'), indent=1)
print(len(checks), 'checks;', len(na), 'not claimed')
