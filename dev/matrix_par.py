#!/usr/bin/env python3
"""Parallel version of dev/matrix.py: every worker gets its own copy of /verif and its own git worktree
of /repo under a scratch directory (removed at the end), so /repo and /verif/evidence stay untouched.
usage: dev/matrix_par.py [-j N] [Mxx ...]   -> updates seeded/<id>/meta.json ("detected_by"), prints a table"""
import json, os, re, shutil, subprocess, sys, tempfile
from concurrent.futures import ThreadPoolExecutor
from pathlib import Path

V = Path("/verif")
RELATED = {
    "C01": ["C02"], "C02": ["C01"], "C03": ["C05"], "C04": ["C13"], "C05": ["C03", "C12"], "C06": ["C20"], "C07": ["C09"], "C08": [], "C09": [],
    "C10": ["C13"], "C11": ["C03"], "C12": [], "C13": ["C04"], "C14": ["C19"], "C15": ["C17"], "C16": [], "C17": ["C15"], "C18": [], "C19": ["C14"], "C20": ["C06"],
}


def sh(*a, **k):
    return subprocess.run(a, capture_output=True, text=True, **k)


def worker(k, root, dirs):
    w = root / str(k)
    w.mkdir(parents=True)
    sh("rsync", "-a", "--exclude", ".git", str(V) + "/", str(w / "verif") + "/")
    r = sh("git", "-C", "/repo", "worktree", "add", "--detach", str(w / "repo"), "HEAD")
    assert r.returncode == 0, r.stderr
    env = dict(os.environ, MASHU_REPO=str(w / "repo"))
    out = {}
    try:
        for d in dirs:
            meta = json.loads((d / "meta.json").read_text())
            prop = meta["breaks_property"]
            r = sh("git", "-C", str(w / "repo"), "apply", str(d / "patch.diff"))
            if r.returncode != 0:
                out[d.name] = (prop, {"_": "patch does not apply"})
                continue
            det = {}
            try:
                for p in [prop] + RELATED.get(prop, []):
                    try:
                        o = sh("python3", "run.py", p, "--tier", "quick", cwd=str(w / "verif"), env=env, timeout=1500)
                    except subprocess.TimeoutExpired:
                        det[p] = "timeout"
                        continue
                    txt = o.stdout + o.stderr
                    m = re.search(r"VIOLATION property=%s replay=(\S+)( no-failing-input-found)?" % p, txt)
                    if m:
                        det[p] = "violation (no-failing-input-found)" if m.group(2) else "violation with failing input"
                    else:
                        det[p] = "missed" if o.returncode == 0 else f"exit {o.returncode}"
            finally:
                sh("git", "-C", str(w / "repo"), "checkout", "--", ".")
                sh("git", "-C", str(w / "repo"), "clean", "-fdq")
            out[d.name] = (prop, det)
            print(d.name, prop, det, flush=True)
    finally:
        sh("git", "-C", "/repo", "worktree", "remove", "--force", str(w / "repo"))
        shutil.rmtree(w, ignore_errors=True)
    return out


def main():
    args = sys.argv[1:]
    j = 6
    if args[:1] == ["-j"]:
        j = int(args[1])
        args = args[2:]
    dirs = sorted(p for p in (V / "seeded").iterdir() if p.is_dir() and (not args or any(p.name.startswith(i) for i in args)))
    root = Path(tempfile.mkdtemp(prefix="mx_"))
    slices = [dirs[i::j] for i in range(j)]
    res = {}
    with ThreadPoolExecutor(j) as ex:
        for o in ex.map(lambda kv: worker(kv[0], root, kv[1]), [(k, s) for k, s in enumerate(slices) if s]):
            res.update(o)
    shutil.rmtree(root, ignore_errors=True)
    sh("git", "-C", "/repo", "worktree", "prune")
    print("\n| change | written for | outcome of the quick checks |\n|---|---|---|")
    for d in dirs:
        if d.name not in res:
            continue
        prop, det = res[d.name]
        meta = json.loads((d / "meta.json").read_text())
        meta["detected_by"] = det
        (d / "meta.json").write_text(json.dumps(meta, indent=1))
        print(f"| {d.name} | {prop} | " + "; ".join(f"{k}: {v}" for k, v in det.items()) + " |")


main()
