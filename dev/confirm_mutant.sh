#!/bin/bash
# usage: dev/confirm_mutant.sh <id> <worktree> <property> "<needs>"   -> seeded/<id>/
id=$1; wt=$2; prop=$3; needs=$4
cd $wt || exit 2
git diff -- mashumaro > /tmp/confirm_$id.diff
[ -s /tmp/confirm_$id.diff ] || { echo "no diff"; exit 2; }
suite=$(PYTHONPATH=$wt /venv/bin/python -m pytest -q -p no:cacheprovider -n 12 tests 2>&1 | tail -1)
PYTHONPATH=$wt /venv/bin/python demo_mutant.py > /tmp/confirm_$id.mut.out 2>&1; rc_mut=$?
# no `git stash`: refs/stash is shared between the worktrees of concurrently running sub-agents
git apply -R /tmp/confirm_$id.diff
PYTHONPATH=$wt /venv/bin/python demo_mutant.py > /tmp/confirm_$id.orig.out 2>&1; rc_orig=$?
git apply /tmp/confirm_$id.diff
echo "$id suite: $suite | demo mutant rc=$rc_mut original rc=$rc_orig"
mkdir -p /verif/seeded/$id
cp /tmp/confirm_$id.diff /verif/seeded/$id/patch.diff
cp demo_mutant.py /verif/seeded/$id/demo_mutant.py
python3 - "$id" "$prop" "$needs" "$suite" "$rc_mut" "$rc_orig" <<'PY'
import json,sys
id,prop,needs,suite,rm,ro=sys.argv[1:]
json.dump({"id":id,"breaks_property":prop,"needs_to_manifest":needs,
 "confirmed":{"test_suite_with_change":suite,"demo_exit_with_change":int(rm),"demo_exit_original":int(ro),
   "how":"suite and demo run in a scratch git worktree of /repo with PYTHONPATH pointing at it; demo run with the change applied and with it stashed"},
 "detected_by":{}}, open(f"/verif/seeded/{id}/meta.json","w"), indent=1)
PY
rm -f /tmp/confirm_$id.*
