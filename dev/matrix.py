#!/usr/bin/env python3
"""Apply every seeded change to /repo in turn, run the quick checks that should notice it, record
the outcome in seeded/<id>/meta.json ("detected_by") and print a markdown table.
usage: dev/matrix.py [Mxx ...]        (needs a clean /repo; restores it after every change)"""
import json, subprocess, sys, os, re
from pathlib import Path
V = Path('/verif')
RELATED = {  # besides the property a change was written for
    'C01': ['C02'], 'C02': ['C01'], 'C03': ['C05'], 'C04': ['C13'], 'C05': ['C03'], 'C06': ['C20'], 'C07': [], 'C08': [], 'C09': [],
    'C10': ['C13'], 'C11': ['C03'], 'C12': [], 'C13': ['C04'], 'C14': ['C19'], 'C15': ['C17'], 'C16': [], 'C17': ['C15'], 'C18': [], 'C19': ['C14'], 'C20': ['C06'],
}
def sh(*a, **k):
    return subprocess.run(a, capture_output=True, text=True, **k)
def main():
    ids = sys.argv[1:]
    dirs = sorted(p for p in (V/'seeded').iterdir() if p.is_dir() and (not ids or any(p.name.startswith(i) for i in ids)))
    if sh('git', '-C', '/repo', 'status', '--porcelain').stdout.strip():
        print('/repo is dirty'); sys.exit(2)
    rows = []
    for d in dirs:
        meta = json.loads((d/'meta.json').read_text())
        prop = meta['breaks_property']
        r = sh('git', '-C', '/repo', 'apply', str(d/'patch.diff'))
        if r.returncode != 0:
            print(d.name, 'patch does not apply'); continue
        det = {}
        try:
            for p in [prop] + RELATED.get(prop, []):
                out = sh('python3', 'run.py', p, '--tier', 'quick', cwd=str(V), timeout=1500)
                txt = out.stdout + out.stderr
                m = re.search(r'VIOLATION property=%s replay=(\S+)( no-failing-input-found)?' % p, txt)
                if m:
                    det[p] = 'violation (no-failing-input-found)' if m.group(2) else 'violation with failing input'
                else:
                    det[p] = 'missed' if out.returncode == 0 else f'exit {out.returncode}'
        finally:
            sh('git', '-C', '/repo', 'checkout', '--', '.')
        meta['detected_by'] = det
        (d/'meta.json').write_text(json.dumps(meta, indent=1))
        rows.append((d.name, prop, det))
        print(d.name, prop, det, flush=True)
    print('\n| change | written for | outcome of the quick checks |\n|---|---|---|')
    for n, p, det in rows:
        print(f"| {n} | {p} | " + '; '.join(f'{k}: {v}' for k, v in det.items()) + ' |')
main()
