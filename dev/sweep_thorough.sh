#!/bin/bash
# thorough tier of all 20 checks, 5 at a time, each in its own copy of /verif (evidence of /verif stays untouched)
seed=${1:-0}
root=$(mktemp -d /tmp/thor_XXXX)
ids=$(python3 -c "import json;print(' '.join(json.loads(l)['id'] for l in open('/verif/properties.jsonl')))")
run_one() {
  id=$1; root=$2; seed=$3
  mkdir -p $root/$id; rsync -a --exclude .git /verif/ $root/$id/
  (cd $root/$id && VERIF_SEED=$seed timeout 3600 python3 run.py $id --tier thorough 2>&1 | grep -E "^\[C[0-9]+\]|VIOLATION|INFRA|Traceback" | head -5)
  cp $root/$id/evidence/$id.json $root/$id.evidence.json 2>/dev/null
  rm -rf $root/$id
}
export -f run_one
printf '%s\n' $ids | xargs -P 5 -I{} bash -c "run_one {} $root $seed"
echo "evidence copies in $root"
