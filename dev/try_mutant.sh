#!/bin/bash
# usage: dev/try_mutant.sh <name> <patchfile> <prop> [<prop>...]   (applies to /repo, runs quick checks, reverts)
name=$1; patch=$2; shift 2
cd /repo || exit 2
if ! git diff --quiet; then echo "/repo dirty"; exit 2; fi
git apply "$patch" || { echo "patch does not apply"; exit 2; }
cd /verif
for p in "$@"; do
  out=$(timeout 900 python3 run.py $p --tier ${TIER:-quick} 2>&1 | grep -E "VIOLATION|^\[$p\]" | head -3)
  echo "$name :: $out"
done
git -C /repo checkout -- .
