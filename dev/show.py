import json,sys,glob,os
fs=sorted(glob.glob('evidence/replay/%s-*.json'%sys.argv[1]), key=lambda p:-os.path.getmtime(p))[:int(sys.argv[2]) if len(sys.argv)>2 else 1]
W=int(sys.argv[3]) if len(sys.argv)>3 else 900
for f in fs:
    b=json.load(open(f))
    print('==',f,b['kind'],b.get('what'))
    if b['kind']=='failing-input':
        print(' CASE',json.dumps(b['case'])[:W]); print(' OBS',json.dumps(b['observed'])[:W]); print(' REQ', b['required'])
    else:
        for o in b['broken']['obligations'][:3]: print(' OBL',json.dumps(o)[:W])
        for d in b['broken']['correspondence'][:3]:
            print(' CASE',json.dumps(d['case'])[:W]); print(' MODEL',json.dumps(d['model'])[:W]); print(' IMPL',json.dumps(d['impl'])[:W])
