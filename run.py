#!/usr/bin/env python3
"""Entry point of every check:  python3 run.py C01 --tier quick|thorough [--replay file]

exit 0: property held on everything explored (KNOWN-FINDING lines may be printed)
exit 1: a line `VIOLATION property=<id> replay=<path>[ no-failing-input-found]` was printed
exit 2: infrastructure problem / timeout (never a verdict)
"""
import argparse
import importlib
import json
import os
import sys
import time
import traceback
from pathlib import Path

HERE = Path(__file__).resolve().parent
VENV_PY = "/venv/bin/python"

if os.path.realpath(sys.executable) != os.path.realpath(VENV_PY) and os.path.exists(VENV_PY) and not os.environ.get("MASHU_NO_REEXEC"):
    os.environ["MASHU_NO_REEXEC"] = "1"
    os.execv(VENV_PY, [VENV_PY, str(HERE / "run.py"), *sys.argv[1:]])

sys.path.insert(0, str(HERE))
os.chdir(HERE)
sys.setrecursionlimit(3000)

from harness import core  # noqa: E402


def main() -> int:
    ap = argparse.ArgumentParser()
    ap.add_argument("prop")
    ap.add_argument("--tier", default=os.environ.get("VERIF_TIER", "quick"), choices=["quick", "thorough"])
    ap.add_argument("--replay")
    ap.add_argument("--seed", type=int, default=None)
    a = ap.parse_args()
    seed = a.seed if a.seed is not None else int(os.environ.get("VERIF_SEED", "0") or 0)
    prop = a.prop.upper()
    try:
        core.import_repo()
        from harness import extract

        ctx = core.Ctx(prop, a.tier, seed)
        budget = {"quick": 420, "thorough": 3000}[a.tier]
        ctx.deadline = time.time() + budget
        extract.write_generated(ctx)
        mod = importlib.import_module(f"harness.{prop.lower()}")
        if a.replay:
            ctx.is_replay = True
            body = json.loads(Path(a.replay).read_text())
            mode = (body.get("case") or {}).get("annot", False) if isinstance(body.get("case"), dict) else False
            with ctx.wrapped(mode):
                return mod.replay(ctx, body)
        mod.run(ctx)
        return ctx.finish()
    except core.Infra as e:
        print(f"INFRA: {e}", file=sys.stderr)
        return 2
    except Exception:
        traceback.print_exc()
        return 2


if __name__ == "__main__":
    sys.exit(main())
