/-
  Driver — line protocol of the executable model: one JSON case per line on stdin, one JSON
  result per line on stdout.  Run with `lake env lean --run Driver.lean`.
-/
import Mashu.Wire
import Mashu.Dispatch
open Lean Mashu

partial def loop (h : IO.FS.Stream) (out : IO.FS.Stream) : IO Unit := do
  let line ← h.getLine
  if line.isEmpty then return ()
  let res : Json :=
    match Json.parse line with
    | .error e => Json.mkObj [("driver_error", s!"parse: {e}")]
    | .ok j =>
      match Mashu.dispatch j with
      | .ok r => r
      | .error e => Json.mkObj [("driver_error", e)]
  out.putStrLn res.compress
  loop h out

def main : IO Unit := do
  let out ← IO.getStdout
  loop (← IO.getStdin) out
  out.flush
