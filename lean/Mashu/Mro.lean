/-
  Mashu.Mro — which `dataclasses.Field` object the builder consults for a member
  (builder.py `CodeBuilder.dataclass_fields`): the `__dataclass_fields__` of every dataclass
  ancestor are merged walking the MRO from the FARTHEST ancestor to the nearest, then the
  class's own annotations override (a `Field` in the namespace replaces the entry, a plain
  default or no default removes it — the default is then read from the namespace).
  `dataclasses` itself merges the very same way when it later processes the class, so the
  builder's view and the constructor's signature agree exactly when the walk is the same.
-/
namespace Mashu.Mro

/-- an insertion-ordered dict: member name ↦ identity of the Field object -/
abbrev Dict := List (String × Nat)

def get (d : Dict) (k : String) : Option Nat := (d.find? (fun kv => kv.1 == k)).map (·.2)

/-- `d[k] = v` -/
def set (d : Dict) (k : String) (v : Nat) : Dict :=
  if d.any (fun kv => kv.1 == k) then d.map (fun kv => if kv.1 == k then (k, v) else kv) else d ++ [(k, v)]

/-- `for f in src.values(): d[f.name] = f` -/
def update (d : Dict) (src : Dict) : Dict := src.foldl (fun d kv => set d kv.1 kv.2) d

/-- the walk over `cls.__mro__[1:]` (given nearest first; `none` = not a dataclass) in the
    direction the source says -/
def inherited (farthestFirst : Bool) (ancs : List (Option Dict)) : Dict :=
  (if farthestFirst then ancs.reverse else ancs).foldl
    (fun d a => match a with | some f => update d f | none => d) []

/-- what the class's own namespace holds for an own annotation -/
inductive Own where
  | field (id : Nat)      -- a dataclasses.Field object
  | plain                 -- a plain default or nothing
  deriving Repr, DecidableEq

def applyOwn (d : Dict) : List (String × Own) → Dict
  | [] => d
  | (n, .field i) :: r => applyOwn (set d n i) r
  | (n, .plain) :: r => applyOwn (d.filter (fun kv => !(kv.1 == n))) r

/-- `CodeBuilder.dataclass_fields` -/
def collect (farthestFirst : Bool) (ancs : List (Option Dict)) (own : List (String × Own)) : Dict :=
  applyOwn (inherited farthestFirst ancs) own

/-- the specification (what `dataclasses` will bind the constructor parameter to): the class's
    own declaration if there is one, else the entry of the NEAREST dataclass ancestor that has the name -/
def nearest (ancs : List (Option Dict)) (k : String) : Option Nat :=
  ancs.findSome? (fun a => a.bind (fun f => get f.reverse k))

/-- an own declaration decides; without one the inherited entry stands -/
def pick (o : Option (String × Own)) (inh : Option Nat) : Option Nat :=
  match o with
  | some (_, .field i) => some i
  | some (_, .plain) => none
  | none => inh

def spec (ancs : List (Option Dict)) (own : List (String × Own)) (k : String) : Option Nat :=
  pick (own.reverse.find? (fun no => no.1 == k)) (nearest ancs k)

end Mashu.Mro
