/-
  Mashu.Schema — the JSON Schema the library generates for an annotation
  (mashumaro/jsonschema/schema.py: the creator registry, `on_dataclass`, `on_collection`,
  `on_tuple`, `on_named_tuple`, `on_special_typing_primitive`, …) and what it means for a
  basic-form value to be valid against it (Draft 2020-12 semantics of the emitted keywords).
  Property C06 (and the document shape for C20).
-/
import Mashu.Conf
import Mashu.Tz
namespace Mashu.Schema
open Mashu

inductive JT | null | boolean | integer | number | string
  deriving DecidableEq, Repr, Inhabited

/-- the keywords the generator emits, grouped by what they constrain -/
inductive Sch
  | any                                                   -- {}  (also: `format` is an annotation in 2020-12)
  | typ (t : JT) (format : Option String)                 -- {"type": t, "format": …}
  | utc                                                   -- {"type": "string", "pattern": <utcPatternSchema of Generated.lean>}; `UtcOk` below is the whole-minute part of it
  | enum (vals : List V) (constIfSingle : Bool)           -- {"enum": […]}; Literal with one value: {"const": v}
  | anyOf (ss : List Sch)
  | arrOf (items : Sch) (unique : Bool)                   -- {"type": "array", "items": …, "uniqueItems": …}
  | tupleOf (pre : List Sch)                              -- {"type": "array", "prefixItems": […], "minItems": n, "maxItems": n}
  | mapOf (names : Sch) (vals : Sch)                      -- {"type": "object", "propertyNames": …, "additionalProperties": …}
  | record (title : Option String) (props : List (String × Sch)) (req : List String)
                                                          -- {"type": "object", "properties": …, "required": …, "additionalProperties": false}
  deriving Repr, Inhabited

def leafSch : Leaf → Sch
  | .datetime => .typ .string (some "date-time")
  | .date => .typ .string (some "date")
  | .time => .typ .string (some "time")
  | .timedelta => .typ .number (some "time-delta")
  | .timezone => .utc
  | .zoneinfo => .typ .string (some "time-zone")
  | .uuid => .typ .string (some "uuid")
  | .decimal => .typ .string (some "decimal")
  | .fraction => .typ .string (some "fraction")
  | .ipv4addr => .typ .string (some "ipv4")
  | .ipv6addr => .typ .string (some "ipv6")
  | .ipv4net => .typ .string (some "ipv4network")
  | .ipv6net => .typ .string (some "ipv6network")
  | .ipv4if => .typ .string (some "ipv4interface")
  | .ipv6if => .typ .string (some "ipv6interface")
  | .path => .typ .string (some "path")
  | .pattern => .typ .string (some "regex")              -- since fix F27 (was finding K18: no schema creator)
  | .bytes | .bytearray => .typ .string (some "base64")

/-- the key under which a dataclass field appears in the schema: its alias if it has one -/
def fieldKey (f : FieldDef) : String := f.alias.getD f.name

mutual
/-- `build_json_schema(T)` with definitions inlined; `ntd` = namedtuple_as_dict in force here -/
def schemaOf (ntd : Bool) : Ty → Sch
  | .any => .any
  | .none => .typ .null none
  | .bool => .typ .boolean none
  | .int => .typ .integer none
  | .float => .typ .number none
  | .str => .typ .string none
  | .leaf k => leafSch k
  | .enum _ ms => .enum (ms.map (·.2)) false
  | .lit vals => .enum (vals.map (·.2)) true
  | .opt t => .anyOf [schemaOf ntd t, .typ .null none]
  | .union ts => .anyOf (schemaOfL ntd ts)
  | .coll o t => .arrOf (schemaOf ntd t) (o == .set || o == .frozenset)
  | .map o k t => .mapOf (schemaOf ntd k) (if o == .counter then .typ .integer none else schemaOf ntd t)
  | .chain k t => .arrOf (.mapOf (schemaOf ntd k) (schemaOf ntd t)) false
  | .tvar t => .arrOf (schemaOf ntd t) false
  | .tfix ts => .tupleOf (schemaOfL ntd ts)
  | .tunp _ _ _ => .any                                   -- outside the modelled fragment (arithmetic: see C06 tie)
  | .nt _ fs _ asD =>
      if asD.getD ntd then .record none (schemaOfN ntd fs) (fs.map (·.1))
      else .tupleOf (schemaOfN ntd fs |>.map (·.2))
  | .td _ req opt => .record none (schemaOfN ntd req ++ schemaOfN ntd opt) (req.map (·.1))
  | .dc cls cfg fs => .record (some cls) (schemaOfF cfg.ntAsDict fs) (requiredOf fs)
def schemaOfL (ntd : Bool) : List Ty → List Sch
  | [] => []
  | t :: ts => schemaOf ntd t :: schemaOfL ntd ts
def schemaOfN (ntd : Bool) : List (String × Ty) → List (String × Sch)
  | [] => []
  | (n, t) :: fs => (n, schemaOf ntd t) :: schemaOfN ntd fs
def schemaOfF (ntd : Bool) : List (FieldDef × Ty) → List (String × Sch)
  | [] => []
  | (f, t) :: fs => if f.init then (fieldKey f, schemaOf ntd t) :: schemaOfF ntd fs else schemaOfF ntd fs
def requiredOf : List (FieldDef × Ty) → List String
  | [] => []
  | (f, _) :: fs => if f.init && f.default.isNone then fieldKey f :: requiredOf fs else requiredOf fs
end

/-! ### validity -/

def HasJT : JT → V → Prop
  | .null, v => v = .none
  | .boolean, v => ∃ b, v = .bool b
  | .integer, v => ∃ i, v = .int i
  | .number, v => (∃ i, v = .int i) ∨ (∃ t, v = .float t)     -- a JSON number; bool is not a number
  | .string, v => ∃ s, v = .str s

/-- the string is 'UTC' or 'UTC±hh:mm' with h in 00..29, m in 00..59 (the emitted pattern) -/
def UtcOk (s : List Char) : Prop :=
  s = ['U', 'T', 'C'] ∨ ∃ sg h1 h0 m1 m0, s = ['U', 'T', 'C', sg, h1, h0, ':', m1, m0]
    ∧ (sg = '+' ∨ sg = '-') ∧ Tz.isDigitIn h1 0 2 = true ∧ Tz.isDigitIn h0 0 9 = true ∧ Tz.isDigitIn m1 0 5 = true ∧ Tz.isDigitIn m0 0 9 = true

mutual
def Valid : Sch → V → Prop
  | .any, _ => True
  | .typ t _, v => HasJT t v
  | .utc, v => ∃ s, v = .str s ∧ UtcOk s.toList
  | .enum vals _, v => v ∈ vals
  | .anyOf ss, v => ValidAny ss v
  | .arrOf items _, v => ∃ bs, v = .coll .list bs ∧ ∀ b ∈ bs, Valid items b
  | .tupleOf pre, v => ∃ bs, v = .coll .list bs ∧ ValidL pre bs
  | .mapOf names vals, v => ∃ kvs, v = .map .dict kvs ∧ ∀ kv ∈ kvs, (∃ s, kv.1 = .str s) ∧ Valid names kv.1 ∧ Valid vals kv.2
  | .record _ props req, v => ∃ kvs, v = .map .dict kvs
      ∧ (∀ r ∈ req, ∃ x, (V.str r, x) ∈ kvs)
      ∧ ∀ kv ∈ kvs, ∃ k, kv.1 = .str k ∧ ValidProp props k kv.2
def ValidAny : List Sch → V → Prop
  | [], _ => False
  | s :: ss, v => Valid s v ∨ ValidAny ss v
/-- prefixItems with minItems = maxItems = their number -/
def ValidL : List Sch → List V → Prop
  | [], [] => True
  | s :: ss, b :: bs => Valid s b ∧ ValidL ss bs
  | _, _ => False
/-- the property named `k` exists (additionalProperties is false) and the value is valid for it -/
def ValidProp : List (String × Sch) → String → V → Prop
  | [], _, _ => False
  | (n, s) :: ps, k, x => (n = k ∧ Valid s x) ∨ ValidProp ps k x
end

end Mashu.Schema
