/-
  Mashu.Pack — the serializer: an interpreter of what the generated `to_dict` /
  `encode` code does, by structural recursion over the annotation.

  Source of truth: mashumaro/core/meta/types/pack.py (registry order) and the field loop of
  builder.py (`_add_pack_method_lines`).  The option branching of the field loop is modelled
  separately (Mashu.ToDict, property C08); here the dataclass case is the resulting
  behaviour.
-/
import Mashu.ConfB
namespace Mashu

/-- Field context carried for error reporting. -/
structure Fx where
  field : String := ""
  holder : String := ""
  deriving Repr, Inhabited

def firstOk {α β} (f : α → R β) : List α → Option β
  | [] => none
  | a :: as => match f a with
    | .ok b => some b
    | .error _ => firstOk f as

/-- `value.__class__` for the basic scalars. -/
inductive PyCls | none | bool | int | float | str | leaf (k : Leaf) | list | dict | other
  deriving DecidableEq, Repr

def classOf : V → PyCls
  | .none => .none | .bool _ => .bool | .int _ => .int | .float _ => .float | .str _ => .str
  | .leaf k _ => .leaf k
  | .coll .list _ => .list
  | .map .dict _ => .dict
  | _ => .other

/-- the class a scalar annotation stands for (for the `value.__class__ in (...)` test) -/
def Ty.scalarCls : Ty → PyCls
  | .none => .none | .bool => .bool | .int => .int | .float => .float | .str => .str
  | .leaf k => .leaf k
  | .coll .list _ => .list
  | .map .dict _ _ => .dict
  | _ => .other

/-- Is the packer expression the bare value (`"value"`)? -/
def Ty.packIdent (cx : Cx) : Ty → Bool
  | .any | .none | .bool | .int | .float | .str => true
  | .leaf k => cx.passLeaves.contains k
  | .union ts => identAll ts
  | .opt t => t.packIdent cx
  | .coll .list t => cx.noCopyList && t.packIdent cx
  | .map .dict k t => cx.noCopyDict && k.packIdent cx && t.packIdent cx
  | _ => false
where identAll : List Ty → Bool
  | [] => true
  | t :: ts => t.packIdent cx && identAll ts

/-- the packer expression is the constant `[]`: the element expression is never evaluated -/
def Ty.constPack : Ty → Bool
  | .tfix [] => true
  | _ => false

/-- the unpacker expression is a constant (`()` / `None`) -/
def Ty.constUnpack : Ty → Bool
  | .tfix [] => true
  | .none => true
  | _ => false

/-- `value.copy()` -/
def pyCopy : V → R V
  | .coll .list vs => .ok (.coll .list vs)
  | .coll .set vs => .ok (.coll .set vs)
  | .coll .frozenset vs => .ok (.coll .frozenset vs)
  | .coll .deque vs => .ok (.coll .deque vs)
  | .coll .chainmap ms => .ok (.coll .chainmap ms)
  | .map .mproxy kvs => .ok (.map .dict kvs)
  | .map o kvs => .ok (.map o kvs)
  | .leaf .bytearray c => .ok (.leaf .bytearray c)      -- bytearray has a copy method of its own
  | _ => raisePy .attributeError

def attr (fs : List (String × V)) (n : String) : R V :=
  match fs.lookup n with
  | some v => .ok v
  | none => raisePy .attributeError

/-- one serialized dataclass entry: field name (for sorting), output key, value -/
structure Entry where
  name : String
  key : String
  val : V

def insertEntry (e : Entry) : List Entry → List Entry
  | [] => [e]
  | x :: xs => if e.name < x.name then e :: x :: xs else x :: insertEntry e xs

def sortEntries : List Entry → List Entry
  | [] => []
  | e :: es => insertEntry e (sortEntries es)

/-- convert one mapping entry: key converter, value converter -/
def kvM (fk fv : V → R V) (kv : V × V) : R (V × V) := do
  let a ← fk kv.1
  let b ← fv kv.2
  pure (a, b)

/-- like `kvM`, but the converted key must be hashable (it becomes a dict key) -/
def kvMH (fk fv : V → R V) (kv : V × V) : R (V × V) := do
  let a ← fk kv.1
  let b ← fv kv.2
  if pyHashable a then pure (a, b) else raisePy .typeError

/-- one map of a ChainMap: `{k: v for key, value in m.items()}` -/
def itemsM (f : V × V → R (V × V)) (m : V) : R V := do
  let kvs ← pyItems m
  let r ← kvs.mapM f
  pure (V.map .dict r)

mutual
def pack (O : Oracle) (cx : Cx) (fx : Fx) : Ty → V → R V
  | .any, v => .ok v
  | .none, v => .ok v
  | .bool, v => .ok v
  | .int, v => .ok v
  | .float, v => .ok v
  | .str, v => .ok v
  | .leaf k, v => if cx.passLeaves.contains k then .ok v else O.run (.print k) v
  | .enum cls ms, v =>
      match v with
      | .enum c m =>
          if c == cls then
            match ms.lookup m with
            | some x => .ok x
            | none => raisePy .other
          else match O.enumValue c m with   -- `value.value` works on a member of any enum
            | some x => .ok x
            | none => raisePy .other
      | _ => raisePy .attributeError
  | .lit vals, v =>
      match vals.find? (fun cw => O.eq v cw.1) with
      | some cw =>
          -- the packer of `type(literal)` is applied to the runtime value
          match cw.1 with
          | .none | .bool _ | .int _ | .str _ => .ok v
          | .leaf .bytes _ => if cx.passLeaves.contains .bytes then .ok v else O.run (.print .bytes) v
          | .enum _ _ => .ok cw.2
          | _ => raisePy .other
      | none => if cx.nailed then .error (.invalidFieldValue fx.field v fx.holder) else .error (.unionNoMatch v)
  | .opt t, v =>
      match v with
      | .none => .ok .none
      | _ => pack O cx fx t v
  | .union ts, v =>
      if cx.fixK10 then packSpecU O cx fx ts v
      else if Ty.packIdent.identAll cx ts then .ok v
      else if (ts.any (fun t => t.packIdent cx && t.scalarCls != .other && t.scalarCls == classOf v)) then .ok v
      else match packFirst O cx fx ts v with
        | some r => .ok r
        | none => if cx.nailed then .error (.invalidFieldValue fx.field v fx.holder) else .error (.unionNoMatch v)
  | .coll o t, v =>
      if o == .list && t.packIdent cx then (if cx.noCopyList then .ok v else pyCopy v)
      else do
        let xs ← pyIterO O v
        let r ← xs.mapM (pack O cx fx t)
        pure (.coll .list r)
  | .map o k t, v =>
      if o == .dict && k.packIdent cx && t.packIdent cx then (if cx.noCopyDict then .ok v else pyCopy v)
      else do
        let kvs ← pyItems v
        let r ← kvs.mapM (kvM (pack O cx fx k) (if o == .counter then pure else pack O cx fx t))
        pure (.map .dict r)
  | .chain k t, v =>
      match v with
      | .coll .chainmap ms => do
          let r ← ms.mapM (itemsM (kvM (pack O cx fx k) (pack O cx fx t)))
          pure (.coll .list r)
      | _ => raisePy .attributeError
  | .tvar t, v => do
      let xs ← pyIterO O v
      let r ← xs.mapM (pack O cx fx t)
      pure (.coll .list r)
  | .tfix ts, v => do
      let r ← packIdx O cx fx ts v 0
      pure (.coll .list r)
  | .tunp pre mid post, v => do
      let a ← packIdx O cx fx pre v 0
      let sl ← pySliceO O v pre.length (if post.isEmpty then none else some (-(post.length : Int)))
      let b ← sl.mapM (pack O cx fx mid)
      let c ← packIdx O cx fx post v (-(post.length : Int))
      pure (.coll .list (a ++ b ++ c))
  | .nt _ fs _ asDict, v => do
      let r ← packNT O cx fx fs v 0
      if asDict.getD cx.ntAsDict then pure (.map .dict (r.map (fun nv => (V.str nv.1, nv.2))))
      else pure (.coll .list (r.map (·.2)))
  | .td _ req opt, v => do
      let a ← packReq O cx fx req v
      let b ← packOpt O cx fx opt v
      pure (.map .dict (a ++ b))
  | .dc cls cfg fs, v =>
      match v with
      | .inst c ivs =>
          if cx.nailed && c != cls then raisePy .other   -- dispatch on the runtime class: outside the model
          else do
            let es ← packFields O { cx with ntAsDict := cfg.ntAsDict } cls cfg fs ivs
            let es := if cfg.sortKeys then sortEntries es else es
            pure (.map .dict (es.map (fun e => (V.str e.key, e.val))))
      | _ => raisePy .attributeError

/-- reference behaviour: the packer of the first member the value conforms to -/
def packSpecU (O : Oracle) (cx : Cx) (fx : Fx) : List Ty → V → R V
  | [], v => if cx.nailed then .error (.invalidFieldValue fx.field v fx.holder) else .error (.unionNoMatch v)
  | t :: ts, v => if conf t v then pack O cx fx t v else packSpecU O cx fx ts v

/-- first member (in order) whose non-identity packer succeeds -/
def packFirst (O : Oracle) (cx : Cx) (fx : Fx) : List Ty → V → Option V
  | [], _ => none
  | t :: ts, v =>
      if t.packIdent cx then packFirst O cx fx ts v
      else match pack O cx fx t v with
        | .ok r => some r
        | .error _ => packFirst O cx fx ts v

/-- `[p_0(value[i0]), p_1(value[i0+1]), …]` -/
def packIdx (O : Oracle) (cx : Cx) (fx : Fx) : List Ty → V → Int → R (List V)
  | [], _, _ => .ok []
  | t :: ts, v, i => do
      let x ← (if t.constPack then pure V.none else pyIndexO O v i)
      let a ← pack O cx fx t x
      let r ← packIdx O cx fx ts v (i + 1)
      pure (a :: r)

def packNT (O : Oracle) (cx : Cx) (fx : Fx) : List (String × Ty) → V → Int → R (List (String × V))
  | [], _, _ => .ok []
  | (n, t) :: fs, v, i => do
      let x ← (if t.constPack then pure V.none else pyIndexO O v i)
      let a ← pack O cx fx t x
      let r ← packNT O cx fx fs v (i + 1)
      pure ((n, a) :: r)

def packReq (O : Oracle) (cx : Cx) (fx : Fx) : List (String × Ty) → V → R (List (V × V))
  | [], _ => .ok []
  | (n, t) :: fs, v => do
      let x ← (if t.constPack then pure V.none else pyGetItemStr v n)
      let a ← pack O cx fx t x
      let r ← packReq O cx fx fs v
      pure ((V.str n, a) :: r)

def packOpt (O : Oracle) (cx : Cx) (fx : Fx) : List (String × Ty) → V → R (List (V × V))
  | [], _ => .ok []
  | (n, t) :: fs, v => do
      let x ← pyGetStr v n
      match x with
      | none => packOpt O cx fx fs v
      | some x => do
          let a ← pack O cx fx t x
          let r ← packOpt O cx fx fs v
          pure ((V.str n, a) :: r)

/-- the field loop of `to_dict` (declaration order; sorting is applied by the caller) -/
def packFields (O : Oracle) (cx : Cx) (cls : String) (cfg : Cfg) :
    List (FieldDef × Ty) → List (String × V) → R (List Entry)
  | [], _ => .ok []
  | (f, t) :: fs, ivs =>
      if f.serOmit then packFields O cx cls cfg fs ivs
      else do
        let x ← attr ivs f.name
        let key := if cfg.serializeByAlias then f.alias.getD f.name else f.name
        if fieldCouldBeNone f t && isNone x then
          let drop := cfg.omitNone || (cfg.omitDefault && f.defaultIsNone)
          let r ← packFields O cx cls cfg fs ivs
          pure (if drop then r else { name := f.name, key := key, val := .none } :: r)
        else do
          let a ← pack O cx { field := f.name, holder := cls } t x
          let drop := cfg.omitDefault && f.eqDefault O x
          let r ← packFields O cx cls cfg fs ivs
          pure (if drop then r else { name := f.name, key := key, val := a } :: r)
end

end Mashu
