/-
  Mashu.Args — how the generated `from_dict` hands the converted values to the dataclass
  constructor (builder.py:429-533): positional arguments, keyword arguments, `**kwargs`
  for defaulted fields, and Python's binding of such a call to the `__init__` signature
  that `dataclasses` generates.
-/
namespace Mashu.Args

/-- what matters about a field for argument passing -/
structure FieldL where
  name : String
  hasDefault : Bool := false
  kwOnly : Bool := false
  init : Bool := true
  /-- what the builder sees in `field.kw_only` when it generates the method: `none` when the
      attribute is still MISSING (the class has not been processed by @dataclass yet, which is
      the normal case for a mixin compiled in `__init_subclass__`) or there is no Field object -/
  kwSeen : Option Bool := none
  deriving Repr, Inhabited, DecidableEq

/-- membership in `kw_only_fields` -/
def isKwOf (missing : Bool) (f : FieldL) : Bool :=
  missing || (match f.kwSeen with | some b => b | none => true)

/-- The static assembly (done once, when the method is generated).  `seen` = "a defaulted
    field has been met" (`in_kwargs`), `missing` = "a field with unknown kw_only has been met"
    (`missing_kw_only`).  Result: names passed positionally, names passed as
    `name=__name`.  Defaulted fields travel in `**kwargs`, and only when present. -/
def assemble : List FieldL → Bool → Bool → List String × List String
  | [], _, _ => ([], [])
  | f :: fs, seen, missing =>
      if !f.init then assemble fs seen missing
      else
        -- `kw_only_fields`: once a field's kw_only is unknown, it and every later field is keyword
        let isKw := isKwOf missing f
        let missing' := missing || f.kwSeen.isNone
        if f.hasDefault then assemble fs true missing'
        else
          let r := assemble fs seen missing'
          if isKw || seen then (r.1, f.name :: r.2) else (f.name :: r.1, r.2)

/-- constructor parameters: the init fields; positional ones are those not keyword-only -/
def params (fs : List FieldL) : List FieldL := fs.filter (·.init)
def posParams (fs : List FieldL) : List FieldL := (params fs).filter (fun f => !f.kwOnly)

/-- Python's binding of `cls(*pos, **kws)`: the i-th positional value goes to the i-th
    positional parameter; a keyword must name a parameter that is not bound yet.  Returns the
    assignment parameter ↦ value, or `none` for a TypeError. -/
def bind {α} (fs : List FieldL) (pos : List α) (kws : List (String × α)) : Option (List (String × α)) :=
  let pp := posParams fs
  if pp.length < pos.length then none
  else
    let bound := ((pp.take pos.length).map (·.name)).zip pos
    if kws.all (fun kv => (params fs).any (fun f => f.name == kv.1) && !(bound.any (fun b => b.1 == kv.1)))
        && (kws.map (·.1)).Nodup
    then some (bound ++ kws) else none

/-- the dataclass rule: among the positional parameters no required one follows a defaulted one -/
def WFLayout (fs : List FieldL) : Prop :=
  ∀ pre f post, posParams fs = pre ++ f :: post → f.hasDefault = false → ∀ g ∈ pre, g.hasDefault = false

/-- the builder never sees a wrong kw_only, only possibly none -/
def SeenOK (fs : List FieldL) : Prop := ∀ f ∈ fs, ∀ b, f.kwSeen = some b → b = f.kwOnly

end Mashu.Args
