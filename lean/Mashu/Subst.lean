/-
  Mashu.Subst — binding the type parameters of a generic dataclass in a field type.
  Source: helpers.py `substitute_type_params`, `collect_type_params`; builder.py `get_real_type`;
  types/common.py `Registry.get` (the Annotated alias key of a field is
  `get_real_type(field, Annotated[...])`).

  A field of a generic dataclass is declared with type variables (`Annotated[List[T], "k"]`); once
  the class is specialised (`class C(G[int])`, `G[int]` nested, a codec for `G[int]`) every
  customization key of that field — Annotated alias, exact type, origin — is computed from the
  SUBSTITUTED type.  The statement of C10 compares those keys with what the user registered
  (`Annotated[List[int], "k"]`), so the substitution has to reach every occurrence of a variable.
-/
namespace Mashu.Subst

/-- type expressions: a type variable, a (possibly parameterless) constructor applied to arguments,
    `Annotated[inner, tag]` -/
inductive GTy
  | var (n : Nat)
  | app (con : String) (args : List GTy)
  | ann (inner : GTy) (tag : String)
  deriving Repr, Inhabited

mutual
  def GTy.beq : GTy → GTy → Bool
    | .var a, .var b => a == b
    | .app c as, .app d bs => c == d && GTy.beqL as bs
    | .ann i s, .ann j t => GTy.beq i j && s == t
    | _, _ => false
  def GTy.beqL : List GTy → List GTy → Bool
    | [], [] => true
    | a :: as, b :: bs => GTy.beq a b && GTy.beqL as bs
    | _, _ => false
end
instance : BEq GTy := ⟨GTy.beq⟩

abbrev Sub := List (Nat × GTy)

def look (σ : Sub) (n : Nat) : Option GTy := (σ.find? (fun e => e.1 == n)).map (·.2)

mutual
  /-- the statement: every occurrence of a bound variable is replaced -/
  def subst (σ : Sub) : GTy → GTy
    | .var n => (look σ n).getD (.var n)
    | .app c as => .app c (substL σ as)
    | .ann i t => .ann (subst σ i) t
  def substL (σ : Sub) : List GTy → List GTy
    | [] => []
    | a :: as => subst σ a :: substL σ as
end

mutual
  /-- `collect_type_params`: the variables below the top constructor, first occurrence first.
      (`get_args(Annotated[X, tag])` is `(X, tag)`: the walk goes through Annotated.) -/
  def collectArgs : List GTy → List Nat → List Nat
    | [], acc => acc
    | a :: as, acc => collectArgs as (collectArg a acc)
  def collectArg : GTy → List Nat → List Nat
    | .var n, acc => if acc.contains n then acc else acc ++ [n]
    | .app _ as, acc => collectArgs as acc
    | .ann i _, acc => collectArg i acc
end

def collect : GTy → List Nat
  | .var _ => []                        -- a bare variable has no arguments
  | .app _ as => collectArgs as []
  | .ann i _ => collectArg i []

/-- `typ[tuple(new_type_args)]`: Python's own subscription of a generic alias substitutes its
    parameters positionally, at any depth (also inside Annotated).  `ps` are the parameters in
    `collect` order, `vals` the new arguments. -/
def pySubscript (ps : List Nat) (vals : List GTy) (t : GTy) : GTy := subst (ps.zip vals) t

/-- `substitute_type_params(typ, substitutions)`.  `deepAnn = true` is the code after fix F50
    (the Annotated branch substitutes in the wrapped type recursively); `false` the pinned code
    (only a bare variable under Annotated was replaced). -/
def substImpl (deepAnn : Bool) (σ : Sub) : GTy → GTy
  | .ann i t =>
      if deepAnn then .ann (substImpl deepAnn σ i) t
      else .ann ((match i with | .var n => (look σ n).getD i | _ => i)) t
  | .var n => (look σ n).getD (.var n)             -- no type arguments: `substitutions.get(typ, typ)`
  | .app c as =>
      let ps := collectArgs as []
      if ps.isEmpty then .app c as                   -- nothing to substitute (the type is not a key of σ)
      else pySubscript ps (ps.map (fun p => (look σ p).getD (.var p))) (.app c as)

-- no type variable left
mutual
  def closed : GTy → Bool
    | .var _ => false
    | .app _ as => closedL as
    | .ann i _ => closed i
  def closedL : List GTy → Bool
    | [] => true
    | a :: as => closed a && closedL as
end

mutual
  def vars : GTy → List Nat
    | .var n => [n]
    | .app _ as => varsL as
    | .ann i _ => vars i
  def varsL : List GTy → List Nat
    | [] => []
    | a :: as => vars a ++ varsL as
end

/-! ### which argument binds which parameter (`resolve_type_params`) -/

/-- the parameters in the order the arguments of `C[a0, a1, …]` are matched with them.  `collected`:
    the variables in the order of their first appearance in the bases (what `collect_type_params`
    yields over `__orig_bases__`); `own`: the class's own parameter list (`C.__parameters__`, i.e.
    `Generic[…]` order).  `ownFirst = true` is the code since fix F70. -/
def paramOrder (ownFirst : Bool) (own collected : List Nat) : List Nat :=
  if ownFirst && own.length == collected.length && own.all collected.contains && collected.all own.contains
  then own else collected

def bindArgs (ps : List Nat) (args : List GTy) : Sub := ps.zip args

end Mashu.Subst
