/-
  Mashu.Ty — the type grammar (what an annotation can be), dataclass field/config
  descriptions, and the oracle for Python builtins / stdlib leaf functions.
-/
import Mashu.Val
namespace Mashu

/-- Per-class configuration options that the core (de)serializers look at. -/
structure Cfg where
  serializeByAlias : Bool := false
  omitNone : Bool := false
  omitDefault : Bool := false
  sortKeys : Bool := false
  allowNotByAlias : Bool := false
  forbidExtraKeys : Bool := false
  ntAsDict : Bool := false
  deriving Repr, Inhabited, DecidableEq

/-- A dataclass field.  `default = none` is dataclasses.MISSING. A factory default is
    represented by the value it produces. -/
structure FieldDef where
  name : String
  alias : Option String := none
  default : Option V := none
  init : Bool := true
  serOmit : Bool := false         -- metadata serialize="omit"
  deriving Repr, Inhabited

inductive Ty
  | any | none | bool | int | float | str
  | leaf (k : Leaf)
  | enum (cls : String) (members : List (String × V))
  | lit (vals : List (V × V))               -- Literal[...]: (listed constant, its wire form)
  | opt (t : Ty)
  | union (ts : List Ty)
  | coll (o : CollO) (t : Ty)               -- List/Set/FrozenSet/Deque/Sequence[t]
  | map (o : MapO) (k v : Ty)               -- Dict/OrderedDict/Counter/MappingProxyType[k, v]
  | chain (k v : Ty)                        -- ChainMap[k, v]
  | tvar (t : Ty)                           -- Tuple[t, ...]
  | tfix (ts : List Ty)                     -- Tuple[t1, …, tn]
  | tunp (pre : List Ty) (mid : Ty) (post : List Ty)   -- Tuple[*pre, *Tuple[mid, ...], *post]
  | nt (cls : String) (fs : List (String × Ty)) (defs : List V) (asDict : Option Bool)
                                            -- NamedTuple; `defs` are the defaults of the last fields
  | td (cls : String) (req : List (String × Ty)) (opt : List (String × Ty))
  | dc (cls : String) (cfg : Cfg) (fs : List (FieldDef × Ty))
  deriving Repr, Inhabited

/-- Operations of Python / the standard library that the model does not interpret. -/
inductive Op
  | int | float | str | bool          -- the builtin constructors
  | print (k : Leaf)                  -- isoformat / str / total_seconds / tzname / encodebytes().decode() / …
  | iter                              -- list(x) for an opaque leaf object (bytes → ints, ip network → hosts)
  | parse (k : Leaf)                  -- fromisoformat / UUID / Decimal / parse_timezone / decodebytes(x.encode()) / …
  deriving DecidableEq, Repr, Inhabited

structure Oracle where
  call : Op → V → Except EK V
  /-- Python `==` between an input scalar and a schema constant. -/
  eq : V → V → Bool
  /-- `.value` of an enum member of some other class than the annotated one -/
  enumValue : String → String → Option V := fun _ _ => none

def Oracle.run (O : Oracle) (op : Op) (v : V) : R V :=
  match O.call op v with
  | .ok r => .ok r
  | .error k => .error (.py k)

/-- `for x in v` where opaque leaf objects are iterated by the oracle -/
def pyIterO (O : Oracle) (v : V) : R (List V) :=
  match v with
  | .leaf _ _ => do
      let r ← O.run .iter v
      match r with
      | .coll _ xs => pure xs
      | _ => raisePy .typeError
  | _ => pyIter v

/-- `v[a:b]` then iteration: a bytes / bytearray object is sliced like a sequence of its items -/
def pySliceO (O : Oracle) (v : V) (a : Int) (b : Option Int) : R (List V) :=
  match v with
  | .leaf .bytes _ | .leaf .bytearray _ => do
      let xs ← pyIterO O v
      pySlice (.coll .list xs) a b
  | _ => pySlice v a b

/-- `v[i]` where a mapping is searched with Python `==` (so `Decimal('0')`, `0.0` or `False`
    keys answer to the literal index 0) -/
def pyIndexO (O : Oracle) (v : V) (i : Int) : R V :=
  match v with
  | .map o kvs =>
      match kvs.find? (fun kv => O.eq kv.1 (V.int i)) with
      | some kv => .ok kv.2
      | none => if o == .counter then .ok (.int 0) else raisePy .keyError
  | .leaf _ _ => do
      -- an opaque sequence-like leaf (bytes, bytearray, ip network): index into its elements
      let xs ← pyIterO O v
      pyIndex (.coll .list xs) i
  | _ => pyIndex v i

/-- Entry point / context: nailed = methods compiled on the class (mixin path), otherwise
    the codec path.  `ntAsDict` is the option in force for named tuples at this point. -/
structure Cx where
  nailed : Bool := true
  ntAsDict : Bool := false
  /-- reference ("spec") switches: each one replaces a behaviour of the implementation that
      departs from the property statement by the behaviour the statement prescribes -/
  fixK1 : Bool := false     -- a null union member matches only null
  fixK2 : Bool := false     -- exact scalar type wins before any structured member is tried
  fixK10 : Bool := false    -- serializing a union picks the member the value conforms to
  fixK3 : Bool := true      -- named tuple with defaults: only a short input selects defaults (a nested IndexError propagates); /repo since fix F17, `false` = the behaviour before it
  /-- leaf kinds a format dialect leaves unconverted when serializing (pass_through) -/
  passLeaves : List Leaf := []
  /-- no_copy_collections contains list / dict -/
  noCopyList : Bool := false
  noCopyDict : Bool := false
  deriving Repr, Inhabited

mutual
/-- `could_be_none` of a dataclass field (builder.py, helpers.is_nullable): Any, NoneType,
    Optional[...], a union with a nullable member, a Literal listing None — or a default that is None. -/
def Ty.nullableAnn : Ty → Bool
  | .any | .none | .opt _ => true
  | .union ts => Ty.nullableAnnL ts            -- since fix F41: a union of any length with a None member,
  | .lit vals => vals.any (fun cw => isNone cw.1)   -- and a Literal listing None
  | _ => false
def Ty.nullableAnnL : List Ty → Bool
  | [] => false
  | t :: ts => t.nullableAnn || Ty.nullableAnnL ts
end

def FieldDef.defaultIsNone (f : FieldDef) : Bool :=
  match f.default with
  | some .none => true
  | _ => false

def fieldCouldBeNone (f : FieldDef) (t : Ty) : Bool :=
  t.nullableAnn || f.defaultIsNone

/-- `value == default` of the omit_default comparison (a None default is handled apart) -/
def FieldDef.eqDefault (f : FieldDef) (O : Oracle) (x : V) : Bool :=
  match f.default with
  | some .none => false
  | some dv => O.eq x dv
  | none => false

end Mashu
