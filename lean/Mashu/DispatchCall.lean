/-
  Mashu.DispatchCall — one dispatch of a discriminated union (field mode): how often the selected
  variant's unpacker is invoked, and what the caller sees, when the unpacker itself raises.
  Source: unpack.py `DiscriminatedUnionUnpackerBuilder._add_body` (the `try … except (KeyError,
  AttributeError)` around the registry lookup, the rescan, the second `try … except KeyError`).

  The generated dispatcher looks the tag up in the variants registry and calls the variant's
  unpacker; a KeyError (tag not registered yet) or AttributeError (class registered, unpacker not
  built yet) of the LOOKUP triggers a rescan of the subclasses and a second lookup.  The pinned code
  guarded lookup and call together, so the same exceptions raised INSIDE the unpacker (by a hook,
  `__post_init__`, a strategy) were taken for a miss: rescan, second call, and a KeyError of the
  second call reported as SuitableVariantNotFoundError (fix F61).
-/
namespace Mashu.DispatchCall

inductive Exc
  | key | attr | other
  deriving Repr, DecidableEq

/-- what one invocation of the variant's unpacker does -/
inductive Beh
  | returns
  | raises (e : Exc)
  deriving Repr, DecidableEq

inductive Result
  | value                         -- the variant's result
  | raised (e : Exc)              -- the variant's own exception reaches the caller
  | notFound                      -- SuitableVariantNotFoundError
  deriving Repr, DecidableEq

structure Out where
  invocations : Nat
  result : Result
  deriving Repr, DecidableEq

def ofBeh : Beh → Result
  | .returns => .value
  | .raises e => .raised e

/-- `registered`: the tag is in the registry with an unpacker of its own BEFORE the call;
    `exists_`: some defined class carries the tag (the rescan will find it);
    `beh k`: what the k-th invocation of the variant's unpacker does.
    `lookupOnly = true`: only the lookup is guarded (current code); `false`: lookup and call. -/
def dispatch (lookupOnly : Bool) (registered exists_ : Bool) (beh : Nat → Beh) : Out :=
  if lookupOnly then
    if registered || exists_ then ⟨1, ofBeh (beh 0)⟩ else ⟨0, .notFound⟩
  else
    -- first try: lookup + call under one guard
    let first : Option Beh := if registered then some (beh 0) else none
    match first with
    | some .returns => ⟨1, .value⟩
    | some (.raises .other) => ⟨1, .raised .other⟩
    | some (.raises _) | none =>
        -- rescan, second try: lookup + call under `except KeyError`
        let n := if registered then 1 else 0
        if registered || exists_ then
          match beh n with
          | .returns => ⟨n + 1, .value⟩
          | .raises .key => ⟨n + 1, .notFound⟩
          | .raises e => ⟨n + 1, .raised e⟩
        else ⟨n, .notFound⟩

end Mashu.DispatchCall
